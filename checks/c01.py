"""C01 — no input can crash the host: evaluation always returns a value or an error.

Two halves:
  (A) the panic search (harness/cmd/c01): every input stream runs in child processes through all
      script-facing entry points; a panic escaping the library, a killed child, a timeout or a
      poisoned process is a property failure (known finding when a narrow classifier matches).
  (B) the theorems about the generator's argument handling, the infix (Pratt) front end, the by-name call
      check and the destructuring instructions (Properties/C01.v) and their tie: the implementation's
      compile outcome {ok, err, crash} of every generated case is compared with the extracted model on the
      shape of the real parse tree; the outcome of the real InfixExpandArray (ok:<statements>, err, crash) on
      the token array of every infix block with the extracted Pratt model (operator table regenerated from
      pratt.go by translator/cmd/infix on every run); typed calls / multiple assignments with call_check /
      assign_arrays / bindlist.
"""
import json
import os
import re

from . import common
from .common import Check, iter_joined

PARSER_DEPTH_TAGS = ("deep-nesting-", "long-flat-list", "many-args", "infix-deep", "long-dotsym", "deep-array-print")


def classify(f):
    """Narrow classifiers of the listed findings. f is one failure group of the harness."""
    cls, site, msg = f.get("class", ""), f.get("site", "") or "", f.get("msg", "") or ""
    entry, tag, mini = f.get("entry", "") or "", f.get("tag", "") or "", f.get("minimal", "") or ""
    if f.get("stream") == "specials":
        name = tag.split(":", 1)[1] if ":" in tag else tag
        stack = "stack exceeds" in site or "stack overflow" in site
        if name.startswith("chan-") and cls == "TIMEOUT":
            return "chan-recv-deadlock"
        if name.startswith("self-containing-") and ((cls == "KILLED" and stack) or cls == "TIMEOUT"):
            return "go-stack-cyclic-print"
        if name == "self-expanding-macro" and ((cls == "KILLED" and stack) or cls == "TIMEOUT"):
            return "go-stack-macro-self-expansion"
        if name.startswith(PARSER_DEPTH_TAGS) and ((cls == "KILLED" and stack) or cls == "TIMEOUT"):
            return "go-stack-parser-depth"
        if name.startswith("deep-recursion-") and ((cls == "KILLED" and stack) or cls == "TIMEOUT"):
            return "deep-recursion-go-stack"
        if name.startswith("huge-alloc") and cls == "KILLED" and "out of memory" in site:
            return "huge-alloc"
    if cls == "KILLED" and "out of memory" in site and "1000000000000" in mini and re.search(r"\bmake(Array|Chan)\b", mini):
        return "huge-alloc"
    return None


def model_class(m):
    if m in ("ok", "ok-latent"):
        return "ok"
    if m.startswith("ok:"):
        return m        # Pratt cases: the number of statements InfixExpandArray returns is compared too
    if m == "err":
        return "err"
    if m.startswith("crash"):
        return "crash"
    return None  # defer / fuel: outside the model


def main(argv):
    c = Check("C01", argv)
    # the operator table and the guards of lowerRangeFor the Pratt model (Model/PrattShape.v) runs over are
    # read from the repository's pratt.go on every run (translator of C06, shared generated file)
    translator_break = None
    rc_t, out_t = common.translate("infix", "InfixTable.v")
    if rc_t != 0:
        translator_break = {"kind": "translator-failed", "detail": out_t[-1500:],
                            "note": "zygo/pratt.go no longer has the shape translator/cmd/infix understands; the previously generated table is used"}
        c.log("TRANSLATOR FAILED:", out_t[-400:])
    c.proofs()
    c.trusted_base([
        "the panic search decides the runtime half: Go runtime, os/exec, the watchdog and rlimit settings of harness/cmd/c01",
        "pratt.go (infix expansion), macro execution and included files enter the generator model only as universally quantified oracles",
        "shape dump of the parse tree (harness/cmd/c01/worker.go dumpShape/symCode) reads symbol attributes through zygo/verif_c01.go",
        "translator/cmd/infix (go/ast walk of zygo/pratt.go -> Generated/InfixTable.v: operator table, LeftBindingPower constants, guards of lowerRangeFor); token dump of the infix arrays (harness/cmd/c01/pratt.go prattTok)",
    ])
    c.assumptions += [
        "quick tier: the special probes run with the Go stack limit lowered to 8 MB (debug.SetMaxStack) so that unbounded Go recursion shows in seconds; the thorough tier replays them through cmd/zygo at the default 1 GB",
        "a text that only exhausts the VM step budget (an endless loop) is not a failure: the property promises a return only for a bounded number of steps",
    ]
    # cmd/zygo for the subprocess replays
    zygo = os.path.join(common.BUILD, "zygo-c01")
    with common.Lock("go"):
        common.sh(["cp", os.path.join(common.REPO, "go.sum"), os.path.join(common.HARNESS, "go.sum")])
        rc, out = common.sh(["go", "build", "-o", zygo, "github.com/glycerine/zygomys/v9/cmd/zygo"], cwd=common.HARNESS, env=common.env_go(), timeout=1200)
    extra = ["--repo", common.REPO]
    if os.environ.get("C01_STREAMS"):
        extra += ["--streams", os.environ["C01_STREAMS"]]   # development aid: restrict the input streams
    if rc == 0:
        extra += ["--zygo", zygo]
    else:
        c.notes.append("cmd/zygo did not build: " + out[-300:])
    cases = c.harness("c01", extra_args=extra, timeout=5400)
    prop_fail, corr_fail = [], []
    if cases:
        failures = c.coverage.pop("failures", []) or []
        for f in failures:
            if str(f.get("class", "")).startswith("UNCONFIRMED-"):
                c.notes.append("not repeatable alone (machine load): %s %s" % (f.get("class"), json.dumps((f.get("input") or "")[:60])))
                continue
            fid = classify(f)
            example = "%s via %s: %s" % (f.get("class"), f.get("entry"), json.dumps((f.get("minimal") or "")[:80]))
            if fid and c.known_finding(fid, example):
                continue
            prop_fail.append(f)
        c.coverage["failure_groups_seen"] = [
            {k: (v[:200] if isinstance(v, str) else v) for k, v in f.items() if k in ("class", "entry", "site", "minimal", "count", "standalone", "entries", "cmd_zygo", "tag")}
            for f in failures][:60]
        mout = c.model(cases)
        if mout:
            n = cmp_n = pratt_n = 0
            texts = {}
            tpath = cases + ".texts"
            if os.path.exists(tpath):
                for line in open(tpath):
                    p = line.rstrip("\n").split("\t", 1)
                    if len(p) == 2:
                        texts[p[0]] = p[1]
            refuted_seen = False
            for cid, inp, impl, model, spec in iter_joined(cases, mout):
                n += 1
                mc = model_class(model)
                if mc is None:
                    continue
                cmp_n += 1
                if inp.startswith("Q"):
                    pratt_n += 1
                if mc == "crash" and impl == "crash":
                    refuted_seen = True
                if impl != mc:
                    corr_fail.append({"text": texts.get(cid, ""), "shape": inp[:300], "implementation": impl, "model": model})
            c.coverage["tie_cases"] = n
            c.coverage["tie_compared"] = cmp_n
            c.coverage["tie_pratt_token_lists_compared"] = pratt_n
            c.coverage["traces_validated_against_impl"] = cmp_n
    seen = 0
    # failures that repeat alone first; history-dependent ones (a later victim of a damaged interpreter) last
    prop_fail.sort(key=lambda f: (0 if f.get("standalone") else 1, 0 if "follow-up" in (f.get("msg") or "") else 1))
    for f in prop_fail:
        seen += 1
        if seen > 8:
            break
        c.violation({
            "kind": "the host is crashed, blocked or poisoned by a text (%s)" % f.get("class"),
            "input": f.get("minimal") or f.get("input"),
            "original_input": (f.get("input") or "")[:2000],
            "entry_point": f.get("entry"),
            "observable": f.get("class"),
            "site": f.get("site"),
            "message": f.get("msg"),
            "standalone": f.get("standalone"),
            "history_note": None if f.get("standalone") else "does not repeat alone in a fresh interpreter: an EARLIER input of the same child (stream %s, from index %s) damaged the interpreter" % (f.get("stream"), f.get("env_start")),
            "history": f.get("history"),
            "per_entry_point": f.get("entries"),
            "cmd_zygo": f.get("cmd_zygo"),
            "inputs_with_same_class_and_site": f.get("count"),
            "replay": "bin/check C01 --replay <this file>  (runs `input` alone through every entry point in a child process)",
        })
    if not prop_fail:
        crashed = [x for x in corr_fail if x["implementation"] == "crash" and x.get("text")]
        if crashed:
            # the real compile step (LoadExpressions / InfixExpandArray / the typed call) panicked on a text the
            # model says cannot panic, and no entry point of the panic search reported it: the text is the input
            x = crashed[0]
            try:
                import ast
                text = ast.literal_eval(x["text"]) if x["text"].startswith('"') else x["text"]
            except Exception:
                text = x["text"]
            c.violation({"kind": "the compile step panics on a text (model: %s)" % x["model"], "input": text,
                         "shape": x["shape"], "observable": "PANIC", "entry_point": "compile-only tie",
                         "count": len(crashed),
                         "replay": "bin/check C01 --replay <this file>"})
        elif corr_fail:
            c.violation({"kind": "correspondence: compile outcome of the implementation differs from the generator model (Model/GenShape.v)",
                         "cases": corr_fail[:10], "count": len(corr_fail),
                         "theorems": ["gen_total", "gen_no_latent", "call_check_total", "assign_arrays_total", "pratt_total"]},
                        no_input=True, tag="corr")
        elif c.proof_break:
            c.violation({"kind": "proof obligation no longer checks", "detail": c.proof_break}, no_input=True, tag="proof")
        elif translator_break:
            c.violation(translator_break, no_input=True, tag="translator")
    c.coverage["property_failures"] = len(prop_fail)
    c.coverage["correspondence_failures"] = len(corr_fail)
    c.finish("proof")
