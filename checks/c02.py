"""C02 — evaluation matches the reference semantics: values, control flow, effect order.
Two models, both tied on every run: the reference evaluator RefSem.v (checks/refsem.py) and the pure
model of the data builtins Builtins.v (stage `builtins` below: harness/cmd/c02b vs extracted beval)."""
import json
import os
import re
import sys

from . import common, refsem


# ---------------------------------------------------------------- builtins stage
def _tokens(s):
    return re.findall(r"[()\[\]]|[^\s()\[\]]+", s)


def _parse(toks, i=0):
    """prefix form -> nested python lists (atoms are strings); brackets kept as ['[', ...]"""
    t = toks[i]
    if t == "(":
        out, i = [], i + 1
        while toks[i] != ")":
            e, i = _parse(toks, i)
            out.append(e)
        return out, i + 1
    if t == "[":
        out, i = ["["], i + 1
        while toks[i] != "]":
            e, i = _parse(toks, i)
            out.append(e)
        return out, i + 1
    return t, i + 1


def _show(e):
    if isinstance(e, str):
        return e
    if e and e[0] == "[":
        return "[" + " ".join(_show(x) for x in e[1:]) + "]"
    return "(" + " ".join(_show(x) for x in e) + ")"


def _is_exp(e):
    return isinstance(e, list) and e and e[0] in ("L", "Q", "V", "let", "if", "call")


def _subexps(e):
    if e[0] == "call":
        return list(range(2, len(e)))
    if e[0] in ("let", "if"):
        return list(range(1, len(e)))
    return []


def _closed(e, bound=0):
    if e[0] == "V":
        return int(e[1]) < bound
    if e[0] == "let":
        return _closed(e[1], bound) and _closed(e[2], bound + 1)
    return all(_closed(e[i], bound) for i in _subexps(e))


def _shrink_value(v):
    """smaller values: drop an element of a list / array, replace by an element"""
    out = []
    if isinstance(v, list) and v and v[0] == "[":
        for i in range(1, len(v)):
            out.append(v[:i] + v[i + 1:])
            out.append(v[i])
    elif isinstance(v, list) and v and v[0] == "P":
        out += [v[1], v[2]]
        for x in _shrink_value(v[2]):
            out.append(["P", v[1], x])
        for x in _shrink_value(v[1]):
            out.append(["P", x, v[2]])
    return out


def _reductions(e):
    """one-step reductions of an expression (smaller candidates)"""
    out = []
    for i in _subexps(e):
        out.append(e[i])                                   # a sub-expression instead of the whole
        for r in _reductions(e[i]):
            out.append(e[:i] + [r] + e[i + 1:])            # reduce inside
        if e[0] == "call":
            out.append(e[:i] + e[i + 1:])                  # drop an argument
    if e[0] in ("L", "Q"):
        for v in _shrink_value(e[1]):
            out.append([e[0], v])
    if e[0] == "let" and e[1][0] in ("L", "Q"):
        pass
    return [x for x in out if _closed(x)]


def _size(e):
    return len(_show(e))


def _run_batch(c, exe, model_exe, forms, tag):
    """evaluate prefix forms, each in a fresh interpreter, and on the model: list of (impl, model, source)"""
    sub = os.path.join(common.BUILD, "C02b.%s.in" % tag)
    cases = os.path.join(common.BUILD, "C02b.%s.cases" % tag)
    with open(sub, "w") as f:
        f.write("\n".join(forms) + "\n")
    rc, out = common.sh([exe, "--seed", "1", "--tier", c.tier, "--out", cases, "--stats", cases + ".stats", "--sub", sub],
                        cwd=common.BUILD, timeout=600, env=common.env_go())
    if rc != 0:
        return None
    mout = cases + ".model"
    rc, err = common.run_model(model_exe, cases, mout)
    if rc != 0:
        return None
    res = []
    for (cid, inp, obs, src, model) in _joined(cases, mout):
        res.append((obs, model, src))
    return res


def _joined(cases, mout):
    with open(cases) as f, open(mout) as g:
        for lc, lm in zip(f, g):
            a = lc.rstrip("\n").split("\t")
            b = lm.rstrip("\n").split("\t")
            if a[0] != b[0]:
                raise RuntimeError("case/model id mismatch %r %r" % (a[0], b[0]))
            a += [""] * (4 - len(a))
            yield a[0], a[1], a[2], refsem.unesc(a[3]), (b[1] if len(b) > 1 else "")


def _differs(impl, model):
    if model == "UNSPEC" or model.startswith("BADINPUT") or impl == "BUDGET":
        return False
    return impl != model


def builtins_stage(c, _model_exe_refsem=None, replay=None):
    """Correspondence of the real data builtins with the extracted pure model beval (Builtins.v).
    Returns the number of property violations reported."""
    if c.replay_in and not replay:
        return 0          # replay of a RefSem counterexample: this stage is not concerned
    rc, out, model_exe = common.build_ocaml("C02b")
    if rc != 0:
        c.log("builtins: extraction/ocaml build failed:\n" + out[-2000:])
        c.proof_break = c.proof_break or {"kind": "extraction-failed (Builtins.v)", "log": out[-2000:]}
        return 0
    rc, out, exe = common.build_go("c02b")
    if rc != 0:
        c.violation({"kind": "harness-build-failed (c02b)", "log": out[-3000:]}, no_input=True, tag="build")
        return 0
    cases = os.path.join(common.BUILD, "C02b.cases")
    stats = os.path.join(common.BUILD, "C02b.stats")
    args = [exe, "--seed", str(c.seed), "--tier", c.tier, "--out", cases, "--stats", stats]
    if replay:
        args += ["--replay", replay]
    for f in (cases, cases + ".current"):
        if os.path.exists(f):
            os.remove(f)
    rc, out = common.sh(args, cwd=common.BUILD, timeout=1500, env=common.env_go())
    died = None
    if rc != 0:
        # the harness died (fatal Go error, e.g. stack overflow in a builtin) or its watchdog fired (rc 97: an
        # evaluation did not return).  What was compared before is still checked; the program that was being
        # evaluated is in <cases>.current
        c.log("builtins harness stopped rc=%s: %s" % (rc, out[-600:]))
        died = {"rc": rc, "log": out[-1500:]}
        try:
            cur = open(cases + ".current").read().rstrip("\n").split("\t")
            died["prefix"], died["source"] = cur[0], (cur[1] if len(cur) > 1 else "")
        except Exception:
            pass
        if not os.path.exists(cases) or os.path.getsize(cases) == 0:
            c.violation({"kind": "harness-crashed (c02b)", "detail": died}, no_input=("prefix" not in died), tag="crash")
            return 1
        # drop a last, incomplete line
        lines = open(cases).read().split("\n")
        good = [l for l in lines if l.count("\t") >= 3]
        open(cases, "w").write("\n".join(good) + "\n")
    mout = os.path.join(common.BUILD, "C02b.model")
    rc, err = common.run_model(model_exe, cases, mout)
    if rc != 0:
        c.log("builtins model runner failed: " + err)
        c.proof_break = c.proof_break or {"kind": "model-runner-failed (c02b)", "log": err}
        return 0
    n = agree = unspec = errs = 0
    fails, panics = [], []
    for (cid, inp, obs, src, model) in _joined(cases, mout):
        n += 1
        if obs == "PANIC":
            panics.append((cid, inp, obs, model, src))
        elif model == "UNSPEC":
            unspec += 1
        elif _differs(obs, model):
            fails.append((len(inp), cid, inp, obs, model, src))
        else:
            agree += 1
            errs += 1 if obs == "ERR" else 0
    st = json.load(open(stats)) if os.path.exists(stats) else {}
    c.coverage["builtins"] = {
        "model": "coq/Model/Builtins.v beval (extracted) vs EvalString on generated builtin-call trees",
        "compared": n, "agree": agree, "agree_both_error": errs, "model_declined_unspecified": unspec,
        "disagreements": len(fails), "panics": len(panics),
        "distinct_nontrivial": st.get("distinct_nontrivial"), "distribution": st.get("distribution"),
        "streams": "exh1 (every builtin on every value of a 31-value boundary set), exh2 (19 binary builtins on all ordered pairs), truthy, random typed trees (depth<=4, let/cond, 4% ill-typed), sharing probes (a sequence bound once, 1-3 operations on it, results AND the original inspected)",
    }
    viol = 0
    if died:
        d = dict(died)
        d.update({"kind": "builtins: the interpreter did not survive / did not return from a builtin-call tree (rc 97 = no return within 30 s; "
                          "otherwise a fatal Go error such as a stack overflow)", "stream": "builtins",
                  "implementation": "HANG" if died["rc"] == 97 else "CRASH",
                  "replay": "bin/check C02 --replay <this file>"})
        if "prefix" in died:
            r = _run_batch(c, exe, model_exe, [died["prefix"]], "died")
            d["reproduced_alone_in_fresh_interpreter"] = r is None
            mo = common.sh([model_exe], cwd=common.BUILD, timeout=60, stdin="1\t%s\n" % died["prefix"])
            d["model"] = d["specification"] = (mo[1].split("\t")[1] if mo[0] == 0 and "\t" in mo[1] else "?")
        viol += 1
        c.violation(d, no_input=("prefix" not in died), tag="crash")
    for (cid, inp, obs, model, src) in panics[:2]:
        viol += 1
        c.violation({"kind": "builtins: the interpreter panicked on a builtin-call tree", "stream": "builtins", "source": src, "prefix": inp,
                     "implementation": obs, "model": model,
                     "replay": "bin/check C02 --replay <this file>"})
    if fails:
        fails.sort()
        seen = set()
        for (_, cid, inp, obs, model, src) in fails[:40]:
            if viol >= 3:
                break
            cur, _ = _parse(_tokens(inp))
            cur_obs, cur_model, cur_src = obs, model, src
            if not replay:
                # is it reproducible in a fresh interpreter?  then minimise greedily
                r = _run_batch(c, exe, model_exe, [inp], "re")
                if r is None:
                    continue
                if not _differs(r[0][0], r[0][1]):
                    # depends on what earlier programs left behind in the shared interpreter
                    c.coverage["builtins"].setdefault("not_reproduced_fresh", 0)
                    c.coverage["builtins"]["not_reproduced_fresh"] += 1
                    continue
                cur_obs, cur_model, cur_src = r[0]
                for _round in range(25):
                    cands = sorted(set(_show(x) for x in _reductions(cur)), key=len)[:400]
                    if not cands:
                        break
                    rs = _run_batch(c, exe, model_exe, cands, "shr")
                    if rs is None:
                        break
                    best = None
                    for form, (i2, m2, s2) in zip(cands, rs):
                        if _differs(i2, m2) and len(form) < _size(cur):
                            best = (form, i2, m2, s2)
                            break
                    if best is None:
                        break
                    cur, _ = _parse(_tokens(best[0]))
                    cur_obs, cur_model, cur_src = best[1], best[2], best[3]
            key = _show(cur)
            if key in seen:
                continue
            seen.add(key)
            viol += 1
            c.violation({"kind": "builtins: the real interpreter and the pure builtin model (Builtins.v beval) disagree on the value / error of a builtin-call tree",
                         "stream": "builtins", "source": cur_src, "prefix": key, "implementation": cur_obs, "model": cur_model,
                         "specification": cur_model, "original_case": {"id": cid, "source": src, "implementation": obs, "model": model},
                         "count_disagreements": len(fails),
                         "value_format": "I<int> F<float64 bits> C<rune> S<hex bytes> Y<hex symbol name> Bt Bf N (P head tail) [array] FN:<builtin>; ERR = the call returns an error",
                         "replay": "bin/check C02 --replay <this file>   (evaluates \"prefix\" rendered as source in a fresh interpreter and on the model)"})
        if viol == 0 and c.coverage["builtins"].get("not_reproduced_fresh"):
            # a disagreement that needs the state left by earlier programs: report the first one unminimised
            (_, cid, inp, obs, model, src) = fails[0]
            viol += 1
            c.violation({"kind": "builtins: disagreement that appears only after earlier programs ran in the same interpreter (a builtin changed a shared value?)",
                         "stream": "builtins", "source": src, "prefix": inp, "implementation": obs, "model": model, "specification": model})
    return viol


TRUSTED = [
    "the reference evaluator coq/Model/RefSem.v is hand-written (it is the specification of C02); the compiler+VM of /repo are tied to it by the correspondence run on generated programs, not by a proof over the Go source",
    "the pure builtin model coq/Model/Builtins.v is hand-written after functions.go/listutils.go/arrayutils.go/strutils.go/numerictower.go/comparisons.go; it is tied to the real builtins by the correspondence run of harness/cmd/c02b (values and errors of builtin-call trees over boundary data), not by a proof over the Go source",
    "builtins outside the two models (hashes, printing of floats and chars, slices beyond the length, ordering of distinct symbols, non-integer indices) are not generated or are declined by the model (outcome UNSPEC, counted)",
    "the step budget of the harness (4000 VM instructions) and the fuel of the model (300) bound the programs compared",
]


def main(argv):
    # replay of a builtins counterexample: only that stage
    if "--replay" in argv:
        path = argv[argv.index("--replay") + 1]
        try:
            obj = json.load(open(path))
        except Exception:
            obj = {}
        if obj.get("stream") == "builtins":
            c = common.Check("C02", argv)
            c.proof_break = None
            builtins_stage(c, replay=path)
            c.finish("proof")
            return
    refsem.run("C02", "c02", argv, TRUSTED, {
        "tco-by-name": lambda r: r.get("defn_rebinds_and_calls_its_own_name") and not r.get("disagrees_also_without_self_tail_call", True),
    }, extra=builtins_stage)
