"""C02 — evaluation matches the reference semantics: values, control flow, effect order."""
from . import refsem


def main(argv):
    refsem.run("C02", "c02", argv, [
        "the reference evaluator coq/Model/RefSem.v is hand-written (it is the specification of C02); the compiler+VM of /repo are tied to it by the correspondence run on generated programs, not by a proof over the Go source",
        "builtins outside the modelled core (floats, chars, hashes, string functions, rest on arrays, non-integer indices) are not generated or are declined by the model (outcome UNSPEC, counted)",
        "the step budget of the harness (4000 VM instructions) and the fuel of the model (300) bound the programs compared",
    ], {
        "tco-by-name": lambda r: r.get("defn_rebinds_and_calls_its_own_name") and not r.get("disagrees_also_without_self_tail_call", True),
    })
