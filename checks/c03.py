"""C03 — lexical scoping: closures capture where they were made, never the caller."""
import json
import os

from . import common, refsem


def scope_tie(c, model_exe):
    """Correspondence of the scope MECHANISM: the real lookup structure (live scope stack, captured stacks,
    parent chain; /repo/zygo/verif_c03.go) before every instruction that looks a name up or binds one must
    equal the state of the extracted machine coq/Model/ScopeImpl.v replaying the scope events of the same run."""
    rc, out, exe = common.build_go("c03scope")
    if rc != 0:
        if not os.path.exists(os.path.join(common.REPO, "zygo", "verif_c03.go")):
            c.notes.append("scope-mechanism tie skipped: this tree has no zygo/verif_c03.go (accessor of the lookup structure)")
            return 0
        c.violation({"kind": "harness-build-failed (c03scope)", "log": out[-3000:]}, no_input=True, tag="build")
        return 1
    cases = os.path.join(common.BUILD, "C03scope.cases")
    stats = os.path.join(common.BUILD, "C03scope.stats")
    rc, out = common.sh([exe, "--seed", str(c.seed), "--tier", c.tier, "--out", cases, "--stats", stats],
                        cwd=common.BUILD, timeout=900, env=common.env_go())
    if rc != 0:
        c.violation({"kind": "harness-crashed (c03scope)", "rc": rc, "log": out[-3000:]}, no_input=(rc == 124), tag="crash")
        return 1
    mout = os.path.join(common.BUILD, "C03scope.model")
    rc, err = common.run_model(model_exe, cases, mout)
    if rc != 0:
        c.proof_break = c.proof_break or {"kind": "model-runner-failed (scope replay)", "log": err}
        return 0
    n, bad, ex = 0, 0, []
    with open(cases) as f, open(mout) as g:
        for lc, lm in zip(f, g):
            a = lc.rstrip("\n").split("\t")
            b = lm.rstrip("\n").split("\t")
            n += 1
            if a[2] != b[1]:
                bad += 1
                if len(ex) < 5:
                    real, model = a[2].split(" "), b[1].split(" ")
                    k = next((i for i, (p, q) in enumerate(zip(real, model)) if p != q), min(len(real), len(model)))
                    ex.append({"source": a[3] if len(a) > 3 else "", "events": a[1][:600], "lookup_index": k,
                               "real_structure": real[k] if k < len(real) else None,
                               "model_structure": model[k] if k < len(model) else None})
    st = json.load(open(stats)) if os.path.exists(stats) else {}
    c.coverage["scope_mechanism_programs"] = n
    c.coverage["scope_mechanism_lookup_structures_compared"] = st.get("lookup_structures_compared")
    c.coverage["scope_mechanism_programs_differ"] = bad
    if bad:
        c.violation({"kind": "the real lookup structure (live scope stack / captured stacks / parent chain) differs from the machine "
                             "coq/Model/ScopeImpl.v replaying the same scope events: the tie of lookup_is_lexical to "
                             "environment.go/closing.go/vm.go is broken (this alone is not a failing input of the property)",
                     "count": bad, "cases": ex}, no_input=True, tag="scope")
        return 1
    return 0


def main(argv):
    refsem.run("C03", "c03", argv, [
        "the reference evaluator coq/Model/RefSem.v (static chains of frames) is the specification of lexical scoping; the scope stack / captured stacks / parent chain of /repo (environment.go:LexicalLookupSymbol, closing.go) are modelled by coq/Model/ScopeImpl.v, proved to look names up lexically under a relation preserved by the scope events, and tied to the code by replaying the real VM's scope events on the extracted machine",
        "the value-level correspondence run on generated programs ties the evaluator as a whole",
        "the step budget of the harness (4000 VM instructions) and the fuel of the model (300) bound the programs compared",
    ], {
        "tco-by-name": lambda r: r.get("defn_rebinds_and_calls_its_own_name") and not r.get("disagrees_also_without_self_tail_call", True),
    }, extra=scope_tie)
