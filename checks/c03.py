"""C03 — lexical scoping: closures capture where they were made, never the caller."""
from . import refsem


def main(argv):
    refsem.run("C03", "c03", argv, [
        "the reference evaluator coq/Model/RefSem.v (static chains of frames) is the specification of lexical scoping; the scope stack / captured stacks / parent chain of /repo (environment.go:LexicalLookupSymbol, closing.go) are tied to it by the correspondence run on generated programs",
        "the step budget of the harness (4000 VM instructions) and the fuel of the model (300) bound the programs compared",
    ], {
        "tco-by-name": lambda r: r.get("defn_rebinds_and_calls_its_own_name") and not r.get("disagrees_also_without_self_tail_call", True),
    })
