"""C04 — an evaluation that succeeds leaves nothing behind in the interpreter.

Verified validator: the Coq-extracted check_fn decides the REAL bytecode of every compiled
function (F), the extracted effect_ok / enter_ok / return_ok decide every observed transition
of the real VM (T/S/C/R), and the four depths / empty input / one-by-one are observed directly
(D/N/O) against the extracted rest state."""
import os
import re

from . import common
from .common import Check


def unesc(s):
    out, i = [], 0
    while i < len(s):
        if s[i] == "\\" and i + 1 < len(s):
            out.append({"n": "\n", "t": "\t", "\\": "\\"}.get(s[i + 1], s[i + 1]))
            i += 2
        else:
            out.append(s[i])
            i += 1
    return "".join(out)


NEXT_TEXT = "\n;;#next-text (the host does not call Clear())\n"


def esc_keep(s):
    return s.replace("\\", "\\\\").replace("\t", "\\t").replace("\n", "\\n")


def iter_rows(cases, mout):
    with open(cases) as f, open(mout) as g:
        for lc, lm in zip(f, g):
            a = lc.rstrip("\n").split("\t")
            b = lm.rstrip("\n").split("\t")
            a += [""] * (4 - len(a))
            b += [""] * (3 - len(b))
            if a[0] != b[0]:
                raise RuntimeError("case/model id mismatch %r %r" % (a[0], b[0]))
            yield a[1], a[2], a[3], b[1], b[2]


# ---- narrow classifiers for the listed findings -------------------------------------------
# a failure is attributed to a finding only when the program text contains the construct the
# finding is about AND the symptom is the one that construct produces.
PAT = {
    # a break/continue inside a (package ...) form; symptom: a scope stays behind / the chunk verifies
    # only when the jump pops one more scope
    "package-scope-uncounted": re.compile(r"\(package\s[^\n]*\((break|continue)\b"),
}
SYMPTOM_OF = {"package-scope-uncounted": "scope"}


def shape_len(state):
    sh = state.split(";")[1]
    return 0 if sh == "" else len(sh.split(","))


def symptom(kind, inp, impl, model):
    """extra | missing | scope | other"""
    if kind == "F":
        if "repair=break-scopes:ok" in model:
            return "scope"
        m = re.search(r"reason=(\S+) state=\[([^\]]*)\]\+(\d+)", model)
        if not m:
            return "other"
        why, sh, k = m.group(1), m.group(2), int(m.group(3))
        n = 0 if sh == "" else len(sh.split(","))
        if why.startswith("stack-or-scope-underflow"):
            return "missing"
        if why in ("return-with", "end-with"):
            if k > 0:
                return "scope"
            return "missing" if n == 0 else ("extra" if n >= 2 else "other")
        return "other"
    if kind in ("S", "T"):
        parts = [p.strip() for p in inp.split("|")]
        d = shape_len(parts[2]) - shape_len(parts[1])
        if kind == "S":
            return "missing" if d <= 0 else ("extra" if d >= 2 else "other")
        return "other"
    if kind == "D":
        d, s, a, l = [int(x) for x in impl.split(",")]
        if s > 1 and d == 0:
            return "scope"
        if d > 0 and s == 1:
            return "extra"
        return "other"
    if kind == "N":
        if impl.startswith("stale:"):
            return "extra"
        m = re.match(r"nil (\d+),(\d+),", impl)
        if m and int(m.group(2)) > 1:
            return "scope"
        if m and int(m.group(1)) > 0:
            return "extra"
        return "other"
    return "other"


def main(argv):
    c = Check("C04", argv)
    c.proofs()
    c.trusted_base([
        "zygo/verif_c04.go (bytecode dump: type switch over every instruction type; data-stack shape accessor; VerifCompileExpr mirrors the generator part of EvalCallExpression)",
        "annotation inference (OCaml worklist) is NOT trusted: check_fn re-checks its result",
        "the effect table Bytecode.eff is tied to vm.go's Execute methods by trace conformance only on executed paths",
    ])
    c.assumptions += [
        "a call instruction is the atomic summary 'arguments popped, one result pushed, other stacks unchanged': proved for compiled callees from check_fn of the callee (Theorem calls_justified) and observed for builtins (S/T lines)",
        "PrepareCall resolves the function's own name to the function itself (self tail call); a deviation shows up as a T line that effect_ok rejects",
        "the top-level chunk and __source chunks start from an empty data stack (the tolerant PopInstr is modelled as a no-op only there)",
    ]
    cases = c.harness("c04", extra_args=["--repo", common.REPO])
    fails = []          # (kind, src, detail dict)
    counts = {}
    rejected_unsupported = 0
    hist_steps = 0
    if cases:
        mout = c.model(cases)
        if mout:
            for inp, impl, src, model, spec in iter_rows(cases, mout):
                kind = inp[:1]
                counts[kind] = counts.get(kind, 0) + 1
                bad = None
                if kind == "F":
                    if not model.startswith("ok"):
                        if "fn=__main_foreign" in model:
                            counts["F-foreign-main-skipped"] = counts.get("F-foreign-main-skipped", 0) + 1
                        elif "reason=too-many-states" in model:
                            rejected_unsupported += 1
                        else:
                            bad = "function rejected by check_fn: " + model
                    elif "tail=bad" in model:
                        bad = "self tail call does not re-enter with the entry annotation: " + model
                elif kind in ("T", "S", "C", "R"):
                    if model != "ok":
                        bad = "observed transition is not a step of the abstract machine (%s)" % {"T": "effect_ok", "S": "effect_ok on a call summary", "C": "enter_ok", "R": "return_ok"}[kind]
                elif kind == "D":
                    if impl != spec:
                        bad = "depths after a successful evaluation %s, at rest %s" % (impl, spec)
                elif kind == "N":
                    if impl != "nil " + "0,1,0,0":
                        bad = "EvalString(\"\") after this history gave %s (expected nil at rest)" % impl
                elif kind == "O":
                    if impl != spec:
                        bad = "one at a time differs from together: " + impl
                elif kind == "H":
                    # history of texts never followed by Clear(): resident state after EVERY evaluation
                    items = [x.strip() for x in inp.split("|")[1:]]
                    iv, mv, sv = impl.split(" / "), model.split(" / "), spec.split(" / ")
                    texts = unesc(src).split(NEXT_TEXT)
                    hist_steps += len(iv)
                    for i in range(len(iv)):
                        it = items[i] if i < len(items) else "?"
                        m = mv[i] if i < len(mv) else "-"
                        sp = sv[i] if i < len(sv) else "-"
                        what = None
                        if not iv[i].startswith(sp.replace(";idle", "") + ";"):
                            what = "after text %d of this history (fate %s) the interpreter holds %s (data,scope,addr,loop depth; pending instructions; parser) - expected %s" % (i + 1, it[:1], iv[i], sp)
                        elif sp.endswith(";idle") and not re.match(r"^[^;]*;[^;]*;0,0,0,0,\d+$", iv[i]):
                            what = "after the successful text %d the parser is not idle: %s" % (i + 1, iv[i])
                        elif iv[i] != m:
                            what = "resident state after text %d (fate %s): interpreter %s, model (exec_fate) %s" % (i + 1, it, iv[i], m)
                        if what:
                            src = esc_keep(NEXT_TEXT.join(texts[:i + 1]))
                            bad = what
                            break
                if bad:
                    fails.append({"kind": kind, "input": inp[:2000], "implementation": impl, "model": model, "what": bad,
                                  "program": unesc(src), "symptom": symptom(kind, inp, impl, model)})
            c.coverage["lines_by_kind"] = counts
            c.coverage["traces_validated_against_impl"] = sum(counts.get(k, 0) for k in "TSCR")
            c.coverage["functions_rejected_unsupported"] = rejected_unsupported
            c.coverage["resident_history_evaluations_compared"] = hist_steps
    # ---- attribute failures ----
    by_prog = {}
    for f in fails:
        by_prog.setdefault(f["program"], []).append(f)
    prop_level, other = [], []
    for prog, fl in by_prog.items():
        rest = []
        for f in fl:
            fid = None
            for k, pat in PAT.items():
                if SYMPTOM_OF[k] == f["symptom"] and pat.search(prog):
                    fid = k
                    break
            if fid and c.known_finding(fid, (f["what"] + " :: " + prog)[:160].replace("\n", " ")):
                continue
            rest.append(f)
        if rest:
            if any(f["kind"] in "DNOH" for f in rest):
                prop_level.append((prog, rest))
            else:
                other.append((prog, rest))
    # panics: programs whose evaluation panicked out of EvalString (C01's subject); listed, and a
    # violation here only when no listed finding explains them
    shown = 0
    for prog, fl in sorted(prop_level, key=lambda x: len(x[0])):
        if shown >= 5:
            break
        shown += 1
        first = [f for f in fl if f["kind"] in "DNOH"][0]
        c.violation({"kind": "the interpreter is not at rest after a successful evaluation / stale value / one-by-one differs",
                     "program": prog, "observed": first["what"], "all_failures_of_this_program": [f["what"] for f in fl][:8],
                     "replay": "fresh interpreter (NewZlisp+StandardSetup); EvalString(program); then env.VerifDepths() and EvalString(\"\"). A program that starts with '#api ctor=C pre=P loaders=L,..' is an API history: construct the interpreter (std = NewZlisp+StandardSetup, bare = NewZlisp, sandbox = NewZlispSandbox), bring it into state P (new | clear = Clear() | ran = after one EvalString | err = after a failed EvalString and Clear()), call the loaders in turn on the #piece texts, then Run() ONCE, Run() again on the idle interpreter, EvalString(\"\"). bin/check C04 --replay <this file> does exactly that. A program with ';;#next-text' separator lines is a HISTORY: EvalString each text in turn on ONE interpreter, never calling Clear(), reading VerifDepths / pc / parser after each."})
    if not prop_level:
        shown = 0
        for prog, fl in sorted(other, key=lambda x: len(x[0])):
            if shown >= 5:
                break
            shown += 1
            c.violation({"kind": "bytecode of a compiled function is rejected by the verified checker / a VM step is outside the abstract machine (no leftover observed at the top level)",
                         "program": prog, "failures": [{"what": f["what"], "case": f["input"][:600]} for f in fl[:6]],
                         "replay": "compile the program; dump the named function (VerifDumper); the pc / instruction named in the rejection is where the stack or scope depth goes wrong"},
                        no_input=True, tag="fn")
        if not other and c.proof_break:
            c.violation({"kind": "proof obligation no longer checks", "detail": c.proof_break}, no_input=True, tag="proof")
    c.coverage["property_failures"] = len(prop_level)
    c.coverage["checker_or_trace_failures"] = len(other)
    c.coverage["failing_programs_attributed_to_known_findings"] = len(by_prog) - len(prop_level) - len(other)
    c.finish("proof")
