"""C05 — errors are contained: a failed evaluation restores the interpreter.

proof   : Properties/C05.v (error_not_swallowed, store_at_failure, twin_equiv over the reference
          evaluator; rest_after_error over the abstract control-state machine; reentry_census_ok over
          the generated census of VM re-entry points; read_after_any_history, compile_keeps_loopstack,
          session_at_rest, error_restores_read_compile, error_restores_run, failed_force_not_memoised over
          Model/Phases.v - the read / compile / run phases of one load and what each leaves behind;
          phase_census_ok over the second half of the generated census)
tie     : translator/cmd/reentry -> coq/Generated/Reentry.v (T);  fault enumeration on the real
          interpreter (harness/cmd/c05) compared with a twin interpreter and with the extracted
          session evaluator ErrCont.run_session (ocaml/c05/run.ml);  the PHASE stream (harness/cmd/c05/phases.go):
          read faults at every token position, compile faults at every sub-form, run faults at every k,
          each followed by a battery, compared text by text with the extracted Phases.psession_obs
"""
import json
import os
import re
import subprocess
import sys

from . import common
from .common import Check


def split_obs(o):
    body, _, tr = o.rpartition("|T:")
    return body.split(" ;; "), tr


def unesc(s):
    return s.replace("\\n", "\n").replace("\\t", "\t").replace("\\\\", "\\")


def sync_runner():
    """ocaml/c05/run.ml = the FORM parser / value printer of ocaml/refsem/run.ml (owned by the RefSem engineer, who
    extends it together with RefSem.v and harness/refgen) + the session driver of C05.  The copied part is refreshed
    from its source whenever that changed, so that a new literal / primitive of the shared language does not show up
    here as a difference between implementation and model."""
    src = open(os.path.join(common.VERIF, "ocaml", "refsem", "run.ml")).read()
    path = os.path.join(common.VERIF, "ocaml", "c05", "run.ml")
    mine = open(path).read()
    try:
        a0, a1 = src.index("type sx ="), src.index("let show_outcome")
        b0, b1 = mine.index("type sx ="), mine.index("\nlet show_obs")
    except ValueError:
        return "markers not found"
    new = mine[:b0] + src[a0:a1].rstrip("\n") + "\n" + mine[b1:]
    if new != mine:
        open(path, "w").write(new)
        return "refreshed"
    return "unchanged"


def replay_obj(failat, sources, kind, detail, extra=None, entry="EvalString"):
    o = {"kind": kind, "failat": failat, "texts": [unesc(t) for t in sources], "names": ["x", "y", "f", "zz1", "zzAfter"],
         "load_run": entry == "LoadString+Run", "entry_point": entry,
         "detail": detail,
         "replay": "bin/check C05 --replay <this file>  (evaluates the texts in a fresh interpreter for every failure kind; "
                   "failk raises on its failat-th call; prints every kind's outcomes and the anomalies; when the file has "
                   "'expected' - the outcomes of the reference semantics per text - the script-error run is compared with them)"}
    if extra:
        o.update(extra)
    return o


def main(argv):
    c = Check("C05", argv)

    if c.replay_in:
        rc, out, exe = common.build_go("c05")
        if rc != 0:
            print(out[-2000:])
            c.violation({"kind": "harness-build-failed", "log": out[-2000:]}, no_input=True, tag="build")
            c.finish("proof")
        p = subprocess.run([exe, "--replay", c.replay_in], stdout=subprocess.PIPE, stderr=subprocess.STDOUT, env=common.env_go())
        txt = p.stdout.decode("utf-8", "replace")
        print("\n".join(l for l in txt.split("\n") if "LenFunction" not in l and l.strip()))
        if p.returncode != 0:
            c.violation({"kind": "replayed witness still fails", "witness": c.replay_in, "output": txt[-3000:]}, tag="replay")
        c.finish("proof")

    # (T) census of the VM re-entry points, regenerated from the current source
    rc, out = common.translate("reentry", "Reentry.v")
    census_break = None
    if rc != 0:
        census_break = out[-2000:]
        c.log("translator reentry failed:\n" + out[-1500:])
    c.proofs()
    c.trusted_base([
        "harness/refgen (AST renderings, value canonicalisation) and coq/Model/RefSem.v as the meaning of the core language (tied by C02/C03 and again by this check's correspondence run)",
        "the twin interpreter is env.Duplicate() taken at rest before the session (a second shell on the same global scope object); "
        "that the store is the one of the moment of failure is checked by the snapshot taken inside the failing host call",
        "translator/cmd/reentry recognises a re-entry syntactically (a call <expr>.Run() with no arguments in package zygo)",
    ])
    c.assumptions += [
        "stack discipline of compiled code (a frame never pops below the depths it was entered with) is C04's subject; rest_after_error assumes it (outcome Crash excluded)",
        "Model/Phases.v covers a small run-time language (ints, false, globals, def, begin, failk with an atomic argument, closures created but not called, for loops whose test is the literal false); argument forms of calls are generated at run time by the real interpreter and are outside it (outcome UNSPEC: the session is not compared further)",
        "constructs outside the reference evaluator (lazy arguments, eval, evaluated hash keys / indices, macros, infix, mdef) have no model: they are compared with the twin only",
    ]

    c.notes.append("ocaml/c05/run.ml parser/printer part: " + sync_runner())
    cases = c.harness("c05")
    prop, corr = [], []
    stats = {"sessions_compared_with_model": 0, "texts_compared_with_model": 0, "sessions_without_model": 0,
             "model_declined_or_out_of_fuel_texts": 0, "budget_texts": 0,
             "phase_sessions_compared": 0, "phase_texts_compared": 0, "phase_sessions_model_declined": 0}
    if cases:
        mout = c.model(cases)
        if mout:
            with open(cases) as f, open(mout) as g:
                for lc, lm in zip(f, g):
                    a = lc.rstrip("\n").split("\t")
                    b = lm.rstrip("\n").split("\t")
                    if a[0] != b[0]:
                        raise RuntimeError("case/model id mismatch")
                    cid, inp, impl = a[0], a[1], a[2]
                    anoms = [x for x in (a[3].split(" || ") if len(a) > 3 and a[3] else []) if x]
                    sources = a[4].split(" ;; ") if len(a) > 4 else []
                    roles = a[5] if len(a) > 5 else ""
                    entry = a[6] if len(a) > 6 else "EvalString"
                    m = re.match(r"failat=(\d+)", inp)
                    failat = int(m.group(1)) if m else 0
                    if anoms:
                        # no known finding is listed for C05: every anomaly is a violation
                        prop.append((len(a[4]) if len(a) > 4 else 0, replay_obj(failat, sources, "property failure: " + anoms[0].split(" ")[0],
                                                                                 anoms[:6], {"case": cid, "implementation": impl[:1500]}, entry)))
                    model = b[1]
                    if inp.startswith("PHASE "):
                        # the phase stream: outcome@at-rest,loops,data per text against the extracted Phases.psession_obs
                        io, mo = impl.split(" ;; "), model.split(" ;; ")
                        stats["phase_sessions_compared"] += 1
                        failed_before = False
                        for i, (x, y) in enumerate(zip(io, mo)):
                            if y.startswith("UNSPEC") or y.startswith("FUEL") or x.startswith("BUDGET"):
                                stats["phase_sessions_model_declined"] += 1
                                break
                            stats["phase_texts_compared"] += 1
                            src = unesc(sources[i]) if i < len(sources) else ""
                            if x != y:
                                extra = {"case": cid, "phase_stream": True, "expected": mo, "model_input": inp[:3000]}
                                if x.split("@")[-1] != "1,0,0":
                                    prop.append((len(a[4]), replay_obj(failat, sources, "property failure: unrest",
                                                 ["phase-unrest: after text %d %s the interpreter is not at rest: outcome@at-rest,loop-stack depth,data-stack depth = %s (model %s)" % (i, src, x, y)],
                                                 extra, entry)))
                                elif failed_before or y[0] in "RCX":
                                    what = ("phase-swallowed: text %d %s evaluates to %s; it must fail (model %s: R read error, C compile error, X run error)" if x.startswith("V:") and y[0] in "RCX"
                                            else "phase-later: text %d %s gives %s, the model of the load phases gives %s; an earlier text of the session failed (or this one does): a failed load left something behind")
                                    prop.append((len(a[4]), replay_obj(failat, sources, "property failure: an evaluation after a failed load differs from the phase model",
                                                 [what % (i, src, x, y)], extra, entry)))
                                else:
                                    corr.append({"case": cid, "failat": failat, "text_index": i, "text": src, "implementation": x, "model": y,
                                                 "texts": [unesc(t) for t in sources], "stream": "phase"})
                                break
                            if y[0] in "RCX":
                                failed_before = True
                        continue
                    if model == "SKIP":
                        stats["sessions_without_model"] += 1
                        continue
                    if model.startswith("BADINPUT"):
                        corr.append({"case": cid, "input": inp[:600], "model": model})
                        continue
                    io, itr = split_obs(impl)
                    mo, mtr = split_obs(model)
                    stats["sessions_compared_with_model"] += 1
                    complete = True
                    for i, (x, y) in enumerate(zip(io, mo)):
                        role = roles[i] if i < len(roles) else "p"
                        if y in ("FUEL", "UNSPEC") or x == "BUDGET" or x.startswith("PANIC"):
                            stats["model_declined_or_out_of_fuel_texts" if x != "BUDGET" else "budget_texts"] += 1
                            complete = False
                            if role == "b" and y == "UNSPEC":
                                continue      # a battery call the model declines (e.g. calling an array): no effect, go on
                            break
                        stats["texts_compared_with_model"] += 1
                        if x == y:
                            continue
                        if x.startswith("E:") and y.startswith("E:") and "user" not in (x, y)[0] and "user" not in y:
                            continue          # error classes are read off the message text; only the injected one is exact
                        src = sources[i] if i < len(sources) else ""
                        if ("zz1" in src or "zzAfter" in src) and x.startswith("V:"):
                            prop.append((len(a[4]), replay_obj(failat, sources, "property failure: a text that is rejected as a whole took effect",
                                                               ["a text that was rejected with an error left a marker defined: %s evaluates to %s (model %s)" % (unesc(src), x, y)],
                                                               {"case": cid}, entry)))
                        elif "d" in roles:
                            prop.append((len(a[4]), replay_obj(failat, sources, "property failure: later evaluation differs from the desugared reference semantics",
                                                               ["text %d %s evaluates to %s; the reference semantics (lazy argument = memo cell + thunk, a failed force leaves it unforced; "
                                                                "macro = function, a failed redefinition leaves the old one) gives %s" % (i, unesc(src), x, y)],
                                                               {"case": cid, "model_input": inp[:3000], "expected": mo}, entry)))
                        elif role == "i" and x.startswith("V:"):
                            prop.append((len(a[4]), replay_obj(failat, sources, "property failure: error swallowed into a successful result",
                                                               ["text %d %s must be rejected as a whole (model %s) but evaluated to %s" % (i, unesc(src), y, x)],
                                                               {"case": cid}, entry)))
                        elif x.startswith("V:") and y.startswith("E:"):
                            prop.append((len(a[4]), replay_obj(failat, sources, "property failure: error swallowed into a successful result",
                                                               ["text %d %s evaluates to %s; in the reference semantics this evaluation fails (%s)" % (i, unesc(src), x, y)],
                                                               {"case": cid, "model_input": inp[:3000], "expected": mo}, entry)))
                        elif any(o.startswith("E:") or o == "BUDGET" for o in io[:i]):
                            prop.append((len(a[4]), replay_obj(failat, sources, "property failure: an evaluation after a failed evaluation differs from the reference semantics",
                                                               ["text %d %s evaluates to %s, the reference semantics gives %s; an earlier text of the session failed "
                                                                "(the twin shares heap objects and compiled code with the interpreter that failed, so it agrees)" % (i, unesc(src), x, y)],
                                                               {"case": cid, "model_input": inp[:3000], "expected": mo}, entry)))
                        else:
                            corr.append({"case": cid, "failat": failat, "text_index": i, "text": unesc(src), "implementation": x, "model": y,
                                         "texts": [unesc(t) for t in sources]})
                        break
                    else:
                        if complete and itr != mtr:
                            corr.append({"case": cid, "failat": failat, "trace_implementation": itr, "trace_model": mtr,
                                         "texts": [unesc(t) for t in sources]})
    c.coverage.update(stats)
    c.coverage["property_failures"] = len(prop)
    c.coverage["correspondence_failures"] = len(corr)

    # report: smallest witnesses first, one per anomaly class (at most 4)
    seen = set()
    for _, obj in sorted(prop, key=lambda t: t[0]):
        key = obj["kind"] + "|" + " ".join(str(obj["detail"][0]).split(" ")[0:2])
        if key in seen or len(seen) >= 4:
            continue
        seen.add(key)
        c.violation(obj)
    if not prop:
        if corr:
            c.violation({"kind": "correspondence: the real interpreter differs from the session evaluator ErrCont.run_session "
                                 "(same outcome as the twin interpreter, so no input violating the property text was found)",
                         "count": len(corr), "cases": corr[:8]}, no_input=True, tag="corr")
        if census_break:
            c.violation({"kind": "translator reentry failed: the source no longer has the shape the census understands", "log": census_break},
                        no_input=True, tag="census")
        elif c.proof_break:
            c.violation({"kind": "proof obligation no longer checks", "detail": c.proof_break,
                         "note": "phase_census_ok breaks when Lexer.Reset / Parser.ResetAddNewInput no longer clear a field, LoadStream no longer resets first, GenerateForLoop no longer pops the loop stack by defer, LoadExpressions appends before the text compiled, or SexpLazyArg.Force marks the cell forced on a path where Run failed; reentry_census_ok breaks when a function of package zygo that re-enters Run() appears, disappears or changes its capture/restore shape (coq/Generated/Reentry.v is regenerated from the source on every run)"},
                        no_input=True, tag="proof")
    c.finish("proof")
