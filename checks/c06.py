"""C06 — infix blocks mean what the precedence table says."""
import json
import os
import re

from . import common
from .common import Check



LABEL_COMMENT_FOR = re.compile(r"^\{\s*[A-Za-z_][A-Za-z0-9_]*:\s*(/\*.*?\*/|//[^\n]*\n)\s*for\b", re.S)


def read_cases(path):
    """cases line: ID, TOKENS, IMPL statement list, value/effects of the block (may be empty), source text."""
    rows = []
    with open(path) as f:
        for line in f:
            a = line.rstrip("\n").split("\t")
            a += [""] * (6 - len(a))
            rows.append(a[:6])
    return rows


def read_model(path):
    rows = []
    with open(path) as f:
        for line in f:
            b = line.rstrip("\n").split("\t")
            b += [""] * (4 - len(b))
            rows.append(b[:4])
    return rows


def unesc(s):
    out, i = [], 0
    while i < len(s):
        if s[i] == "\\" and i + 1 < len(s):
            out.append({"n": "\n", "t": "\t", "\\": "\\"}.get(s[i + 1], s[i + 1]))
            i += 2
        else:
            out.append(s[i])
            i += 1
    return "".join(out)


def main(argv):
    c = Check("C06", argv)
    # 1. regenerate the operator table from the repository's pratt.go
    translator_break = None
    rc, out = common.translate("infix", "InfixTable.v")
    if rc != 0:
        translator_break = {"kind": "translator-failed", "detail": out[-2000:],
                            "note": "zygo/pratt.go no longer has the shape translator/cmd/infix understands; "
                                    "the previously generated table is used for the run below"}
        c.log("TRANSLATOR FAILED:", out[-600:])
    else:
        c.log("translator:", out.strip().split("\n")[0])
    # 1b. the lexer's regexes / tables (Model/Lexer.v depends on Generated/LexTables.v)
    rc2, out2 = common.translate("lexregex", "LexTables.v")
    if rc2 != 0:
        translator_break = translator_break or {"kind": "translator-failed (lexregex)", "detail": out2[-2000:],
                                                "note": "zygo/lexer.go no longer has the shape translator/cmd/lexregex understands"}
        c.log("TRANSLATOR (lexregex) FAILED:", out2[-600:])
    # 2. proofs
    c.proofs()
    c.trusted_base([
        "translator/cmd/infix (go/ast walk of zygo/pratt.go -> Generated/InfixTable.v); its output is cross-checked by the correspondence run",
        "the reader (lexer/parser producing the token array of (infix [...])) is outside the Coq model: the model and the specification parse the token list the real reader produced; spacing and the sign rule of the lexer are checked by run only",
        "normalizeArraySelector, if/else are modelled and run, not covered by the precedence theorem; go-style for / break / continue are compared by evaluation only",
        "evaluation of a block versus evaluation of the prefix forms is a run (stage 2), not a proof",
    ])
    c.assumptions += [
        "the documented order is the one of the property text; and/or are right-associative (doc comment of Infixr in pratt.go); = and := expand to set (tests/infix.zy)",
    ]
    cases = c.harness("c06")
    prop_fail, corr_fail, val_fail = [], [], []
    known_rows = 0
    if cases:
        st = c.coverage
        unknown_ops = st.get("operators_unknown_to_generator") or []
        mout = c.model(cases)
        if mout:
            crow = read_cases(cases)
            mrow = read_model(mout)
            if len(crow) != len(mrow):
                c.proof_break = c.proof_break or {"kind": "model-runner-output-short", "cases": len(crow), "model": len(mrow)}
            n = silent = unsup = nlex = 0
            stage2 = []          # (id, forms, which)
            byid = {}
            for a, b in zip(crow, mrow):
                if a[0] != b[0]:
                    raise RuntimeError("case/model id mismatch %r %r" % (a[0], b[0]))
                n += 1
                cid, toks, impl, blockval, src, ctx = a
                model, spec, tag = b[1], b[2], b[3]
                byid[cid] = a
                rec = {"text": "{" + unesc(src) + "}", "tokens": toks, "implementation": impl, "model": model, "specification": spec}
                if toks.startswith("#lex"):
                    nlex += 1
                    rec = {"text": unesc(src), "runes": toks[5:], "implementation": impl, "model": model, "specification": spec,
                           "kind": "the tokens of the real lexer (a fresh Lexer fed rune by rune) differ from the ring-free specification lexer "
                                   "(sign / exponent decided by the TRUE previous rune): the look-back ring does not return the previous rune at this offset",
                           "replay": "zygo.VerifLex(<text>) (tag verif), or evaluate the text with EvalString in a fresh interpreter"}
                if spec == "-":
                    silent += 1
                if model == "UNSUP":
                    unsup += 1
                elif impl != model:
                    if not (impl.startswith("UNREADABLE") and LABEL_COMMENT_FOR.match(rec["text"])
                            and "comment-between-label-and-for" in c.known):
                        corr_fail.append(rec)
                if impl.startswith("PANIC"):
                    rec["kind"] = "the infix expander panics on this block (malformed input must give an error, never a crash)"
                    prop_fail.append(rec)
                    continue
                if spec != "-" and impl != spec:
                    # narrow: the block is not read as an infix block AND a comment stands between a
                    # leading label and its `for`
                    if impl.startswith("UNREADABLE") and LABEL_COMMENT_FOR.match(rec["text"]) \
                            and c.known_finding("comment-between-label-and-for", rec["text"].replace("\n", " <newline> ")):
                        known_rows += 1
                        continue
                    prop_fail.append(rec)
                    continue
                # value / effects of the block against the prefix forms (stage 2)
                if blockval and impl not in ("ERR", "PANIC"):
                    if spec != "-":
                        stage2.append((cid, spec, "spec"))
                    elif not impl.startswith("TOKENS-DIFFER") and not impl.startswith("UNREADABLE"):
                        stage2.append((cid, impl, "own-expansion"))
            c.coverage["compared"] = n
            c.coverage["traces_validated_against_impl"] = n
            c.coverage["specification_silent"] = silent
            c.coverage["model_unsupported(for/break/continue)"] = unsup
            c.coverage["known_finding_cases"] = known_rows
            c.coverage["lexer_texts_vs_ring_model_and_ringfree_spec"] = nlex
            # ---- stage 2
            if stage2:
                pf = os.path.join(common.BUILD, "C06.prefix")
                with open(pf, "w") as f:
                    for cid, forms, _ in stage2:
                        f.write("%s\t%s\t%s\n" % (cid, byid[cid][5], forms))
                exe = os.path.join(common.BUILD, "c06")
                p2 = os.path.join(common.BUILD, "C06.prefix.cases")
                rc, out = common.sh([exe, "--seed", str(c.seed), "--tier", c.tier, "--out", p2,
                                     "--stats", os.path.join(common.BUILD, "C06.prefix.stats"), "--prefix", pf],
                                    cwd=common.BUILD, timeout=3000, env=common.env_go())
                if rc != 0:
                    c.violation({"kind": "harness-crashed (stage 2)", "rc": rc, "log": out[-3000:]}, no_input=True, tag="crash")
                else:
                    which = {cid: w for cid, _, w in stage2}
                    forms_by_id = {cid: f for cid, f, _ in stage2}
                    nv = {"spec": 0, "own-expansion": 0}
                    with open(p2) as f:
                        for line in f:
                            x = line.rstrip("\n").split("\t")
                            cid, obs = x[1], x[2]
                            a = byid[cid]
                            nv[which[cid]] += 1
                            if a[3] != obs:
                                val_fail.append({"text": "{" + unesc(a[4]) + "}", "tokens": a[1],
                                                 "prefix_forms": [unesc(z) for z in forms_by_id[cid].split(" ;; ")],
                                                 "forms_from": which[cid], "context": a[5] or "top level",
                                                 "block_value_and_effects": a[3], "prefix_forms_value_and_effects": obs,
                                                 "implementation": a[2]})
                    c.coverage["evaluated_block_vs_specification_prefix_forms"] = nv["spec"]
                    c.coverage["evaluated_block_vs_own_expansion(spec silent: if/for/++)"] = nv["own-expansion"]
        if unknown_ops:
            c.violation({"kind": "the operator table of the implementation has operators the case generator does not know",
                         "operators": unknown_ops}, no_input=True, tag="ops")

    def size(r):
        return (len(r.get("tokens", r.get("runes", "")).split()), len(r["text"]))

    if prop_fail:
        prop_fail.sort(key=size)
        for f in prop_fail[:3]:
            f.setdefault("kind", "") 
            f["kind"] = f["kind"] or "the statement list of the real Pratt parser differs from the specification (split at the weakest operator of the documented table)"
            f.setdefault("replay", "evaluate (infixExpand <text>) in a fresh interpreter; or bin/check C06 --replay <this file>")
            f["failing_cases_total"] = len(prop_fail)
            c.violation(f)
    if val_fail:
        val_fail.sort(key=size)
        for f in val_fail[:3]:
            f["kind"] = "evaluating the block gives a different value/effects than evaluating the prefix forms in order"
            f["replay"] = "evaluate <text> and the forms in fresh interpreters with the harness prelude (harness/cmd/c06 newEvalEnv)"
            f["failing_cases_total"] = len(val_fail)
            c.violation(f, tag="val")
    if not prop_fail and not val_fail:
        if corr_fail:
            corr_fail.sort(key=size)
            c.violation({"kind": "correspondence: the real Pratt parser differs from the Coq model over the generated table (no case violating the specification found)",
                         "cases": corr_fail[:10], "count": len(corr_fail)}, no_input=True, tag="corr")
        elif translator_break:
            c.violation(translator_break, no_input=True, tag="translator")
        elif c.proof_break:
            c.violation({"kind": "proof obligation no longer checks", "detail": c.proof_break}, no_input=True, tag="proof")
    c.coverage["property_failures"] = len(prop_fail)
    c.coverage["value_failures"] = len(val_fail)
    c.coverage["correspondence_failures"] = len(corr_fail)
    c.finish("proof")
