"""C07 — numbers compare and compute exactly as specified."""
from .common import Check, iter_joined


def main(argv):
    c = Check("C07", argv)
    c.proofs()
    c.trusted_base([
        "math.Pow (the ** operator) is not modelled",
        "values reach the builtins through AddGlobal + EvalString (the literal reader is C12's subject)",
    ])
    c.assumptions += [
        "Flocq binary64 (Bplus/Bminus/Bmult/Bdiv/Bcompare, binary_normalize mode_NE) is IEEE-754 double arithmetic as Go implements it on this platform",
    ]
    cases = c.harness("c07")
    prop_fail, corr_fail = [], []
    if cases:
        mout = c.model(cases)
        if mout:
            n = 0
            for cid, inp, impl, model, spec in iter_joined(cases, mout):
                n += 1
                if spec != "-" and impl != spec:
                    prop_fail.append({"input": inp, "implementation": impl, "specification": spec, "model": model})
                elif impl != model:
                    corr_fail.append({"input": inp, "implementation": impl, "model": model, "specification": spec})
            c.coverage["compared"] = n
            c.coverage["traces_validated_against_impl"] = n
    # a property-level failure: the implementation disagrees with the exact specification
    seen = set()
    for f in prop_fail:
        key = f["input"].split()[0:2] + [x[0] for x in f["input"].split()[2:]]
        key = " ".join(key)
        if key in seen:
            continue
        seen.add(key)
        if len(seen) <= 5:
            f["kind"] = "implementation differs from the exact specification (spec_cmp / spec_arith)"
            f["replay"] = "bind a and b to the two values (I=int64 U=uint64 C=char F=float64 bits) and evaluate the operator"
            c.violation(f)
    if not prop_fail:
        if corr_fail:
            c.violation({"kind": "correspondence: implementation differs from the Coq model compare_function/numeric_do (no case violating the specification found)",
                         "cases": corr_fail[:10], "count": len(corr_fail)}, no_input=True, tag="corr")
        elif c.proof_break:
            c.violation({"kind": "proof obligation no longer checks", "detail": c.proof_break}, no_input=True, tag="proof")
    c.coverage["property_failures"] = len(prop_fail)
    c.coverage["correspondence_failures"] = len(corr_fail)
    c.finish("proof")
