"""C08 — a sandboxed interpreter cannot reach the outside world.

  1. translator/cmd/sandbox regenerates coq/Generated/SandboxTables.v (+ a JSON copy) from REPO's source
  2. Coq: Properties/C08.vo (capability closure; purity of the generated tables except the known leaks)
  3. harness c08: real interpreters (bare sandbox, sandbox + StandardSetup, unrestricted control,
     cmd/zygo -sandbox binary) called with canary arguments; names bound at run time
  4. extracted model: effect classes the tables predict for every harness program
  5. decisions: observed effect in a sandboxed configuration = property failure with the script as replay
     (no known findings: the three leaks of the first round were repaired in /repo 2b6c2ae);
     observed effect the tables do not predict, name sets that differ, proof/translator breaks =
     VIOLATION ... no-failing-input-found unless a canary script shows the effect
"""
import json
import os

from . import common
from .common import Check, iter_joined

SANDBOX_CFGS = ("bare", "std", "bin")
ALL_EFFECTS = {"file_read", "file_write", "process", "env_read", "env_write", "exit", "net", "chdir", "stdin_read", "terminal"}
CANARY_HINT = ('(NAME "<path of a secret file>") / (NAME "echo x > <path>") / (NAME "<ENV NAME>") with 0-3 arguments; '
               'run bin/check C08 --replay <this file> after filling "script"')


def build_model(c):
    """Extract coq/Extract/C08.v and build ocaml/c08/run.ml WITHOUT ocaml/common/zutil.ml: the extracted
    model defines the Coq type `string`, which zutil.ml (open Model + OCaml string annotations) cannot live with."""
    outdir = os.path.join(common.BUILD, "ocaml", "c08")
    os.makedirs(outdir, exist_ok=True)
    extract_v = os.path.join(common.COQ, "Extract", "C08.v")
    run_ml = os.path.join(common.VERIF, "ocaml", "c08", "run.ml")
    srcs = [os.path.join(common.COQ, "Generated", "SandboxTables.v"), os.path.join(common.COQ, "Model", "Sandbox.v"),
            os.path.join(common.COQ, "Model", "Cmdline.v"), os.path.join(common.COQ, "Model", "Family.v"), extract_v, run_ml]
    h = common.file_hash(srcs)
    stamp, exe = os.path.join(outdir, "stamp"), os.path.join(outdir, "run")
    with common.Lock("ocaml-c08"):
        if os.path.exists(exe) and os.path.exists(stamp) and open(stamp).read() == h:
            return 0, "cached", exe
        rc, out = common.coq_make(["Model/Sandbox.vo", "Model/Cmdline.vo", "Model/Family.vo"])
        if rc != 0:
            return rc, out, exe
        with common.Lock("coq"):
            rc, out = common.sh(["coqc", "-Q", common.COQ, "ZV", extract_v], cwd=outdir, timeout=1200)
        if rc != 0:
            return rc, out, exe
        common.sh(["cp", run_ml, outdir])
        rc, out2 = common.sh(["ocamlfind", "ocamlopt", "-w", "-a", "model.mli", "model.ml", "run.ml", "-o", "run"], cwd=outdir, timeout=1200)
        if rc == 0:
            open(stamp, "w").write(h)
        return rc, out + out2, exe


def global_view(bindings):
    """translator bindings (ordered) -> what each run-time table holds."""
    glob, builtin, macro = {}, {}, {}
    for b in bindings:
        k = b["kind"]
        if k == "builtin":
            builtin[b["name"]] = b["fn"]
        elif k == "gomacro":
            macro[b["name"]] = b["fn"]
        else:
            glob[b["name"]] = (k, b["fn"])          # later registrations overwrite earlier ones
    return glob, builtin, macro


def comparable(fn):
    return fn and not fn.startswith("lit:") and not fn.startswith("var:")


def same_fn(runtime_name, table_fn):
    """runtime_name: dotted runtime function name without the package (CoreFunctions.CompareFunction.func1,
    ReadFunction); table_fn: the translator's identifier. Equal when the identifier is one of the components."""
    return table_fn.split(".")[-1] in runtime_name.split(".")


def compare_names(cfg, tcfg, runtime):
    """-> list of human-readable differences between the translator's view and the real interpreter."""
    diffs = []
    glob, builtin, macro = global_view(tcfg["bindings"])
    smac = {m["name"] for m in tcfg["script_macros"]}
    rt_glob, rt_builtin, rt_macro = {}, {}, {}
    for b in runtime:
        {"global": rt_glob, "builtin": rt_builtin, "macro": rt_macro}[b["Table"]][b["Name"]] = b
    dyn = bool(tcfg["dyn_sources"])
    for n, b in sorted(rt_glob.items()):
        kind = b["Kind"]
        if kind == "type":
            if not dyn:
                diffs.append("%s: type %r bound at run time but the translator found no dynamic source of types" % (cfg, n))
            continue
        if n not in glob:
            diffs.append("%s: %r (%s %s) is bound at run time but missing from the generated bindings" % (cfg, n, kind, b["GoFunc"]))
            continue
        tk, tf = glob[n]
        rk = "value" if kind.startswith("value:") else kind
        if rk != tk:
            diffs.append("%s: %r is a %s at run time, a %s in the generated bindings" % (cfg, n, rk, tk))
        elif comparable(tf) and not same_fn(b["GoFunc"], tf):
            diffs.append("%s: %r is backed by Go function %s at run time, %s in the generated bindings" % (cfg, n, b["GoFunc"], tf))
    for n in sorted(glob):
        if n not in rt_glob:
            diffs.append("%s: %r is in the generated bindings but not bound at run time" % (cfg, n))
    for n, b in sorted(rt_builtin.items()):
        if n not in builtin:
            diffs.append("%s: builtin %r (%s) exists at run time but is missing from the generated tables" % (cfg, n, b["GoFunc"]))
        elif comparable(builtin[n]) and not same_fn(b["GoFunc"], builtin[n]):
            diffs.append("%s: builtin %r is %s at run time, %s in the generated tables" % (cfg, n, b["GoFunc"], builtin[n]))
    for n in sorted(builtin):
        if n not in rt_builtin:
            diffs.append("%s: builtin %r is in the generated tables but not at run time" % (cfg, n))
    for n, b in sorted(rt_macro.items()):
        if b["Kind"] == "scriptfn":
            if n not in smac:
                diffs.append("%s: script macro %r exists at run time but is missing from the generated tables" % (cfg, n))
        elif n not in macro:
            diffs.append("%s: Go macro %r (%s) exists at run time but is missing from the generated tables" % (cfg, n, b["GoFunc"]))
        elif comparable(macro[n]) and not same_fn(b["GoFunc"], macro[n]):
            diffs.append("%s: Go macro %r is %s at run time, %s in the generated tables" % (cfg, n, b["GoFunc"], macro[n]))
    for n in sorted(set(macro) | smac):
        if n not in rt_macro:
            diffs.append("%s: macro %r is in the generated tables but not at run time" % (cfg, n))
    return diffs


def names_in(entry):
    return set(entry.split())


def family_origin(hist):
    """Fallback when the extracted model could not be run: does the target of a family history descend from
    NewZlispSandbox?  (The verdict normally comes from origin_of of the extracted model.)"""
    ops, _, t = hist.rpartition("@")
    origin = []
    for op in ops.split(","):
        if op == "S":
            origin.append(True)
        elif op == "F":
            origin.append(False)
        elif op[:1] in ("D", "C"):
            try:
                i = int(op[1:])
            except ValueError:
                continue
            if 0 <= i < len(origin):
                origin.append(origin[i])
    try:
        return origin[int(t)]
    except (ValueError, IndexError):
        return False


def main(argv):
    c = Check("C08", argv)
    B = common.BUILD
    tables_json = os.path.join(B, "C08.tables.json")
    bindings_json = os.path.join(B, "C08.bindings.json")

    deferred = []
    # ---- 1. translator ---------------------------------------------------------------------------
    rc, out = common.translate("sandbox", "SandboxTables.v", extra_args=["--json", tables_json])
    translator_ok = rc == 0
    if not translator_ok:
        c.log("translator failed:\n" + out[-2000:])
        # reported after the search, so that a concrete failing script (if the harness finds one) comes first
        deferred.append(({"kind": "translator: the source no longer has the shape the sandbox-table translator understands",
                          "log": out[-3000:], "note": "the tables the theorems quantify over could not be regenerated"}, "translator"))
    else:
        c.log(out.strip().split("\n")[0])
    # after a translator failure a tables file of an earlier run is only good for telling the harness which names to call
    stale = json.load(open(tables_json)) if os.path.exists(tables_json) else None
    tabs = stale if translator_ok else None

    # ---- 2. proofs -------------------------------------------------------------------------------
    c.proofs()
    c.trusted_base([
        "translator/cmd/sandbox (go/parser, syntactic call graph: calls resolved by name, methods by declared receiver type or by name; "
        "sinks = selectors on imported packages, classified by a table in the translator; unknown imports / os selectors make it fail)",
        "calls through function-typed values (userfun, Factory, hooks) are not edges of the call graph: they are what the capability model accounts for",
        "third-party packages (codec, msgp, goon, blake2b, tz) are classified pure, github.com/glycerine/liner as terminal",
        "writing to the host's stdout/stderr (print functions) and reading the clock are not effects of this property",
        "reflection on host-registered Go structs (_method) is outside the sandbox tables",
        "the harness's abstraction of its own scripts into abstract programs (gen.go)",
    ])
    c.assumptions += [
        "a script reaches Go code only through bound names, special forms, held function values, eval/apply/map/macro expansion, the VM's own function values and the VM core (Model/Sandbox.v run)",
    ]

    # impure entries of the generated tables that are not known leaks
    new_impure = []
    if tabs:
        eff = tabs.get("effects_sandboxed") or tabs["effects"]
        paths = tabs.get("paths", {})
        for cfg in SANDBOX_CFGS:
            for b in tabs["configs"][cfg]["bindings"]:
                if b["kind"] != "value" and eff.get(b["fn"], ["unknown"]):
                    new_impure.append({"cfg": cfg, "table": "binding:" + b["kind"], "name": b["name"], "go_function": b["fn"],
                                       "effects": eff.get(b["fn"], ["unknown"]), "call_path": paths.get(b["fn"])})
        for n, f in tabs["special_forms"]:
            if eff.get(f, ["unknown"]):
                new_impure.append({"cfg": "all", "table": "special", "name": n, "go_function": f, "effects": eff.get(f), "call_path": paths.get(f)})
        for b in tabs["implicit"]:
            if eff.get(b["fn"], ["unknown"]):
                new_impure.append({"cfg": "all", "table": "implicit", "name": b["name"], "go_function": b["fn"], "effects": eff.get(b["fn"]), "call_path": paths.get(b["fn"])})
        for f in tabs["vm_core"]:
            if eff.get(f, ["unknown"]):
                new_impure.append({"cfg": "all", "table": "vm", "name": f, "go_function": f, "effects": eff.get(f), "call_path": paths.get(f)})
        c.coverage["generated"] = {"functions_analysed": tabs["functions_analysed"], "special_forms": len(tabs["special_forms"]),
                                   "bindings": {k: len(v["bindings"]) for k, v in tabs["configs"].items()},
                                   "unresolved_dynamic_calls": tabs["unresolved_dynamic_calls"],
                                   "sandbox_flag": tabs.get("sandbox_flag", ""), "guarded_functions": tabs.get("guarded_functions") or []}

    # ---- 3. harness ------------------------------------------------------------------------------
    zygo_bin = os.path.join(B, "zygo-c08")
    with common.Lock("go"):
        common.sh(["cp", os.path.join(common.REPO, "go.sum"), os.path.join(common.HARNESS, "go.sum")])
        rc, out = common.sh(["go", "build", "-o", zygo_bin, "github.com/glycerine/zygomys/v9/cmd/zygo"], cwd=common.HARNESS, env=common.env_go(), timeout=1200)
    if rc != 0:
        c.violation({"kind": "cmd/zygo no longer builds", "log": out[-2000:]}, no_input=True, tag="build")
        zygo_bin = ""
    extra = ["--bindings", bindings_json]
    if stale:
        extra += ["--tables", tables_json]
    if zygo_bin:
        extra += ["--zygo", zygo_bin]
    if os.path.exists(bindings_json):
        os.remove(bindings_json)
    cases = c.harness("c08", extra_args=extra)
    rt = json.load(open(bindings_json)) if cases and os.path.exists(bindings_json) else None

    # ---- 4. model ----------------------------------------------------------------------------------
    mout = None
    if cases:
        rc, out, exe = build_model(c)
        if rc != 0:
            c.log("extraction / ocaml build failed:\n" + out[-2000:])
            c.proof_break = c.proof_break or {"kind": "extraction-failed", "log": out[-2000:]}
        else:
            mout = os.path.join(B, "C08.model")
            rc, err = common.run_model(exe, cases, mout)
            if rc != 0:
                c.log("model runner failed: " + err)
                c.proof_break = c.proof_break or {"kind": "model-runner-failed", "log": err}
                mout = None

    # ---- 5. decisions ------------------------------------------------------------------------------
    prop_fail, corr_fail = [], []
    meta = {}
    if rt:
        for f in rt.get("effect_cases") or []:
            meta[str(f["id"])] = f
    n = 0
    n_fam = 0
    n_cmd = 0
    cmd_fail = []
    cmd_model, labelled = {}, []
    seen_effects = {}
    if cases:
        rows = iter_joined(cases, mout) if mout else ((l.split("\t")[0], l.split("\t")[1], l.rstrip("\n").split("\t")[2], None, None) for l in open(cases))
        for cid, inp, impl, model, spec in rows:
            n += 1
            cfg = inp.split(" ", 1)[0]
            if cfg == "session":
                # a whole session of cmd/zygo: phases observed (kind of interpreter per phase) vs Model/Cmdline.v session
                n_cmd += 1
                argv = inp.split(" :: zygo ", 1)[-1]
                if model and model != "rejected" and not model.startswith("BAD"):
                    kinds = {x.split(":")[1] for x in model.split(",") if ":" in x}
                    cmd_model.setdefault(argv, "sandboxed" if kinds == {"sandboxed"} else "open")
                obs_kinds = {x.split(":")[1] for x in impl.split(",") if ":" in x}
                if spec == "sandboxed" and (obs_kinds - {"sandboxed"} or not obs_kinds):
                    cmd_fail.append({"command_line": argv, "tokens": inp.split(" :: ", 1)[0][8:], "observed_phases": impl, "model": model, "specification": "every phase sandboxed"})
                elif model is not None and impl != model:
                    corr_fail.append({"input": inp, "observed_phases": impl, "model_of_the_session": model})
                continue
            if cfg == "plan":
                # what ReplMain constructed (constructor, demo data) vs the GENERATED replmain_plans through Model/Family.v construction
                n_cmd += 1
                argv = inp.split(" :: zygo ", 1)[-1]
                if spec == "sandboxed" and not impl.startswith("sandboxed"):
                    cmd_fail.append({"command_line": argv, "tokens": inp.split(" :: ", 1)[0][5:], "observed_construction": impl, "model": model, "specification": "constructed with NewZlispSandbox"})
                elif model is not None and impl != model:
                    corr_fail.append({"input": inp, "observed_construction": impl, "model_of_ReplMain (replmain_plans)": model})
                continue
            fam_sandboxed = False
            if cfg == "fam":
                hist = inp.split(" ", 2)[1]
                n_fam += 1
                fam_sandboxed = (spec == "-") if spec is not None else family_origin(hist)
                if impl.startswith("names:"):
                    # names with a non-value binding; names that are bound to a registered Go struct type at run time (dynamic
                    # source GoStructRegistry, process-global) replace a function binding of the same name: taken out of the model's set
                    inames, _, itypes = impl[6:].partition(";types:")
                    a = set(x for x in inames.split(",") if x)
                    ty = set(x for x in itypes.split(",") if x)
                    if model is not None:
                        b = set(x for x in model[6:].split(",") if x) if model.startswith("names:") else None
                        if b is None or a != b - ty:
                            corr_fail.append({"family_history": hist, "bound_at_run_time_but_not_in_the_model": sorted(a - (b or set()))[:20],
                                              "in_the_model_but_not_bound_at_run_time": sorted((b or set()) - ty - a)[:20], "model": None if b is not None else model[:80],
                                              "note": "names with a non-value binding in the target member of the family (Model/Family.v names_of)"})
                    continue
                if not fam_sandboxed:
                    cfg = "famopen"
            if cfg == "cmdline":
                # the command line of cmd/zygo: observed kind of interpreter vs Model/Cmdline.v
                n_cmd += 1
                cmd_model[inp.split(" :: zygo ", 1)[-1]] = model
                if spec == "sandboxed" and impl != "sandboxed":
                    cmd_fail.append({"command_line": inp.split(" :: ", 1)[-1], "tokens": inp.split(" :: ", 1)[0][8:], "observed": impl, "model": model, "specification": spec})
                elif model is not None and impl != model:
                    corr_fail.append({"input": inp, "observed": impl, "model_of_the_command_line": model})
                continue
            if " :: zygo " in inp and " ;; " in inp:
                labelled.append((inp.split(" :: zygo ", 1)[1].split(" ;; ", 1)[0], cfg))
            iset = set() if impl == "-" else set(impl.split(","))
            for e in iset:
                seen_effects.setdefault(cfg, set()).add(e)
            if model is not None and model.startswith("BAD"):
                corr_fail.append({"input": inp, "model": model, "note": "the model runner could not read the abstract program"})
                continue
            mset = None if model is None else (set() if model == "-" else set(model.split(",")))
            raw_pred = None if mset is None else sorted(mset)
            if mset and "process" in mset:
                mset |= ALL_EFFECTS            # a started process (shell) can do anything
            visible = iset - {"stdin_read"}
            if (cfg in SANDBOX_CFGS or (cfg == "fam" and fam_sandboxed)) and visible:
                m = meta.get(cid, {})
                prop_fail.append({"id": cid, "cfg": cfg, "input": inp, "observed_effects": sorted(iset), "predicted_by_tables": raw_pred,
                                  "entry": m.get("entry", ""), "kind": m.get("kind", ""), "form": m.get("form", ""), "pre": m.get("pre"), "script": m.get("script"),
                                  "abs": m.get("abs"), "argv": m.get("argv"), "script_file": m.get("script_file"), "hist": m.get("hist"), "detail": m.get("detail"), "class": m.get("class")})
            elif mset is not None and not iset <= mset:
                corr_fail.append({"input": inp, "observed_effects": sorted(iset), "predicted_by_tables": raw_pred})
    # the harness labels the canary runs of a command line "bin" (sandboxed) or "full" (control): that label
    # must be the Coq model's verdict for the command line
    for argv, cfg in labelled:
        mo = cmd_model.get(argv)
        if mo is not None and (cfg == "bin") != (mo == "sandboxed"):
            corr_fail.append({"command_line": argv, "harness_label": cfg, "model_of_the_command_line": mo})
    c.coverage["compared"] = n
    c.coverage["traces_validated_against_impl"] = n if mout else 0

    # property failures: every observed effect in a sandboxed configuration is a violation
    reported = set()
    viol_by_entry = {}
    for f in prop_fail:
        key = (f["cfg"], f["entry"] if f["kind"] != "program" else f["script"])
        if f.get("argv"):
            key = (f["cfg"], "cmdline")          # one report per kind of command-line failure, smallest first
        viol_by_entry.setdefault(key, []).append(f)
    def simplest(item):
        fs = item[1]
        return min((len(f.get("argv") or []), len(f.get("script_file") or ""), len(f.get("hist") or ""), len(f["pre"] or []), len(f["script"] or "")) for f in fs)
    for key, fs in sorted(viol_by_entry.items(), key=lambda it: (simplest(it), str(it[0])))[:8]:
        # family histories that begin with an unrestricted interpreter replay in a fresh process whatever ran before: preferred
        anyF = any((f.get("hist") or "").startswith("F") for f in fs)
        fs.sort(key=lambda f: (len(f.get("argv") or []), len(f.get("script_file") or ""), bool(anyF and f.get("hist") and not f["hist"].startswith("F")),
                               len(f.get("hist") or ""), len(f["pre"] or []), f["form"] != "direct", len(f["script"] or "")))
        f = fs[0]
        c.violation({"kind": "a script in a sandboxed interpreter reached the outside world" + (" (cmd/zygo run with a sandbox flag: zygo %s)" % " ".join(f["argv"]) if f.get("argv") else "")
                             + (" (member of an interpreter family: history %s -- S NewZlispSandbox, F NewZlisp, U<i> StandardSetup, M<i> ImportDemoData, D<i> Duplicate, C<i> Clone, V<i>:n (def n 0), A<i>:n:m (def n m); @target)" % f["hist"] if f.get("hist") else ""),
                     "hist": f.get("hist"), "argv": f.get("argv"), "script_file": f.get("script_file"), "cfg": f["cfg"], "entry": f["entry"], "pre": f["pre"] or [],
                     "script": f["script"], "abs": f["abs"], "observed_effects": f["observed_effects"], "predicted_by_tables": f["predicted_by_tables"],
                     "detail": f["detail"], "how_it_ended": f["class"], "similar_cases": len(fs),
                     "replay": "bin/check C08 --replay <this file>  (placeholders @SECRET@ @OUT@ @EXISTING@ @PWNED@ @DIR@ are canary paths created by the harness)"})
        for x in fs:
            reported |= names_in(x["entry"])

    for obj, tag in deferred:
        c.violation(obj, no_input=True, tag=tag)

    # impure table entries without a canary-confirmed effect
    for e in new_impure:
        if e["name"] in reported:
            continue
        c.violation({"kind": "generated tables: an entry reachable from a sandboxed interpreter has an effect class (sandbox_tables_pure / special_forms_pure / sandbox_no_effect no longer hold)",
                     "entry": e, "cfg": e["cfg"], "script": "(%s ...)" % e["name"], "canary": CANARY_HINT,
                     "note": "no canary call of this entry showed the effect in this run"}, no_input=True, tag="table")
        reported.add(e["name"])

    if not prop_fail or not viol_by_entry:
        if corr_fail:
            c.violation({"kind": "correspondence: an effect was observed that the generated tables do not predict for the program (effect classification or capability model unsound)",
                         "cases": corr_fail[:10], "count": len(corr_fail)}, no_input=True, tag="corr")
        if c.proof_break and not new_impure and translator_ok:
            c.violation({"kind": "proof obligation no longer checks", "detail": c.proof_break}, no_input=True, tag="proof")
        elif c.proof_break and new_impure:
            c.notes.append("proof break explained by the new impure entries: " + json.dumps(c.proof_break)[:300])

    # command lines: whatever else is on the command line, a run with a sandbox flag must bind the sandbox's names
    cmd_diffs = []
    if rt:
        cd = rt.get("cmdline_name_diffs") or []
        for d in cd:
            if not d.get("probe_ok"):
                cmd_diffs.append("bin: the name probe did not complete under `zygo %s`" % d["argv"])
            for nme in d.get("unexpected") or []:
                cmd_diffs.append("bin: %r is defined under `zygo %s` but not bound in a sandboxed interpreter" % (nme, d["argv"]))
            for nme in d.get("missing") or []:
                cmd_diffs.append("bin: %r is bound in a sandboxed interpreter but not defined under `zygo %s`" % (nme, d["argv"]))
        c.coverage["cmdline_shapes_with_name_differences"] = len(cd)
        c.coverage["command_lines_compared_with_model"] = n_cmd

        if cmd_diffs or cmd_fail:
            c.violation({"kind": "cmd/zygo run with a sandbox flag does not run the script in a sandboxed interpreter (specification: Model/Cmdline.v sandbox_flag_decides; observed through the names the interpreter binds)",
                         "command_lines": cmd_fail[:40], "differences": cmd_diffs[:40], "count": len(cmd_diffs)},
                        no_input=True, tag="cmdline")

    # names: translator's view vs the real interpreters
    if rt and tabs:
        diffs = []
        rtcfg = {d["cfg"]: d["bindings"] for d in rt["configs"]}
        for cfg in ("bare", "std", "full"):
            diffs += compare_names(cfg, tabs["configs"][cfg], rtcfg[cfg])
        if rt.get("binary_probed"):
            glob, _, _ = global_view(tabs["configs"]["bin"]["bindings"])
            types = {b["Name"] for b in rtcfg["std"] if b["Kind"] == "type"}
            expect = set(glob) | types
            got = set(rt.get("binary_defined") or [])
            for nme in sorted(got - expect):
                diffs.append("bin: %r is defined in `zygo -sandbox` but missing from the generated bindings" % nme)
            for nme in sorted(expect - got):
                diffs.append("bin: %r is in the generated bindings but not defined in `zygo -sandbox`" % nme)
            c.coverage["binary_names_defined"] = len(got)
        c.coverage["name_differences"] = len(diffs)
        fresh = [d for d in diffs if not any(repr(nm) in d for nm in reported)]
        if fresh:
            c.violation({"kind": "tie: the names bound in the real interpreter differ from the generated tables the theorems quantify over",
                         "differences": fresh[:40], "count": len(fresh)}, no_input=True, tag="names")
        c.coverage["runtime_bindings"] = {k: len(v) for k, v in rtcfg.items()}

    # the canaries must be able to see every effect class (control configuration)
    if cases and not c.replay_in:
        need = {"file_read", "file_write", "process", "env_read", "env_write", "exit"}
        got = seen_effects.get("full", set())
        c.coverage["control_effects_observed"] = sorted(got)
        if not need <= got:
            c.violation({"kind": "the canary harness no longer observes these effect classes in the unrestricted control configuration",
                         "missing": sorted(need - got)}, no_input=True, tag="canary")
        gotf = seen_effects.get("famopen", set())
        c.coverage["family_control_effects_observed"] = sorted(gotf)
        if n_fam and not {"file_read", "process"} <= gotf:
            c.violation({"kind": "the family canaries no longer observe file_read / process in members of an unrestricted family (through Duplicate / Clone)",
                         "missing": sorted({"file_read", "process"} - gotf)}, no_input=True, tag="canary-family")
    c.coverage["family_cases"] = n_fam
    c.coverage["sandbox_effects_observed"] = {k: sorted(v) for k, v in seen_effects.items() if k in SANDBOX_CFGS}
    if rt and rt.get("anomalies"):
        c.coverage["anomalies"] = rt["anomalies"][:10]
    c.coverage["property_failures"] = len(prop_fail)
    c.coverage["correspondence_failures"] = len(corr_fail)
    c.coverage["new_impure_entries"] = len(new_impure)
    c.finish("proof")
