"""C09 — tail calls are free and invisible."""
import json
import os
import re
import resource
import subprocess

from . import common
from .common import Check


def _big_stack():
    try:
        resource.setrlimit(resource.RLIMIT_STACK, (resource.RLIM_INFINITY, resource.RLIM_INFINITY))
    except (ValueError, OSError):
        pass


def run_runner(exe, lines, out_path, timeout=3000):
    """Feed 'ID<TAB>INPUT' lines to a model runner under an unlimited stack."""
    with open(out_path, "w") as g:
        p = subprocess.Popen([exe], stdin=subprocess.PIPE, stdout=g, stderr=subprocess.PIPE, preexec_fn=_big_stack)
        try:
            _, err = p.communicate("".join(lines).encode(), timeout=timeout)
        except subprocess.TimeoutExpired:
            p.kill()
            return 124, "model runner timeout"
        return p.returncode, err.decode("utf-8", "replace")[-2000:]


def same_obs(a, b):
    """refgen.SameObs: two errors with the same trace agree whatever their coarse class (except user)."""
    if a == b:
        return True
    if a.startswith("E:") and b.startswith("E:"):
        ca, _, ta = a.partition("|")
        cb, _, tb = b.partition("|")
        return ta == tb and ca != "E:user" and cb != "E:user"
    return False


LEAKS = ()   # (position name, known-finding id): none open; tco-def-lhs and tco-include-nonlast were repaired (0c81737, 9d37ebd)


def leak_id(raw):
    """Known finding a `site` path runs through (the first leaking position), or None."""
    for q in raw.split("/"):
        for name, fid in LEAKS:
            if q == name:
                return fid
    return None


def main(argv):
    c = Check("C09", argv)
    # (T) the tail flag at every place where generator.go hands a sub-form to the compiler,
    # regenerated from the current source
    trc, tout = common.translate("tailsites", "TailSites.v")
    table_break = None
    if trc != 0:
        table_break = tout[-2000:]
        c.log("translator tailsites failed:\n" + tout[-1500:])
    c.proofs()
    c.trusted_base([
        "coq/Model/RefSemTco.v is hand-written: eval/apply are a copy of the reference evaluator RefSem.v (tied to the original by running both extracted evaluators on every case); eval_tco/apply_tco/tloop model generator.go's tail flag and the jump of GenerateCallBySymbol; both are tied to /repo by the correspondence run, not by a proof over the Go source",
        "the space claim on the real VM is measured (zygo.VerifTrace: high-water marks of the data, scope, address and loop stacks at depth 10 against 1000 / 100000 / 10^6), the theorem tail_space_constant is about the model's activation counter",
        "depths above 1000 are out of reach of the model (its store keeps every frame: quadratic); there the observable is compared with the depth-10 observable scaled by the closed form of the traced sum",
        "break/continue inside the arguments of a self tail call (compiled inline by the real code, as separate units by the model) are not generated",
        "translator/cmd/tailsites (abstract execution of the Generate* functions over the two values of Generator.Tail; assumes every compiling method leaves the flag as found or cleared, which exits_ok checks on its own output) and coq/Model/TailSites.v chain_of (hand-written: which sites a sub-form position passes through) - tied by the `site` family: the number of goto 0 in the real bytecode of every position, every pair and sampled triples equals `jumps` of the generated table",
    ])
    cases = c.harness("c09")
    prop_fail, corr_fail, copy_fail = [], [], []
    if c.replay_in:
        # the harness re-ran the recorded (shape, depth) / source on the real interpreter and printed
        # the observable and the high-water marks next to the recorded ones
        print(getattr(c, "harness_log", ""), flush=True)
        c.finish("proof")
    if cases:
        stats = json.load(open(os.path.join(common.BUILD, "C09.stats")))
        for k in ("counts", "info", "shapes"):
            c.coverage[k] = stats.get(k)
        # --- failures found by the harness itself (twin, space, deep runs, templates)
        for f in (stats.get("failures") or []) + (stats.get("leak_failures") or []):
            prop_fail.append({"kind": "harness:" + f["kind"], "failure": f})
        # --- model side
        rc, out, exe = common.build_ocaml("C09")
        rc2, out2, exe_ref = common.build_ocaml("RefSem")
        if rc != 0 or rc2 != 0:
            c.log("ocaml/extraction build failed:\n" + (out + out2)[-3000:])
            c.proof_break = c.proof_break or {"kind": "extraction-failed", "log": (out + out2)[-2000:]}
        else:
            lines, lines_ref, impl = [], [], {}
            for ln in open(cases):
                a = ln.rstrip("\n").split("\t")
                lines.append(a[0] + "\t" + a[1] + "\n")
                if not a[1].startswith("site path="):
                    lines_ref.append(a[0] + "\t" + re.sub(r"^fuel=\d+ rfuel=(\d+)", r"fuel=\1", a[1]) + "\n")
                impl[a[0]] = (a[1], a[2])
            mout = os.path.join(common.BUILD, "C09.model")
            rout = os.path.join(common.BUILD, "C09.refsem")
            rc, err = run_runner(exe, lines, mout)
            rc2, err2 = run_runner(exe_ref, lines_ref, rout)
            if rc != 0 or rc2 != 0:
                c.log("model runner failed: " + err + err2)
                c.proof_break = c.proof_break or {"kind": "model-runner-failed", "log": err + err2}
            else:
                orig = {}
                for ln in open(rout):
                    b = ln.rstrip("\n").split("\t")
                    orig[b[0]] = b[1]
                n = inconclusive = shadows = nsite = 0
                explained = set()
                for ln in open(mout):
                    b = ln.rstrip("\n").split("\t")
                    cid, tco, ref, dev = b[0], b[1], b[2], b[3]
                    inp, im = impl[cid]
                    n += 1
                    if inp.startswith("site path="):
                        # family `site`: goto 0 count of the real bytecode / of the generated table / of the property's list
                        nsite += 1
                        raw = inp.split(" raw=")[1]
                        if im == ref:
                            if im != tco:
                                corr_fail.append({"input": inp, "implementation": im, "model_from_generated_table": tco, "specification": ref,
                                                  "note": "coq/Model/TailSites.v chain_of no longer describes how this position reaches the compiler"})
                            continue
                        leak = leak_id(raw)
                        if leak and im == tco and c.known_finding(leak, "site:" + raw):
                            explained.add(raw)
                            continue
                        prop_fail.append({"kind": "the number of self calls compiled as a jump (goto 0 in the real bytecode of f) differs from the property's tail positions",
                                          "failure": {"shape": "site:" + raw, "depth": 3, "kind": "site-jumps", "implementation": im, "expected": ref},
                                          "input": inp, "implementation": im, "specification": ref, "model_from_generated_table": tco,
                                          "size": 2 + 2 * raw.count("/")})
                        continue
                    if ref != orig.get(cid):
                        copy_fail.append({"input": inp, "copy_in_RefSemTco": ref, "original_RefSem": orig.get(cid)})
                    if "FUEL" in (tco, ref) or "UNSPEC" in (tco, ref) or im == "BUDGET" or tco.startswith("BADINPUT"):
                        inconclusive += 1
                        corr_fail.append({"input": inp, "implementation": im, "model_tco": tco, "reference": ref, "note": "inconclusive run (fuel/budget/unspecified): the shapes are built to be conclusive"})
                        continue
                    rec = {"input": inp, "implementation": im, "reference_eval": ref, "model_eval_tco": tco, "strict_verdict": dev}
                    if not same_obs(im, ref):
                        # the property itself: the optimised code differs from the reference semantics
                        if dev == "shadow" and same_obs(im, tco) and c.known_finding("tco-by-name", inp[:200]):
                            shadows += 1
                            continue
                        rec["kind"] = "implementation differs from the reference semantics (no optimisation)"
                        m = re.search(r"shape=(\S+) depth=(\d+)", inp)
                        rec["size"] = (len(m.group(1)) + int(m.group(2))) if m else 10 ** 6
                        prop_fail.append(rec)
                    elif not same_obs(im, tco) or dev == "strictdiff":
                        corr_fail.append(rec)
                c.coverage["compared"] = n
                c.coverage["site_bytecode_cases_compared"] = nsite
                # run-time failures of the `site` family on paths through a known leak whose extra jump the
                # generated table explains (bytecode = table, table <> property's list)
                keep = []
                for f in prop_fail:
                    fl = f.get("failure", {})
                    sh = fl.get("shape", "")
                    if str(f.get("kind", "")).startswith("harness:site-twin") and sh.startswith("site:") and sh[5:] in explained \
                            and c.known_finding(leak_id(sh[5:]), sh):
                        continue
                    keep.append(f)
                prop_fail = keep
                c.coverage["traces_validated_against_impl"] = n
                c.coverage["inconclusive"] = inconclusive
                c.coverage["shadow_cases_classified"] = shadows
    # smallest property failures first
    prop_fail.sort(key=lambda f: f.get("size", f.get("failure", {}).get("size", 0)))
    for f in prop_fail[:5]:
        f["replay"] = "bin/check C09 --replay <this file> re-runs the (shape, depth) on the real interpreter"
        c.violation(f)
    if not prop_fail:
        if corr_fail:
            c.violation({"kind": "correspondence: the real interpreter differs from the model of the optimisation (eval_tco) although it agrees with the reference semantics, or a run was inconclusive",
                         "cases": corr_fail[:10], "count": len(corr_fail)}, no_input=True, tag="corr")
        elif copy_fail:
            c.violation({"kind": "the copy of the reference evaluator in RefSemTco.v no longer agrees with RefSem.v",
                         "cases": copy_fail[:10], "count": len(copy_fail)}, no_input=True, tag="copy")
        elif table_break:
            c.violation({"kind": "translator tailsites failed: generator.go no longer has the shape it understands", "log": table_break}, no_input=True, tag="table")
        elif c.proof_break:
            c.violation({"kind": "proof obligation no longer checks", "detail": c.proof_break}, no_input=True, tag="proof")
    c.coverage["property_failures"] = len(prop_fail)
    c.coverage["correspondence_failures"] = len(corr_fail)
    c.coverage["copy_failures"] = len(copy_fail)
    c.finish("proof")
