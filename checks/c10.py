"""C10 — records convert to Go structs and back without loss."""
from .common import Check, iter_joined

# finding id -> the tag the model runner attaches when the modelled defect explains spec != model
FINDING_TAGS = {
    "echo-time-nil": "echo-time-nil",
    "echo-nokind-nil": "echo-nokind-nil",
    "echo-embed-misread": "echo-embed-misread",
    "echo-nil-pointer-crash": "echo-nil-pointer-crash",
    "togo-uint-dropped": "togo-uint-dropped",
    "togo-float-truncated": "togo-float-truncated",
    "togo-toptype-unchecked": "togo-toptype-unchecked",
    "togo-share-ptr-iface-order": "togo-share-ptr-iface-order",
}



def colliding_promoted_keys(inp):
    """True when a record of a togo/echo input names one Go field twice: a key at its own level and the same key inside an
    embedded-struct record (a field keyed by a capitalised type name), or in two embedded siblings. The real fill walks a Go
    map, so which value wins is order-dependent (C20 finding togo-map-colliding-keys); the specification declines such
    inputs and the deterministic model cannot correspond to them."""
    t = inp.split()
    if len(t) < 3 or t[0] not in ("togo", "echo", "mix"):
        return False
    found = [False]

    def val(i):
        k = t[i]
        if k == "R":
            n = int(t[i + 3]); j = i + 4; own = []; emb = []
            for _ in range(n):
                key = t[j]; v, j = val(j + 1)
                own.append(key)
                if key[:1].isupper() and v is not None:
                    emb.append(v)
            promoted = []
            for e in emb:
                promoted += e
            allk = [x for x in own if not x[:1].isupper()] + promoted
            if len(allk) != len(set(allk)):
                found[0] = True
            return list(set(allk)), j
        if k == "A":
            n = int(t[i + 1]); j = i + 2
            for _ in range(n):
                _, j = val(j)
            return None, j
        if k == "H":
            n = int(t[i + 2]); j = i + 3
            for _ in range(n):
                _, j = val(j + 1)
            return None, j
        return None, i + 1
    try:
        val(2)
    except Exception:
        return False
    return found[0]

def corresponds(inp, impl, model, tags=()):
    """implementation observable == model observable.  mix cases: the model enumerates both orders of filling,
    the implementation samples the order (Go map iteration, the reversed order has probability ~1/8 per run):
    when the model says SOME-ERR the sample may have seen only one of the two outcomes."""
    if impl == model:
        return True
    # a record of another type accepted at top level walks foreign field paths over the target struct; where
    # such a path enters time.Time's unexported fields the model is silent (OOM) — the accepted conversion is
    # still the listed defect
    if model == "OOM" and tags == ["togo-toptype-unchecked"] and impl.startswith("OK"):
        return True
    if inp.startswith("mix ") and model.startswith("SOME-ERR "):
        return impl in ("ALL " + model[len("SOME-ERR "):], "ALL ERR")
    return False


def spec_accepts(inp, impl, spec):
    """implementation observable satisfies the specification; in a history the specification is silent ("~") on a
    method call whose receiver already has a Go object attached (no conversion takes place there)."""
    if impl == spec:
        return True
    if inp.startswith("hist ") and "~" in spec:
        a, b = impl.split(";"), spec.split(";")
        return len(a) == len(b) and all(y == "~" or x == y for x, y in zip(a, b))
    return False


def verdict_holds(verdict, impl):
    """theorem kind_table_total read on the real conversion: reject = error, accept / keeps / zero = success"""
    if verdict == "reject":
        return impl == "ERR"
    if verdict in ("accept", "keeps", "zero"):
        return impl.startswith("OK")
    return True


def size_of(inp):
    return len(inp.split())


def main(argv):
    c = Check("C10", argv)
    c.proofs()
    c.trusted_base([
        "reflection is modelled, not verified: reflect.Set assignability, Field(i) navigation, reflect.New/Zero, unsafe access to unexported fields (GoConv.v case tables)",
        "the harness's own reflection walk over its struct types (typeinfo.go) and its canonical rendering of Go values (pointer identity classes) and records",
        "type names are compared modulo the registry's alias pairs (registered name / Go type name)",
    ])
    c.assumptions += [
        "record keys are ASCII identifiers; records are trees with sharing (no cycles); a record shared between slots sits in slots of one Go type (the mixed pointer/interface case is a separate stream)",
        "int -> float64 only for |n| <= 2^53; float64 -> int64 outside NaN/|x| >= 2^63 (otherwise the model is silent)",
    ]
    cases = c.harness("c10")
    prop_fail, corr_fail, table_fail = [], [], []
    known = {}
    n = silent_spec = silent_model = 0
    order_dependent_outside_spec = 0
    if cases:
        mout = c.model(cases)
        if mout:
            for cid, inp, impl, model, spec in iter_joined(cases, mout):
                n += 1
                tags = []
                verdict = None
                if inp.startswith("slot ") and " ^" in model:
                    # the proved (value kind x slot kind) table's verdict rides on the model column
                    model, verdict = model.rsplit(" ^", 1)
                if "|" in spec:
                    spec, t = spec.rsplit("|", 1)
                    tags = [x for x in t.split(",") if x]
                rec = {"input": inp, "implementation": impl, "specification": spec, "model": model}
                if spec == "-":
                    silent_spec += 1
                elif not spec_accepts(inp, impl, spec):
                    # a property-level failure; is it exactly what the model of a listed defect predicts?
                    if corresponds(inp, impl, model, tags) and tags and all(t in FINDING_TAGS and FINDING_TAGS[t] in c.known for t in tags):
                        for t in tags:
                            k = known.setdefault(t, [])
                            k.append(rec)
                    else:
                        rec["explained_by"] = tags
                        prop_fail.append(rec)
                    continue
                if verdict is not None and not verdict_holds(verdict, impl):
                    rec["kind_table_verdict"] = verdict
                    table_fail.append(rec)
                if model in ("OOM", "FUEL"):
                    silent_model += 1
                elif not corresponds(inp, impl, model):
                    if spec == "-" and (impl.startswith("ROUTES-DIFFER") or colliding_promoted_keys(inp)):
                        # the specification declines the input (e.g. a record that names a promoted field both at its
                        # own level and inside the embedded record) AND the real code itself gives two different
                        # answers through its two routes (the fill walks a Go map: C20 finding togo-map-colliding-keys):
                        # there is no single behaviour a deterministic model could correspond to, and the property
                        # makes no demand on such inputs. Counted, not reported.
                        order_dependent_outside_spec += 1
                    else:
                        corr_fail.append(rec)
    c.coverage["compared"] = n
    c.coverage["traces_validated_against_impl"] = n - silent_model
    c.coverage["specification_silent"] = silent_spec
    c.coverage["order_dependent_outside_spec"] = order_dependent_outside_spec
    c.coverage["model_silent"] = silent_model
    for t, recs in sorted(known.items()):
        recs.sort(key=lambda r: size_of(r["input"]))
        for r in recs:
            c.known_finding(FINDING_TAGS[t], r["input"] if len(r["input"]) < 300 else r["input"][:300] + "...")
            break
        c.known_hits[FINDING_TAGS[t]] = (len(recs), c.known_hits[FINDING_TAGS[t]][1])
    # smallest failing inputs first (the generator's own cases serve as the shrink lattice: the matrix
    # stream holds every single-field record)
    prop_fail.sort(key=lambda r: size_of(r["input"]))
    seen = set()
    for f in prop_fail:
        key = (f["input"].split()[0], f["implementation"][:3], f["specification"][:3], tuple(f.get("explained_by", [])))
        if key in seen:
            continue
        seen.add(key)
        if len(seen) <= 6:
            f["kind"] = "the real conversion differs from the specification (spec_to_go / spec_echo)"
            f["replay"] = ("input grammar: '<op> <GoTargetType> <record>'; record = R id typename n {key value}; "
                           "values I<int> F<float bits> S<hex> Q<hex symbol> B0/B1 Y<hex raw> T<unix nanos> Z(nil) U<uint64> C<char> A n v.. H id n {key v} X<id>(same record again); "
                           "paths <Target>: the field table zygo builds for a record of that type (D = DetOrder, M = JsonTagMap: key=EmbedPath field indices); "
                           "slot <ty> <value>: SexpToGoStructs(value, new(T), env, nil, 1, _) of a bare value into a bare slot, type grammar i j f s b y t L<ty> P:<struct> V:<struct> N:<iface> M<ty>; "
                           "togo: SexpToGoStructs(record, &Target{}) / (togo r); echo: (_method recv Echo<Target>: r); mix: togo repeated on fresh records; "
                           "hist <Target> <record> then steps G id = (togo r_id), M id = a Go method called ON r_id (converted implicitly when no Go object is attached), P id = r_id passed to a Go method that renders its argument, S id key value = (hset r_id key value), E id n p.. newid = a Go method on r_id returns the pointer at field path p (none = the receiver itself) and the result is bound as record newid; observables of the G/P steps joined by ';'")
            c.violation(f)
    if not prop_fail:
        if table_fail and not corr_fail:
            corr_fail = table_fail
        if corr_fail:
            corr_fail.sort(key=lambda r: size_of(r["input"]))
            c.violation({"kind": "correspondence: the real conversion differs from the Coq model GoConv.to_go / GoConv.echo (no case violating the specification found)",
                         "cases": corr_fail[:10], "count": len(corr_fail)}, no_input=True, tag="corr")
        elif c.proof_break:
            c.violation({"kind": "proof obligation no longer checks", "detail": c.proof_break}, no_input=True, tag="proof")
    c.coverage["property_failures"] = len(prop_fail)
    c.coverage["correspondence_failures"] = len(corr_fail)
    c.coverage["kind_table_verdict_failures"] = len(table_fail)
    c.finish("proof")
