"""C11 — JSON and msgpack encodings round-trip and are well-formed."""
import struct
from fractions import Fraction

import os

from .common import Check, iter_joined, build_ocaml, run_model, BUILD


def kv(s):
    d = {}
    for f in s.split(";"):
        if "=" in f:
            k, v = f.split("=", 1)
            d[k] = v
    return d


def num(tok):
    """exact value of an observed number: I<integer> or D<float64 bits>; None otherwise"""
    try:
        if tok[:1] == "I":
            return Fraction(int(tok[1:]))
        if tok[:1] == "D" and tok != "Dnan":
            f = struct.unpack(">d", struct.pack(">Q", int(tok[1:])))[0]
            if f != f or f in (float("inf"), float("-inf")):
                return None
            return Fraction(f)
    except (ValueError, struct.error, OverflowError):
        return None
    return None


def same_by_value(a, b):
    """equal observations, numbers compared by value (1 and 1.0 are the same number)"""
    if a == b:
        return True
    if a is None or b is None:
        return False
    ta, tb = a.split(" "), b.split(" ")
    if len(ta) != len(tb):
        return False
    for x, y in zip(ta, tb):
        if x != y:
            nx, ny = num(x), num(y)
            if nx is None or ny is None or nx != ny:
                return False
    return True


def text(hexs):
    try:
        return bytes.fromhex(hexs).decode("utf-8", "backslashreplace")
    except ValueError:
        return hexs


def main(argv):
    c = Check("C11", argv)
    c.proofs()
    c.trusted_base([
        "the ugorji JSON reader (into map[string]interface{}) and strconv.FormatFloat are oracles: "
        "every case checks that the Go tree read back from the msgpack bytes equals the one read from the JSON text, and that "
        "floats come back with the same bits",
        "the ugorji msgpack writer is MODELLED (Model/Msgpack.v mp_bytes, compared byte for byte with the real (msgpack v) on every case); "
        "its reader is not: the real bytes are read by the extracted independent reader mp_decode (theorem msgpack_bytes_read_back) and "
        "(unmsgpack ..) is compared with sexp_of_go of that tree",
        "encoding/json is the 'standard decoder' of the property text (token stream, numbers as text, member order kept)",
        "Go strings reach the model as utf8.DecodeRuneInString delivers them (one '!' per byte that is not UTF-8)",
        "ugorji's handling of objects with two members of the same name is not modelled (only reachable through the listed finding or string/symbol keys of the same text)",
        "the declared-type check inside MakeHash on the decode route is exercised (declared structs Pt, Rec) but not modelled; "
        "a round trip preserves the kinds int/float/string/bool/nil/record name, so it cannot fail for a value that was accepted at construction",
    ])
    c.assumptions += [
        "Section Codec: pf (float_token sci bits) = bits for finite floats (strconv shortest formatting read back by the decoder's float parser gives the same float64)",
        "Section Msgpack (theorem msgpack_roundtrip only): dec (enc t) = Some t (the msgpack codec is the identity on Go trees); "
        "proved for the byte-level model as msgpack_document_read_back, not yet connected to msgpack_roundtrip",
    ]
    cases = c.harness("c11")
    prop_fail, corr_fail, known = [], [], 0
    n = nq = nmp = 0
    if cases:
        mout = c.model(cases)
        mptree = {}
        if mout:
            # second pass: the bytes the REAL (msgpack v) produced are read by the extracted independent
            # msgpack reader (mp_decode); the tree is compared below with the specification's Go tree
            mpcases = os.path.join(BUILD, "C11.mpcases")
            with open(cases) as f, open(mpcases, "w") as g:
                for line in f:
                    a = line.rstrip("\n").split("\t")
                    if len(a) >= 3 and not a[1].startswith("Q"):
                        h = kv(a[2]).get("mp", "ERR")
                        if h != "ERR":
                            g.write("%s\tM %s\t-\n" % (a[0], h))
            rc, out, exe = build_ocaml("C11")
            mpout = os.path.join(BUILD, "C11.mpmodel")
            rc, err = run_model(exe, mpcases, mpout) if rc == 0 else (rc, out)
            if rc != 0:
                c.proof_break = c.proof_break or {"kind": "model-runner-failed (msgpack reader pass)", "log": str(err)[-2000:]}
            else:
                for line in open(mpout):
                    b = line.rstrip("\n").split("\t")
                    if len(b) >= 2:
                        mptree[b[0]] = kv(b[1]).get("mptree")
        if mout:
            for cid, inp, impl, model, spec in iter_joined(cases, mout):
                n += 1
                im, mo = kv(impl), kv(model)
                if inp.startswith("Q"):
                    nq += 1
                    want = spec
                    if im.get("std") != want:
                        prop_fail.append({"input": inp, "observable": "quoted string read by encoding/json", "implementation": im.get("std"),
                                          "specification": want, "json_text": text(im.get("q", "")), "flags": ""})
                    elif im.get("q") != mo.get("q") or mo.get("reads") != want:
                        corr_fail.append({"input": inp, "observable": "json_quote bytes", "implementation": text(im.get("q", "")),
                                          "model": text(mo.get("q", "")), "model_reads_back": mo.get("reads"), "specification": want})
                    continue
                sp = kv(spec)
                flags = set(sp.get("flags", "").split(","))
                jt = text(im.get("json", ""))
                bad = None
                # (ii) well-formed and denotes the same data, for every value the interpreter can hold
                if im.get("json") == "ERR":
                    bad = ("(json v) fails", "ERR", "a JSON text")
                elif inp.startswith("W") and im.get("stable") != "1":
                    bad = ("an encoding is a value: the bytes of (json v) / (msgpack v) after later values were encoded and decoded", "changed", "unchanged")
                elif not same_by_value(im.get("stdv"), sp.get("tree")):
                    bad = ("tree read from (json v) by encoding/json (numbers by value)", im.get("stdv"), sp.get("tree"))
                # (iii) round trips, on the domain of the property text
                elif "data" in flags:
                    for ob in ("unjson", "unmsgpack"):
                        if not same_by_value(im.get(ob), sp.get("back")):
                            bad = ("(%s (%s v))" % (ob, ob[2:]), im.get(ob), sp.get("back"))
                            break
                    if bad is None and im.get("codec") != "1":
                        bad = ("Go tree read from the msgpack bytes equals the one read from the JSON text", im.get("codec"), "1")
                # (iv) the msgpack bytes are well-formed msgpack denoting the same data (independent reader), for every
                # value whose JSON text is as specified
                if bad is None and sp.get("gtree", "ERR") != "ERR" and "gtok" in flags and "dupnames" not in flags:
                    nmp += 1
                    if im.get("mp", "ERR") == "ERR":
                        bad = ("(msgpack v) fails", "ERR", "msgpack bytes")
                    elif not same_by_value(mptree.get(cid), sp.get("gtree")):
                        bad = ("Go tree read from the bytes of (msgpack v) by the independent msgpack reader (mp_decode)",
                               mptree.get(cid), sp.get("gtree"))
                if bad:
                    f = {"input": inp, "observable": bad[0], "implementation": bad[1], "specification": bad[2],
                         "json_text": jt, "flags": sp.get("flags", ""), "model": model}
                    # narrow classifier of the listed finding: a field literally named Atype / zKeyOrder,
                    # the JSON text itself is as specified, only the way back fails
                    if "reserved" in flags and bad[0].startswith("(un") and c.known_finding("reserved-field-names", inp):
                        known += 1
                    else:
                        prop_fail.append(f)
                    continue
                # correspondence with the model of the code
                if im.get("json") != mo.get("json"):
                    corr_fail.append({"input": inp, "observable": "bytes of (json v) vs to_json", "implementation": jt,
                                      "model": text(mo.get("json", ""))})
                elif mo.get("parse") != im.get("std"):
                    corr_fail.append({"input": inp, "observable": "the extracted json_parse and encoding/json read the same text differently",
                                      "model": mo.get("parse"), "implementation": im.get("std"), "json_text": jt})
                elif "wf" in flags:
                    mism = False
                    if "dupnames" not in flags:
                        for ob in ("unjson", "unmsgpack"):
                            if im.get(ob) != mo.get("unjson"):
                                corr_fail.append({"input": inp, "observable": "(%s ..) vs of_tree (json_parse (to_json v))" % ob,
                                                  "implementation": im.get(ob), "model": mo.get("unjson"), "json_text": jt})
                                mism = True
                                break
                    # the route as the code is factored (JsonToGo / GoToMsgpack / MsgpackToGo / GoToSexp on Go trees).
                    # Objects with two members of the same name stay excluded: the ugorji reader decodes the second
                    # member INTO the value of the first ({"a":1, "a":"x"} fails, {"k":"s", "k":false} gives "false")
                    if mism or "dupnames" in flags:
                        pass
                    elif im.get("mp") != mo.get("mp"):
                        corr_fail.append({"input": inp, "observable": "bytes of (msgpack v) vs mp_bytes (go_of_tree (json_parse (to_json v)))",
                                          "implementation": im.get("mp"), "model": mo.get("mp"), "json_text": jt})
                    elif im.get("unmsgpack") != mo.get("unmp"):
                        corr_fail.append({"input": inp, "observable": "(unmsgpack ..) vs sexp_of_go (mp_decode (mp_bytes ..))",
                                          "implementation": im.get("unmsgpack"), "model": mo.get("unmp"), "json_text": jt})
                    elif im.get("unjson") != mo.get("ungo"):
                        corr_fail.append({"input": inp, "observable": "(unjson ..) vs sexp_of_go (go_of_tree (json_parse ..))",
                                          "implementation": im.get("unjson"), "model": mo.get("ungo"), "json_text": jt})
            c.coverage["compared"] = n
            c.coverage["quote_cases_compared"] = nq
            c.coverage["msgpack_documents_read_by_independent_reader"] = nmp
            c.coverage["traces_validated_against_impl"] = n
    # report: smallest failing inputs first, one per observable
    prop_fail.sort(key=lambda f: len(f["input"]))
    seen = set()
    for f in prop_fail:
        key = (f["observable"], f["implementation"] if f["implementation"] in ("ERR", "CRASH", "CORRUPT", "PANIC") else "differs")
        if key in seen:
            continue
        seen.add(key)
        if len(seen) <= 5:
            f["kind"] = "the implementation differs from the specification (tree_of / norm, extracted from Coq)"
            f["replay"] = "bin/check C11 --replay <this file>  (the harness rebuilds the value of 'input' through the Go API and calls json/unjson/msgpack/unmsgpack)"
            c.violation(f)
    if not prop_fail:
        if corr_fail:
            corr_fail.sort(key=lambda f: len(f["input"]))
            c.violation({"kind": "correspondence: the implementation differs from the Coq model (to_json / json_quote / of_tree); no input violating the specification was found",
                         "cases": corr_fail[:10], "count": len(corr_fail)}, no_input=True, tag="corr")
        elif c.proof_break:
            c.violation({"kind": "proof obligation no longer checks", "detail": c.proof_break}, no_input=True, tag="proof")
    c.coverage["property_failures"] = len(prop_fail)
    c.coverage["known_finding_cases"] = known
    c.coverage["correspondence_failures"] = len(corr_fail)
    c.finish("proof")
