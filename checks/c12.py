"""C12 — printed data reads back as the same data."""
import re
from .common import Check, iter_joined, translate

SPECIAL = set('+-*<>=!&|/`"\';,:%^~()[]{} \n\t\r#?.\\@$')


def fields(s):
    d = {}
    for part in s.split(" ;; "):
        if "=" in part:
            k, v = part.split("=", 1)
            d[k] = v
    return d


def text_of(items):
    if items in ("-", "", None):
        return ""
    out = []
    for c in items.split(","):
        c = int(c)
        out.append(chr(c) if c >= 0 else "\\x%02x" % (-c))
    return "".join(out)


def has_unreadable_escape(printed):
    """a backslash escape inside a string / char literal of the printed text that lexer.go EscapeChar does not know"""
    i, n = 0, len(printed)
    quote = None
    while i < n:
        ch = printed[i]
        if quote is None:
            if ch in "\"'":
                quote = ch
        else:
            if ch == "\\" and i + 1 < n:
                if printed[i + 1] in "bfvxuU":
                    return True
                i += 1
            elif ch == quote:
                quote = None
        i += 1
    return False


def symbols_of(tokens):
    """names of the symbols in an encoded value (Y n c1..cn)"""
    names, i = [], 0
    # a cheap scan is enough: 'Y' only occurs as a tag (every other token is a number or a tag letter)
    while i < len(tokens):
        if tokens[i] == "Y":
            n = int(tokens[i + 1])
            names.append("".join(chr(int(c)) for c in tokens[i + 2:i + 2 + n]))
            i += 2 + n
        elif tokens[i] == "S":
            n = int(tokens[i + 1])
            i += 2 + n
        elif tokens[i] == "F":
            n = int(tokens[i + 3])
            i += 5 + n
        else:
            i += 1
    return names


def odd_symbol(name):
    if name == "" or name in ("true", "false", "nil", "NaN", "nan", "Inf", "inf"):
        return True
    if name[0].isdigit():
        return True
    return any(ch in SPECIAL for ch in name)


def rpnorm(s):
    """the REPL reader returns no expressions unless the entry is complete: compare the status only then"""
    if s is None or s.startswith("D"):
        return s
    return s[:1]


def main(argv):
    c = Check("C12", argv)
    rc, log = translate("lexregex", "LexTables.v")
    translator_break = None
    if rc != 0:
        translator_break = log[-1500:]
        c.log("translator lexregex failed:\n" + log[-1500:])
    c.proofs()
    c.trusted_base([
        "translator/cmd/lexregex (regexes, EscapeChar, canStartSignedNumberAfter of lexer.go -> Coq terms) and Model/Lexer.v + Model/Reader.v (owner C13; tied to lexer.go/parser.go by bin/check C13 and, on every printed text and literal spelling of this run, by the R= and lit correspondences here)",
        "strconv.IsPrint is an oracle (theorems hold for every is_print; the runner uses the table of the running Go toolchain)",
        "strconv.FormatFloat / ParseFloat are oracles: contract ParseFloat(printed float) = the float, checked on every float of the run and on 20x more random floats; math/big is the reference for literal values",
        "Model/Printer.v quote_str / quote_rune = strconv.Quote / QuoteRune: compared on every code point (quick: planes 0-3 and 14 exhaustively, one eighth of the rest; thorough: all 1 112 064 scalar values) and on random strings",
        "floats re-lex to one token, DecodeAtom's classification of hex/octal/binary/ULL spellings, hashes evaluated: by correspondence only (not proved)",
    ])
    c.assumptions += [
        "printed texts contain valid runes only (invalid bytes are always escaped by strconv.Quote; symbols with invalid UTF-8 are not generated)",
        "the model's fuel is sufficient: read_print_data asks for vsize v + 3; FUEL was never observed",
    ]
    cases = c.harness("c12")
    prop_fail, corr_fail = [], []
    stats = {"val": 0, "lit": 0, "quote": 0, "lit_numbers": 0, "lit_rejected": 0, "lit_not_number": 0}
    if cases:
        mout = c.model(cases)
        if mout:
            for cid, inp, impl, model, spec in iter_joined(cases, mout):
                toks = inp.split(" ")
                kind = toks[0]
                if kind in ("isprint", "qr", "qs"):
                    stats["quote"] += 1
                    if impl != model:
                        corr_fail.append({"input": inp[:300], "implementation": impl[:300], "model": model[:300],
                                          "what": "strconv.Quote / QuoteRune / IsPrint vs Model/Printer.v quote_str / quote_rune"})
                    continue
                if kind == "orc":
                    if impl != "ok":
                        prop_fail.append({"input": inp, "kind": "a contract of the trusted strconv oracles failed (ParseFloat(FormatFloat f) != f)",
                                          "finding": None, "agrees_with_model": True})
                    continue
                if kind in ("val", "scr", "pty", "pts"):
                    stats["val"] += 1
                    if kind == "scr":
                        stats["scr"] = stats.get("scr", 0) + 1
                    if kind in ("pty", "pts"):
                        # printed under (pretty true): the model is Model/PrinterPretty.v pprint true
                        stats["pretty"] = stats.get("pretty", 0) + 1
                    im, mo, sp = fields(impl), fields(model), fields(spec)
                    agrees = im.get("P") == mo.get("P") and im.get("R") == mo.get("R") and rpnorm(im.get("RP")) == rpnorm(mo.get("RP")) and im.get("PC") == mo.get("PC") and "BADTOK" not in model
                    if not agrees:
                        corr_fail.append({"input": inp, "printed": text_of(im.get("P")), "implementation": "P=%s ;; R=%s ;; RP=%s ;; PC=%s" % (im.get("P"), im.get("R"), im.get("RP"), im.get("PC")),
                                          "model": model, "what": ("PRETTY mode ((pretty true)): SexpString vs Model/PrinterPretty.v pprint true; " if kind in ("pty", "pts") else "") + "printed bytes (SexpString vs print) / parse of the printed text (vs lex_all + parse_whole) / the REPL reader on the printed text (RP, vs parse_pieces over its lines)"})
                    if mo.get("EV", "-") != "-" and im.get("E") != mo["EV"]:
                        agrees = False
                        corr_fail.append({"input": inp, "printed": text_of(im.get("P")), "implementation": "E=%s" % im.get("E"), "model": "EV=%s" % mo["EV"],
                                          "what": "EvalString of the printed text vs eval_json_like (read (print v)) (the model of the hash builder / literal evaluation)"})
                    if im.get("W", "-") != "-" and mo.get("W", "-") != "-" and im.get("W") != mo.get("W"):
                        agrees = False
                        corr_fail.append({"input": inp, "printed": text_of(im.get("P")), "implementation": "W=%s (%r)" % (im.get("W"), text_of(im.get("W"))), "model": "W=%s" % mo.get("W"),
                                          "what": "the file written by (owritef v path) vs save_text (print v, outer quotes stripped for strings, newline)"})
                    printed = text_of(im.get("P"))
                    fails = []
                    if sp.get("R", "-") != "-" and im.get("R") != sp["R"]:
                        fails.append(("data route: parse of (str v)", im.get("R"), sp["R"]))
                    if sp.get("R", "-") != "-" and im.get("PC") != sp["R"]:
                        fails.append(("data route through the Go API for incremental input: the printed text cut into pieces at runes %s (ResetAddNewInput + NewInput)" % toks[2], im.get("PC"), sp["R"]))
                    if sp.get("R", "-") != "-" and im.get("RP") != sp["R"]:
                        fails.append(("data route at the REPL front end: the printed text typed line by line", im.get("RP"), sp["R"]))
                    if sp.get("E", "-") != "-":
                        if im.get("E") != sp["E"]:
                            fails.append(("evaluated route: EvalString of (str v)", im.get("E"), sp["E"]))
                        if im.get("S", "-") != "-" and im.get("S") != sp["E"]:
                            fails.append(("evaluated route: (source file) of the printed text", im.get("S"), sp["E"]))
                        if im.get("SV", "-") != "-" and im.get("SV") != sp["E"]:
                            fails.append(("saved route: (owritef v path) then (source path)", im.get("SV"), sp["E"]))
                    for route, got, want in fails:
                        fid = None
                        rejected = got in ("ERROR",) or (got or "").startswith("E")
                        if agrees and rejected and has_unreadable_escape(printed):
                            fid = "quote-escapes-unreadable"
                        elif agrees and route.startswith("data") and any(odd_symbol(nm) for nm in symbols_of(toks[3:])):
                            fid = "symbol-no-printed-syntax"
                        prop_fail.append({"input": inp, "printed": printed, "route": route, "implementation": got, "specification": want,
                                          "model": mo.get("R"), "agrees_with_model": agrees, "finding": fid,
                                          "kind": "the %sprinted value does not read back as the original (%s)" % ("PRETTY-" if kind in ("pty", "pts") else "", route)})
                    continue
                if kind == "hist":
                    stats["hist"] = stats.get("hist", 0) + 1
                    im, mo, sp = fields(impl), fields(model), fields(spec)
                    want = sp.get("W")
                    printed = text_of(im.get("P"))
                    agrees = im.get("P") == mo.get("P")
                    if "B" in im:
                        prop_fail.append({"input": inp, "kind": "building the hash through HashSet/HashDelete failed: " + im["B"], "finding": None, "agrees_with_model": False})
                        continue
                    if not agrees or im.get("W") != want:
                        corr_fail.append({"input": inp, "printed": printed, "implementation": "P=%s ;; W=%s" % (im.get("P"), im.get("W")), "model": model + " ;; " + spec,
                                          "what": "printed bytes of a hash built by a history of hset/hdel vs print (hist_apply ops); abstract map of the harness vs hist_apply"})
                    for route, got in (("the live hash looked up key by key (hget, len)", im.get("LV")),
                                       ("evaluated route: EvalString of (str h), content key by key", im.get("E"))):
                        if got != want:
                            prop_fail.append({"input": inp, "printed": printed, "route": route, "implementation": got, "specification": want,
                                              "agrees_with_model": agrees, "finding": None,
                                              "kind": "a hash built by a history of hset/hdel: the printed text does not denote the live hash (%s)" % route})
                    continue
                if kind == "slit":
                    stats["slit"] = stats.get("slit", 0) + 1
                    im, mo, sp = fields(impl), fields(model), fields(spec)
                    spelling = text_of(im.get("T"))
                    agrees = im.get("T") == mo.get("T") and im.get("R") == mo.get("R")
                    if not agrees:
                        corr_fail.append({"input": inp, "spelling": spelling, "implementation": impl[:400], "model": model[:400],
                                          "what": "a string / backtick / char literal: the harness's spelling vs Model/StrLit.v str_spelling, the real reader vs lex_all + parse_whole"})
                    want = sp.get("R", "-")
                    if want != "-":
                        wantv = want[4:] if want.startswith("D | ") else want
                        for route, got, w in (("read as data", im.get("R"), want), ("evaluated (EvalString of the literal)", im.get("E"), wantv)):
                            if got != w:
                                prop_fail.append({"input": inp, "spelling": spelling, "route": route, "implementation": got, "specification": w,
                                                  "agrees_with_model": agrees, "finding": None,
                                                  "kind": "a string / character literal does not denote exactly the runes written (%s)" % route})
                    continue
                if kind == "lit":
                    stats["lit"] += 1
                    im = fields(impl)
                    v, ref = im.get("V"), im.get("REF")
                    n = int(toks[1])
                    spelling = "".join(chr(int(x)) for x in toks[2:2 + n])
                    if v != model:
                        corr_fail.append({"input": inp, "spelling": spelling, "implementation": v, "model": model,
                                          "what": "tokens / value of a literal spelling: VerifLex + read vs lex_text + atom_value"})
                    num = v[:2] in ("I ", "U ", "F ")
                    if num:
                        stats["lit_numbers"] += 1
                        bad = None
                        if ref not in ("-",) and v != ref:
                            bad = ("math/big reference", ref)
                        elif spec != "-" and v != spec:
                            bad = ("positional value (Coq math_value)", spec)
                        if bad:
                            prop_fail.append({"input": inp, "spelling": spelling, "implementation": v, "specification": bad[1], "reference": bad[0],
                                              "agrees_with_model": v == model, "finding": None,
                                              "kind": "a numeric literal is read with a value other than its exact mathematical value"})
                    elif v == "ERR":
                        stats["lit_rejected"] += 1
                        # a well-formed literal (no underscores) of a supported notation whose exact value is in range must be accepted
                        if ref[:2] in ("I ", "U ", "F ") and "_" not in spelling:
                            prop_fail.append({"input": inp, "spelling": spelling, "implementation": v, "specification": ref, "reference": "math/big reference",
                                              "agrees_with_model": v == model, "finding": None,
                                              "kind": "a well-formed numeric literal whose value is in range is rejected by the reader"})
                    else:
                        stats["lit_not_number"] += 1
                        if ref[:2] in ("I ", "U ", "F ") and "_" not in spelling:
                            fid = None
                            if v == model and spelling.startswith("-.") and v == "T Symbol,Float":
                                fid = "neg-leading-dot"
                            prop_fail.append({"input": inp, "spelling": spelling, "implementation": v, "specification": ref,
                                              "agrees_with_model": v == model, "finding": fid,
                                              "kind": "a spelling in one of the numeric notations is not read as one number"})
    c.coverage["compared"] = stats["val"] + stats["lit"] + stats["quote"] + stats.get("hist", 0) + stats.get("slit", 0)
    c.coverage["compared_by_kind"] = stats
    c.coverage["traces_validated_against_impl"] = stats["val"] + stats["lit"] + stats["quote"]
    # ---- decide ----
    unexplained = []
    for f in prop_fail:
        if f.get("finding") and c.known_finding(f["finding"], f.get("printed") or f.get("spelling") or f["input"][:80]):
            continue
        unexplained.append(f)
    unexplained.sort(key=lambda f: len(f["input"]))
    seen = set()
    for f in unexplained:
        key = (f["kind"], f.get("route"))
        if key in seen:
            continue
        seen.add(key)
        f["others_of_this_kind"] = sum(1 for g in unexplained if (g["kind"], g.get("route")) == key) - 1
        f["replay"] = "bin/check C12 --replay <this file>: the harness rebuilds the value (or spelling) from 'input' and prints / reads it again"
        c.violation(f)
    if not unexplained:
        if corr_fail:
            corr_fail.sort(key=lambda f: len(f["input"]))
            c.violation({"kind": "correspondence: the implementation differs from the Coq model (no input violating the property found)",
                         "cases": corr_fail[:10], "inputs": [f["input"] for f in corr_fail[:10]], "count": len(corr_fail)}, no_input=True, tag="corr")
        elif translator_break:
            c.violation({"kind": "translator lexregex no longer understands lexer.go", "log": translator_break}, no_input=True, tag="tr")
        elif c.proof_break:
            c.violation({"kind": "proof obligation no longer checks", "detail": c.proof_break}, no_input=True, tag="proof")
    c.coverage["property_failures"] = len(prop_fail)
    c.coverage["property_failures_unexplained"] = len(unexplained)
    c.coverage["correspondence_failures"] = len(corr_fail)
    c.finish("proof")
