"""C13 — parsing depends only on the text: not on chunking, not on history."""
import re
from .common import Check, iter_joined, translate

FLOAT = re.compile(r"#[0-9a-f]{16}#")


def norm(s):
    """floats are compared by kind only between implementation and model (f#<bits># -> f#)"""
    return FLOAT.sub("#", s)


def fields(s):
    d = {}
    for part in s.split(" ;; "):
        if "=" in part:
            k, v = part.split("=", 1)
            d[k] = v
    return d


def main(argv):
    c = Check("C13", argv)
    rc, log = translate("lexregex", "LexTables.v")
    translator_break = None
    if rc != 0:
        translator_break = log[-1500:]
        c.log("translator lexregex failed:\n" + log[-1500:])
    c.proofs()
    c.trusted_base([
        "translator/cmd/lexregex (regexp/syntax parse tree -> Coq regex terms; EscapeChar / canStartSignedNumberAfter tables)",
        "the Brzozowski-derivative matcher of Model/Regex.v is compared with Go's regexp on every run (exhaustive short atoms) but not proved against a denotational semantics",
        "Go's iter.Pull coroutine semantics = continuation-passing suspension of Model/Reader.v (checked by correspondence on every delivery of every case line)",
        "strconv.ParseFloat is modelled only as success/failure (float_ok); float values are compared implementation-vs-implementation only",
        "lazy lexing (PeekNextToken lexes on demand) is modelled as eager lexing of each piece with the lexer error placed behind the tokens lexed before it",
    ])
    c.assumptions += [
        "texts are sequences of valid runes as delivered by an io.RuneScanner (invalid UTF-8 arrives as U+FFFD)",
        "the model's fuel (call-chain depth) is not exhausted: OFuel is excluded in the theorem statements and never observed in a run",
    ]
    cases = c.harness("c13")
    prop_fail = []      # implementation-only facts that contradict the property
    corr_fail = []      # implementation differs from the model
    spec_fail = []      # the repaired (strict) model is not chunk independent on a case (contradicts a theorem)
    n = 0
    n_scan = 0
    kinds = {}
    if cases:
        mout = c.model(cases)
        if mout:
            for cid, inp, impl, model, spec in iter_joined(cases, mout):
                n += 1
                kind = inp.split(" ", 1)[0]
                kinds[kind] = kinds.get(kind, 0) + 1
                if kind == "tok" and spec != "-":
                    sp = fields(spec)
                    uu = sp.get("U", "-:-:0").split(":")
                    vv = sp.get("V", "none:lexerr").split(":")
                    if vv[1] == "lexok" and uu[0] in ("finished", "unfinished") and uu[1] not in ("Str", "Rune") and vv[0] in ("fin", "unf"):
                        n_scan += 1
                        if (uu[0] == "finished") != (vv[0] == "fin"):
                            spec_fail.append({"input": inp, "specification": spec,
                                              "what": "rune scanner `unfinished` and token scanner `tok_verdict` disagree"})
                if kind in ("tok", "atom"):
                    if impl != model:
                        corr_fail.append({"input": inp, "implementation": impl, "model": model,
                                          "what": "token stream (LexNextRune fold) / DecodeAtom vs lex_text / decode_atom"})
                    continue
                if kind == "hist":
                    im = fields(impl)
                    agrees = norm(impl) == model
                    if im.get("F") != im.get("H") or im.get("S") != "same" or im.get("A", "same") != "same":
                        prop_fail.append({"input": inp, "implementation": impl, "model": model, "agrees_with_model": agrees,
                                          "kind": "history: the same text parses differently after earlier inputs on the same parser, or Reset leaves different state, or expressions returned for an earlier text were changed by a later parse",
                                          "finding": None})
                    elif not agrees:
                        corr_fail.append({"input": inp, "implementation": impl, "model": model, "what": "parse after history"})
                    continue
                if kind == "calls":
                    im = fields(impl)
                    agrees = norm(impl) == model
                    if im.get("F") != im.get("H") or im.get("S") != "same":
                        prop_fail.append({"input": inp, "implementation": impl, "model": model, "agrees_with_model": agrees,
                                          "kind": "history of parser calls: after a sequence of ResetAddNewInput / NewInput / ParseTokens / Reset / Stop calls (abandoned forms, queued streams, a stopped coroutine) the text parses differently than on a new parser, or Reset leaves different state, or a call panics",
                                          "finding": None})
                    elif not agrees:
                        corr_fail.append({"input": inp, "implementation": impl, "model": model, "what": "replies of the ParseTokens calls of a call sequence vs Model/ReaderSession.v do_call"})
                    continue
                if kind == "repl":
                    im = fields(impl)
                    r, w = im.get("R", ""), im.get("W", "")
                    agrees = norm("R=%s ;; N=%s" % (r, im.get("N"))) == model
                    bad = None
                    if im.get("T") != "prefix":
                        bad = "the text the REPL reader reports is not the lines it was given (a line was dropped or changed)"
                    elif r[:1] == "D" and r != w:
                        bad = "the expressions the REPL reader obtained line by line differ from the same text parsed whole"
                    elif r[:1] == "P":
                        bad = "panic escaped from the REPL reader"
                    elif r == "EOF" and w[:1] != "M":
                        bad = "the REPL reader kept asking for lines although the text parsed whole does not ask for more input"
                    elif r == "E" and w[:1] != "E":
                        bad = "the REPL reader reports an error on a text that parses whole"
                    elif spec != "-" and r[:1] == "D" and norm(r) != fields(spec).get("W"):
                        bad = "the expressions the REPL reader obtained differ from the specification: the whole-text parse (model) of the lines it consumed (theorem repl_is_whole)"
                    if bad:
                        prop_fail.append({"input": inp, "implementation": impl, "model": model, "agrees_with_model": agrees,
                                          "kind": "REPL: " + bad, "finding": None})
                    elif not agrees:
                        corr_fail.append({"input": inp, "implementation": impl, "model": model, "what": "REPL line reader vs delivery of lines in the model"})
                    continue
                if kind not in ("chunk", "queue"):
                    continue
                im = fields(impl)
                mo = fields(model)
                sp = fields(spec)
                w = im.get("W", "")
                deliveries = im.get("P", "").split(" | ")
                agrees = norm(w) == mo.get("W") and norm(im.get("P", "")) == mo.get("P")
                if not agrees:
                    corr_fail.append({"input": inp, "implementation": "W=%s ;; P=%s" % (w, im.get("P")), "model": model,
                                      "what": "whole-text parse and every delivery of the pieces vs Model/Reader.v (strict=false)"})
                if sp.get("W") != sp.get("F"):
                    spec_fail.append({"input": inp, "specification": spec, "what": "model: pieces differ from whole"})
                # the rune scanner (spec of the check) and the token scanner (spec of the token-level theorems)
                # must agree wherever both have an opinion: outside string / char literals, no hard error
                uu = sp.get("U", "-:-:0").split(":")
                vv = sp.get("V", "none:plain").split(":")
                if w[:1] != "E" and uu[0] in ("finished", "unfinished") and uu[1] not in ("Str", "Rune") and vv[0] in ("fin", "unf"):
                    if (uu[0] == "finished") != (vv[0] == "fin"):
                        spec_fail.append({"input": inp, "specification": spec,
                                          "what": "rune scanner `unfinished` and token scanner `tok_verdict` disagree"})
                # (i) pieces = whole
                if deliveries[-1] != w:
                    fid = None
                    prop_fail.append({"input": inp, "whole": w, "pieces": deliveries, "model": model, "repaired_model": spec,
                                      "agrees_with_model": agrees, "finding": fid,
                                      "kind": "chunking: the last delivery of the pieces differs from the whole-text parse"})
                # (ii) more-input exactly for unfinished prefixes (whole-text parse, not a hard error)
                u = sp.get("U", "-:-:0").split(":")
                st = w[:1]
                lk = im.get("L", ":")
                if st == "P":
                    prop_fail.append({"input": inp, "whole": w, "finding": None, "agrees_with_model": agrees,
                                      "kind": "panic escaped from the parser"})
                elif st == "D" and u[0] == "unfinished":
                    fid = None
                    prop_fail.append({"input": inp, "whole": w, "scanner": sp.get("U"), "finding": fid, "agrees_with_model": agrees,
                                      "kind": "an unfinished prefix (%s open, bracket depth %s) is accepted as complete: no more-input request" % (u[1], u[2])})
                elif st == "M" and u[0] == "finished":
                    fid = None
                    if agrees and lk in ("Symbol:-", "Symbol:+"):
                        fid = "sign-symbol-at-end"
                    prop_fail.append({"input": inp, "whole": w, "scanner": sp.get("U"), "last_token": lk, "finding": fid, "agrees_with_model": agrees,
                                      "kind": "a finished text asks for more input"})
                # (iii) the last token is never lost
                if im.get("K") == "lost":
                    prop_fail.append({"input": inp, "whole": w, "finding": None, "agrees_with_model": agrees,
                                      "kind": "the parse ran to the end of the text but an atom/token was left in the lexer"})
    c.coverage["compared"] = n
    c.coverage["compared_by_kind"] = kinds
    c.coverage["scanner_consistency_cases"] = n_scan
    c.coverage["traces_validated_against_impl"] = n
    # ---- decide ----
    unexplained = []
    seen_kinds = {}
    for f in prop_fail:
        fid = f.get("finding")
        if fid and c.known_finding(fid, f["input"]):
            continue
        unexplained.append(f)
    # shortest inputs first, a few per kind
    unexplained.sort(key=lambda f: len(f["input"]))
    for f in unexplained:
        k = f["kind"]
        seen_kinds[k] = seen_kinds.get(k, 0) + 1
        if seen_kinds[k] <= 3:
            f["replay"] = "bin/check C13 --replay <this file>  (re-runs exactly this input on the implementation: whole text vs the pieces cut at the given rune offsets / after the given earlier inputs)"
            c.violation(f)
    if not unexplained:
        if translator_break:
            c.violation({"kind": "translator lexregex no longer understands zygo/lexer.go (regexes / EscapeChar / canStartSignedNumberAfter changed shape)",
                         "log": translator_break}, no_input=True, tag="translator")
        elif corr_fail:
            corr_fail.sort(key=lambda f: len(f["input"]))
            c.violation({"kind": "correspondence: the implementation differs from the Coq model (no input violating the property found)",
                         "inputs": [f["input"] for f in corr_fail[:10]], "cases": corr_fail[:10], "count": len(corr_fail)}, no_input=True, tag="corr")
        elif spec_fail:
            c.violation({"kind": "the specifications disagree on a case (model pieces vs whole: theorem chunk_independent contradicted; or the rune scanner vs the token scanner of the token-level theorems)",
                         "cases": spec_fail[:5]}, no_input=True, tag="spec")
        elif c.proof_break:
            c.violation({"kind": "proof obligation no longer checks", "detail": c.proof_break}, no_input=True, tag="proof")
    c.coverage["property_failures"] = len(prop_fail)
    c.coverage["property_failures_unexplained"] = len(unexplained)
    c.coverage["correspondence_failures"] = len(corr_fail)
    c.finish("proof")
