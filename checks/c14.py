"""C14 — hashes behave as insertion-ordered maps under every operation history."""
import re
from .common import Check, iter_joined

FIELDS = ("len", "keys", "get", "getd", "hp", "rl", "rk", "rp", "lm", "str", "json")


def fields(obs):
    """Split an observation line into its named fields (str and json come last and may hold ';')."""
    d = {}
    if ";json=" not in obs or ";str=" not in obs:
        return {"raw": obs}
    head, js = obs.split(";json=", 1)
    head, st = head.split(";str=", 1)
    for f in head.split(";"):
        if "=" in f:
            k, v = f.split("=", 1)
            d[k] = v
    d["str"] = st
    d["json"] = js
    return d


def parse_header(inp):
    """U <uid> shape@code@dstr@djson ... -> (uid, shapes, codes)"""
    toks = inp.split()
    shapes, codes = [], []
    for t in toks[2:]:
        p = t.split("@")
        shapes.append(p[0])
        codes.append(p[1])
    return toks[1], shapes, codes


def is_nested_single(shape):
    """[[a]]: a one-element array whose element is a one-element array of an atom"""
    return re.fullmatch(r"A\(A\([^,()]+\)\)", shape) is not None


OBJ_FIELDS = re.compile(r";(?:ko|hpo|rko|st)=[^;]*")


def strip_obj(obs):
    """Drop the fields of mode O that only the model of the CODE predicts (identities of the key objects
    handed out, the bookkeeping itself); the ordered-map specification is silent about them."""
    return OBJ_FIELDS.sub("", obs)


def split_lm(obs):
    """Take the lm= field (what the range macro bound) out of an observation."""
    m = re.search(r";lm=([^;]*)", obs)
    if not m:
        return obs, None
    return obs[:m.start()] + obs[m.end():], m.group(1)


def _cls(tok, col):
    """type class of a key shape (first letter) or of a value (int or one of the special values)"""
    if col == 0:
        return tok[0]
    if re.fullmatch(r"-?\d+", tok):
        return "i"
    return {"h": "H", "g": "H"}.get(tok, tok)      # the two hash values have one type


def stale_key_pattern(impl_lm, spec_lm):
    """The range macro's key (or value) variable kept its earlier binding because the new one has
    ANOTHER type (mdef ignores the 'cannot assign' error of the typed rebinding); length agrees
    with the content and every entry is either the right one or the stale previous binding."""
    if impl_lm in ("!", "#") or spec_lm in ("!", "#"):
        return False
    a = [p.split("=") for p in impl_lm.split("|")] if impl_lm else []
    b = [p.split("=") for p in spec_lm.split("|")] if spec_lm else []
    if len(a) != len(b) or any(len(p) != 2 for p in a + b):
        return False
    stale = False
    for col in (0, 1):
        for i in range(len(a)):
            x, y = a[i][col], b[i][col]
            if x == y:
                continue
            # stale = the previous binding; the rejected one has another type (arrays are typed by their elements)
            same_type = _cls(x, col) == _cls(y, col) and not (col == 0 and x[0] == "A")
            if i == 0 or x != a[i - 1][col] or same_type:
                return False
            stale = True
    return stale


def main(argv):
    c = Check("C14", argv)
    c.proofs()
    c.trusted_base([
        "Blake2b hashing of array keys is not modelled (the theorems hold for an ARBITRARY hash of non-atom keys, with no assumption relating it to Compare; the runner uses the real codes reported by the harness)",
        "rendering of a key inside (str h)/(json h) is taken from the real SexpString of that key (the property is about content and order, not about spelling)",
        "CloneFrom/CopyMap (shallow copies sharing bucket slices), records with a TypeName other than hash, pretty printing, msgpack/togo encodings are outside the model",
        "values reach the builtins through AddGlobal/Apply/EvalString (the literal reader is C12/C13's subject)",
    ])
    c.assumptions += [
        "key identity is the implementation's: same hash code and env.Compare returns 0 without error (Compare is checked against the model's ceq on every pair of universe keys at each run)",
        "hash codes of atoms are int(value) / symbol number / FNV-1 32 of the string (checked against the real HashExpression on the universe keys at each run)",
    ]
    cases = c.harness("c14")
    c.log("harness done")
    prop_fail, corr_fail, known = [], [], {}
    uni = {}          # uid -> dict(shapes, wrapped, incompat)
    n = 0
    nhist = 0
    if cases:
        mout = c.model(cases)
        c.log("model done")
        if mout:
            for cid, inp, impl, model, spec in iter_joined(cases, mout):
                n += 1
                if inp.startswith("U "):
                    uid, shapes, codes = parse_header(inp)
                    m = re.match(r"eq=([01]*);", impl)
                    eq = m.group(1) if m else ""
                    k = len(shapes)
                    uni[uid] = {"shapes": shapes, "nested": {i for i, s in enumerate(shapes) if is_nested_single(s)},
                                "header": inp}
                    if impl != model:
                        corr_fail.append({"input": inp, "implementation": impl, "model": model,
                                          "what": "key identity (Compare = 0) or atom hash codes differ from the model's keq / ahash"})
                    continue
                nhist += 1
                toks = inp.split()
                u = uni.get(toks[1], {"nested": set(), "header": ""})
                ops = toks[2:]
                # the key variable of the range macro is compared separately (lm field)
                impl_full, model_full = impl, model
                if toks[0] == "O":
                    impl, model = strip_obj(impl), strip_obj(model)
                impl0, impl_lm = split_lm(impl)
                model0, model_lm = split_lm(model)
                spec0, spec_lm = split_lm(spec)
                lm_stale = impl_lm is not None and impl_lm != spec_lm and stale_key_pattern(impl_lm, spec_lm)
                if lm_stale:
                    impl_lm = spec_lm          # judged below as a listed finding
                if impl0 == spec0 and impl_lm == spec_lm:
                    if impl0 != model0 or model_lm != spec_lm or (toks[0] == "O" and impl_full != model_full):
                        corr_fail.append({"universe_header": u["header"], "input": inp, "implementation": impl_full, "model": model_full, "specification": spec})
                    elif lm_stale:
                        if c.known_finding("range-macro-stale-key", inp):
                            known["range-macro-stale-key"] = known.get("range-macro-stale-key", 0) + 1
                        else:
                            prop_fail.append({"universe_header": u["header"], "input": inp, "implementation": impl,
                                              "specification": spec, "model": model, "differing_fields": ["lm"], "nops": len(ops)})
                    continue
                # the implementation differs from the ordered-map specification
                a, b = fields(impl0), fields(spec0)
                diff = {k for k in set(a) | set(b) if a.get(k) != b.get(k)}
                if impl_lm != spec_lm:
                    diff.add("lm")
                rec = {"universe_header": u["header"], "input": inp, "implementation": impl, "specification": spec,
                       "model": model, "differing_fields": sorted(diff), "nops": len(ops)}
                # a listed finding explains it only if the Coq model of the code predicts exactly this observation
                raw_lm = split_lm(impl)[1]
                lm_stale_m = raw_lm is not None and raw_lm != model_lm and stale_key_pattern(raw_lm, model_lm)
                predicted = impl0 == model0 and (raw_lm == model_lm or lm_stale_m)
                sets = {int(re.match(r"\d+", o[1:]).group()) for o in ops if o[0] == "s"}
                nested_read_only = False
                if diff == {"get"}:
                    ga, gb = a.get("get", "").split(","), b.get("get", "").split(",")
                    nested_read_only = len(ga) == len(gb) and all(x == y or i in u["nested"] for i, (x, y) in enumerate(zip(ga, gb)))
                if predicted and ((sets & u["nested"]) or nested_read_only):
                    used = ["nested-one-element-array-key"] + (["range-macro-stale-key"] if (lm_stale or lm_stale_m) else [])
                    if all(c.known_finding(fid, inp) for fid in used):
                        for fid in used:
                            known[fid] = known.get(fid, 0) + 1
                        continue
                prop_fail.append(rec)
            c.coverage["compared"] = n
            c.coverage["histories_compared"] = nhist
            c.coverage["traces_validated_against_impl"] = nhist
    # report: the shortest failing histories first, a few per distinct set of differing fields
    prop_fail.sort(key=lambda r: (r["nops"], len(r["input"])))
    seen = {}
    for r in prop_fail:
        key = (r["input"].split()[1], tuple(r["differing_fields"]))
        seen[key] = seen.get(key, 0) + 1
        if seen[key] == 1 and len(seen) <= 4:
            r["kind"] = "the hash differs from the insertion-ordered map after this history (fields: %s)" % ",".join(r["differing_fields"])
            r["replay"] = "bin/check C14 --replay <this file>; history syntax: mode(A=builtins applied,S=script,O=applied with a fresh key object per call) universe s<key index>[w]=<value> d<key index>[w] (w: the key is passed as the one-element array [k]); key i is the i-th token of universe_header"
            r["total_failing_cases"] = len(prop_fail)
            c.violation(r)
    if not prop_fail:
        if corr_fail:
            c.violation({"kind": "correspondence: the implementation differs from the Coq model of hashutils.go (no history violating the specification found)",
                         "cases": corr_fail[:10], "count": len(corr_fail)}, no_input=True, tag="corr")
        elif c.proof_break:
            c.violation({"kind": "proof obligation no longer checks", "detail": c.proof_break}, no_input=True, tag="proof")
    c.coverage["property_failures"] = len(prop_fail)
    c.coverage["correspondence_failures"] = len(corr_fail)
    c.coverage["known_finding_cases"] = known
    c.finish("proof")
