"""C14 — hashes behave as insertion-ordered maps under every operation history."""
import re
from .common import Check, iter_joined

FIELDS = ("len", "keys", "get", "getd", "hp", "rl", "rk", "rp", "lm", "str", "json")


def fields(obs):
    """Split an observation line into its named fields (str and json come last and may hold ';')."""
    d = {}
    if ";json=" not in obs or ";str=" not in obs:
        return {"raw": obs}
    head, js = obs.split(";json=", 1)
    head, st = head.split(";str=", 1)
    for f in head.split(";"):
        if "=" in f:
            k, v = f.split("=", 1)
            d[k] = v
    d["str"] = st
    d["json"] = js
    return d


def parse_header(inp):
    """U <uid> shape@code@dstr@djson ... -> (uid, shapes, codes)"""
    toks = inp.split()
    shapes, codes = [], []
    for t in toks[2:]:
        p = t.split("@")
        shapes.append(p[0])
        codes.append(p[1])
    return toks[1], shapes, codes


def is_wrapped(shape):
    return re.fullmatch(r"A\([^,()]+\)", shape) is not None


def has_char_array(shape):
    return shape.startswith("A(") and re.search(r"[(,]C", shape) is not None


def main(argv):
    c = Check("C14", argv)
    c.proofs()
    c.trusted_base([
        "Blake2b hashing of array keys is not modelled (the theorems hold for an arbitrary array hash; the runner uses the real codes reported by the harness)",
        "rendering of a key inside (str h)/(json h) is taken from the real SexpString of that key (the property is about content and order, not about spelling)",
        "CloneFrom/CopyMap (shallow copies sharing bucket slices), records with a TypeName other than hash, pretty printing, msgpack/togo encodings are outside the model",
        "values reach the builtins through AddGlobal/Apply/EvalString (the literal reader is C12/C13's subject)",
    ])
    c.assumptions += [
        "key identity is the implementation's: env.Compare returns 0 without error (checked against the model's keq on every pair of universe keys at each run)",
        "hash codes of atoms are int(value) / symbol number / FNV-1 32 of the string (checked against the real HashExpression on the universe keys at each run)",
    ]
    cases = c.harness("c14")
    c.log("harness done")
    prop_fail, corr_fail, known = [], [], {}
    uni = {}          # uid -> dict(shapes, wrapped, incompat)
    n = 0
    nhist = 0
    if cases:
        mout = c.model(cases)
        c.log("model done")
        if mout:
            for cid, inp, impl, model, spec in iter_joined(cases, mout):
                n += 1
                if inp.startswith("U "):
                    uid, shapes, codes = parse_header(inp)
                    m = re.match(r"eq=([01]*);", impl)
                    eq = m.group(1) if m else ""
                    k = len(shapes)
                    incompat = set()
                    bad_ok = []
                    for i in range(k):
                        for j in range(k):
                            if len(eq) == k * k and eq[i * k + j] == "1" and codes[i] != codes[j]:
                                incompat.add(i)
                                incompat.add(j)
                                if not has_char_array(shapes[i]) and not has_char_array(shapes[j]):
                                    bad_ok.append((shapes[i], shapes[j]))
                    uni[uid] = {"shapes": shapes, "wrapped": {i for i, s in enumerate(shapes) if is_wrapped(s)},
                                "incompat": incompat, "header": inp}
                    if impl != model:
                        corr_fail.append({"input": inp, "implementation": impl, "model": model,
                                          "what": "key identity (Compare = 0) or atom hash codes differ from the model's keq / ahash"})
                    if bad_ok:
                        corr_fail.append({"input": inp, "what": "hypothesis of the theorems fails on the universe: keys without a char inside an array compare equal but have different hash codes", "pairs": bad_ok[:5]})
                    continue
                nhist += 1
                if impl == spec:
                    if impl != model:
                        corr_fail.append({"input": inp, "implementation": impl, "model": model, "specification": spec})
                    continue
                # the implementation differs from the ordered-map specification
                toks = inp.split()
                u = uni.get(toks[1], {"wrapped": set(), "incompat": set(), "header": ""})
                ops = toks[2:]
                a, b = fields(impl), fields(spec)
                diff = {k for k in set(a) | set(b) if a.get(k) != b.get(k)}
                rec = {"universe_header": u["header"], "input": inp, "implementation": impl, "specification": spec,
                       "model": model, "differing_fields": sorted(diff), "nops": len(ops)}
                if impl != model:
                    prop_fail.append(rec)
                    continue
                # the Coq model of the code predicts this deviation: it must be one of the listed findings
                explained = set()
                used = []
                dels = {int(o[1:]) for o in ops if o[0] == "d"}
                touched = {int(re.match(r"[sd](\d+)", o).group(1)) for o in ops}
                if "str" in diff and a.get("str") == "}" and b.get("str") == "{}":
                    explained.add("str")
                    used.append("str-after-emptying")
                if dels & u["wrapped"]:
                    explained |= set(FIELDS)
                    used.append("array1-key-not-unwrapped")
                elif "getd" in diff:
                    ga, gb = a.get("getd", "").split(","), b.get("getd", "").split(",")
                    if len(ga) == len(gb) and all(x == y or (i in u["wrapped"] and x == "D") for i, (x, y) in enumerate(zip(ga, gb))):
                        explained.add("getd")
                        used.append("array1-key-not-unwrapped")
                if touched & u["incompat"]:
                    explained |= set(FIELDS)
                    used.append("array-keys-equal-but-hashed-apart")
                if diff <= explained and used:
                    ok = True
                    for fid in used:
                        if not c.known_finding(fid, inp):
                            ok = False
                    if ok:
                        for fid in used:
                            known[fid] = known.get(fid, 0) + 1
                        continue
                prop_fail.append(rec)
            c.coverage["compared"] = n
            c.coverage["histories_compared"] = nhist
            c.coverage["traces_validated_against_impl"] = nhist
    # report: the shortest failing histories first, a few per distinct set of differing fields
    prop_fail.sort(key=lambda r: (r["nops"], len(r["input"])))
    seen = {}
    for r in prop_fail:
        key = (r["input"].split()[1], tuple(r["differing_fields"]))
        seen[key] = seen.get(key, 0) + 1
        if seen[key] == 1 and len(seen) <= 4:
            r["kind"] = "the hash differs from the insertion-ordered map after this history (fields: %s)" % ",".join(r["differing_fields"])
            r["replay"] = "bin/check C14 --replay <this file>; history syntax: mode(A=builtins applied,S=script) universe s<key index>=<value> d<key index>; key i is the i-th token of universe_header"
            r["total_failing_cases"] = len(prop_fail)
            c.violation(r)
    if not prop_fail:
        if corr_fail:
            c.violation({"kind": "correspondence: the implementation differs from the Coq model of hashutils.go (no history violating the specification found)",
                         "cases": corr_fail[:10], "count": len(corr_fail)}, no_input=True, tag="corr")
        elif c.proof_break:
            c.violation({"kind": "proof obligation no longer checks", "detail": c.proof_break}, no_input=True, tag="proof")
    c.coverage["property_failures"] = len(prop_fail)
    c.coverage["correspondence_failures"] = len(corr_fail)
    c.coverage["known_finding_cases"] = known
    c.finish("proof")
