"""C15 — macro templates expand by exact substitution."""
import json
import os

from .common import Check

def joined(cases, mout):
    with open(cases) as f, open(mout) as g:
        for lc, lm in zip(f, g):
            a = lc.rstrip("\n").split("\t")
            b = lm.rstrip("\n").split("\t")
            a += [""] * (3 - len(a))
            b += [""] * (4 - len(b))
            if a[0] != b[0]:
                raise RuntimeError("case/model id mismatch %r %r" % (a[0], b[0]))
            yield a[0], a[1], a[2], b[1], b[2], b[3]


def replay_program(inp, pools):
    """The lines to evaluate in a fresh interpreter to see the failure."""
    f = inp.split("|")
    kind = f[0]
    if kind.startswith("sq:"):
        epoch, _, src = f[1].partition(" ")
        prog = list(pools.get(epoch, []))
        if kind == "sq:rec":
            d, _, call = src.partition(" ;; ")
            prog += [d, call]
        elif kind == "sq:twice":
            prog.append(src)   # c15rec is a host function of the harness: records the value, then updates arrays/hashes in place
        elif kind == "sq:api":
            prog.append("; template built with Go constructors: (syntaxQuote T), T = " + f[3])
        else:
            prog.append(src)
        return prog
    if kind == "mac":
        parts = f[1].split(" ;; ")
        return ["(def g0 11)", "(def gl (list 1 2 3))", "(def a0 3)", "(def w0 40)", "(def w1 50)"] + parts
    if kind == "hist":
        return f[2].split(" ;; ")   # every step is its own evaluation; steps starting with ? are the observations
    if kind == "gen":
        return f[1].split(" ;; ")   # macro definitions, the function with macro calls, the same function with the expansions by hand (compiled, not run)
    if kind == "call":
        return ["(def g0 11)", "(def gl (list 1 2 3))", "(def a0 3)", "(def w0 40)", "(def w1 50)"] + f[3].split(" ;; ") + [f[4]]
    return []


def main(argv):
    c = Check("C15", argv)
    c.proofs()
    c.trusted_base([
        "the code generated for an unquoted expression is abstracted to one step that pushes exactly one value rho(e) or fails (stack discipline of ordinary code is C04); rho is measured by evaluating e on its own",
        "SexpMarker cannot be denoted by program text (it is a Go package variable), so it is a separate kind of stack item in the model",
        "hash construction from the operand list (MakeHash/HashSet) is shared by model and specification (C14's subject); keys exercised are ints, symbols and strings",
        "macro route: the rest of the code generator is a section variable; call sites are compared against the hand-substituted program run by the real interpreter",
        "code generator model (MacroGen): the projection of the bytecode onto scope/control instructions for the fragment begin/let/letseq/newScope/for/cond/def/set/break/continue/calls/self tail calls/macro calls; macro expanders are pure functions of the argument forms; tied by the gen stream against the real bytecode of compiled functions (C04's check_fn checks the same discipline on complete bytecode)",
    ])
    cases = c.harness("c15")
    prop_fail, corr_fail = [], []
    if cases:
        pools = {}
        if os.path.exists(cases + ".pools"):
            pools = json.load(open(cases + ".pools"))
        mout = c.model(cases)
        if mout:
            n = nprop = 0
            for cid, inp, impl, model, spec, flags in joined(cases, mout):
                n += 1
                silent = spec == "-" or spec.startswith("E=- ")
                if not silent:
                    nprop += 1
                if not silent and impl != spec:
                    src = inp.split("|")[1] if "|" in inp else ""
                    ex = "%s => %s (exact substitution: %s)" % (src, impl, spec)
                    if flags == "hash-long-splice" and impl == model and inp.startswith("sq:") and \
                            c.known_finding("hash-splice-reversed", ex):
                        continue
                    prop_fail.append({"input": inp, "implementation": impl, "specification": spec, "model": model,
                                      "replay_program": replay_program(inp, pools)})
                elif impl != model:
                    corr_fail.append({"input": inp, "implementation": impl, "model": model, "specification": spec,
                                      "replay_program": replay_program(inp, pools)})
            c.coverage["compared"] = n
            c.coverage["compared_against_specification"] = nprop
            c.coverage["traces_validated_against_impl"] = n
    # minimise: report the shortest failing inputs, one per kind/route
    prop_fail.sort(key=lambda f: (sum(len(x) for x in f["replay_program"]) if f["input"].startswith("hist|")
                                  else (len(f["replay_program"][-1]) if f["replay_program"] else 0), len(f["input"])))
    seen = set()
    for f in prop_fail:
        key = f["input"].split("|")[0]
        if key.startswith("call"):
            key = "call:" + f["input"].split("|")[2]
        if key == "sq:twice":
            key += ":" + f["implementation"].split(" ")[0]
        if key in seen or len(seen) >= 6:
            continue
        seen.add(key)
        f["kind"] = "the real interpreter's value differs from exact substitution (Coq: subst / elems)"
        f["replay"] = "evaluate the lines of replay_program in one fresh interpreter (bin/check C15 --replay <this file>)"
        f["failing_cases_total"] = len(prop_fail)
        c.violation(f)
    if not prop_fail:
        if corr_fail:
            corr_fail.sort(key=lambda f: len(f["input"]))
            c.violation({"kind": "correspondence: implementation differs from the Coq model gen_sq/run (no case violating the specification found)",
                         "cases": corr_fail[:10], "count": len(corr_fail)}, no_input=True, tag="corr")
        elif c.proof_break:
            c.violation({"kind": "proof obligation no longer checks", "detail": c.proof_break}, no_input=True, tag="proof")
    c.coverage["property_failures"] = len(prop_fail)
    c.coverage["correspondence_failures"] = len(corr_fail)
    c.finish("proof")
