"""C16 — lazy (#) parameters delay, memoise and stay lexical; strict ones do not."""
import os
import re

from . import common
from .common import Check


def dec(s):
    return s.replace("<", "(").replace(">", ")").replace("_", " ")


def parse_input(inp):
    """-> (oracle string or None, rest of the input)"""
    orc = None
    toks = inp.split(" ")
    i = 0
    while i < len(toks) and "=" in toks[i] and not toks[i].startswith("("):
        if toks[i].startswith("oracle="):
            v = toks[i][7:]
            orc = None if v == "-" else v
        i += 1
    return orc, " ".join(toks[i:])


def split_obs(obs):
    """-> (kind 'V'/'E'/other, value-or-class, trace list)"""
    if obs[:2] in ("V:", "E:"):
        head, _, tr = obs.partition("|T:")
        return obs[0], head[2:], [t for t in tr.split(";") if t != ""]
    return obs, "", []


def oracle_check(orc, impl):
    """The statement of the property as an executable check of the implementation's own observable.
    orc: ';'-separated constraints
       once:m,..   each marker occurs exactly once in the trace
       zero:m,..   never
       max1:m,..   at most once
       order:a<b<c first occurrences in this order
       trace:a,b,. the whole trace
       val:V       the value (encoded)
       err / noerr the evaluation ends in an error / in a value
    Returns None when satisfied, else a description."""
    kind, val, tr = split_obs(impl)
    if kind not in ("V", "E"):
        return None  # budget etc.: inconclusive
    for c in orc.split(";"):
        k, _, arg = c.partition(":")
        if k == "once":
            for m in arg.split(","):
                if tr.count(m) != 1:
                    return "argument effect %s occurs %d times, must occur exactly once" % (m, tr.count(m))
        elif k == "zero":
            for m in arg.split(","):
                if tr.count(m) != 0:
                    return "effect %s occurs %d times, must not occur (lazy argument never forced / strict call never reached / wrong environment)" % (m, tr.count(m))
        elif k == "max1":
            for m in arg.split(","):
                if tr.count(m) > 1:
                    return "effect %s of a lazy argument occurs %d times, at most once allowed" % (m, tr.count(m))
        elif k == "order":
            ms = arg.split("<")
            pos = [tr.index(m) if m in tr else None for m in ms]
            last = -1
            for m, p in zip(ms, pos):
                if p is None:
                    continue
                if p < last:
                    return "effect %s is out of order (%s)" % (m, arg)
                last = p
        elif k == "trace":
            want = [t for t in arg.split(",") if t]
            if kind == "V" and tr != want:
                return "trace of argument effects is %s, the property demands %s" % (";".join(tr), ";".join(want))
        elif k == "val":
            if kind == "V" and val != dec(arg):
                return "value is %s, the property demands %s" % (val, dec(arg))
        elif k == "err":
            if kind != "E":
                return "evaluation produced a value although a strict / forced argument fails"
        elif k == "noerr":
            if kind != "V":
                return "evaluation failed (%s) although every failing argument is lazy and never forced" % val
    return None


# ---------------------------------------------------------------- known findings (narrow classifiers)

_DEFN = re.compile(r"\(defn (\S+) \(([^)]*)\)")


def _span_end(s, i):
    """index just after the parenthesis that closes the one opening at s[i]"""
    d = 0
    for j in range(i, len(s)):
        if s[j] == "(":
            d += 1
        elif s[j] == ")":
            d -= 1
            if d == 0:
                return j + 1
    return len(s)


def is_tail_known_fn(inp):
    """a defn NAME NESTED INSIDE THE BODY of a defn of the same NAME whose formals differ in laziness,
    and a call of NAME (the self tail call jumps into the enclosing function but decides laziness from
    the function most recently defined under the name in the same compile unit).  A re-definition at
    the same level (e.g. in a later evaluation) does NOT qualify."""
    for m in _DEFN.finditer(inp):
        n1, p1 = m.group(1), m.group(2)
        end = _span_end(inp, m.start())
        body = inp[m.end():end]
        for m2 in _DEFN.finditer(body):
            if m2.group(1) == n1:
                f1 = [x.startswith("#") for x in p1.split()]
                f2 = [x.startswith("#") for x in m2.group(2).split()]
                if f1 != f2 and ("(call (var %s)" % n1) in body:
                    return True
    return False


def is_reentrant_force(inp, impl, model):
    """the faithful model shows the same duplicate evaluation, and the program stores a thunk in an
    array and forces what it reads back from an array"""
    return (impl == model and re.search(r"\(call \(var aset\) [^#]*\(var #", inp) is not None
            and "(call (var force) (call (var aget)" in inp)


def main(argv):
    from .refsem import unesc, conclusive, same_obs
    import json
    c = Check("C16", argv)
    c.proofs()
    c.trusted_base([
        "the spec-level oracle of the grid (expected trace / value / error-ness written down in harness/cmd/c16/grid.go from the construction of each program, evaluated by checks/c16.py:oracle_check)",
        "harness/refgen (rendering of one program as real source and as the prefix form read by the model runner; canonical rendering of values; error classes read off the error text)",
        "typed func declarations are obtained by rewriting the rendered defn text (harness/cmd/c16/main.go:typedSource)",
    ])
    c.assumptions += [
        "Model/RefSemLazy.v restricted to programs without lazy formals is RefSem.v (copied, restructured around liftC/on_result); not proved, covered by the correspondence run on the random stream",
        "the self tail call route (generator.go:GenerateCallBySymbol / GenerateCallArgsForFunction / PushLazyArgInstr) is modelled APART from the evaluator (RefSemLazy.v: tail_prep_args, self_tail_call, call_by_symbol) and proved to hand the body what the ordinary call route does when the function known under the name is the function being run (self_tail_route_is_call_route); that the generator's known function is that function is not proved (the finding tail-known-fn and the repaired typed-tail-eager, fix 8d8e16d, are its failures) and is tied by the correspondence run of the selftail / redef-selftail / typed-selftail grid routes and the random stream",
    ]
    rc, out, model_exe = common.build_ocaml("C16")
    if rc != 0:
        c.log("extraction/ocaml build failed:\n" + out[-3000:])
        c.proof_break = c.proof_break or {"kind": "extraction-failed", "log": out[-2000:]}
    cases = c.harness("c16") if rc == 0 else None
    if cases and c.replay_in:
        print(getattr(c, "harness_log", ""), flush=True)
    spec_fail, corr_fail, panics = [], [], []
    n = agree = inconcl = unspec = with_oracle = oracle_ok = 0
    if cases:
        mout = c.model(cases)
        if mout:
            with open(cases) as f, open(mout) as g:
                for lc, lm in zip(f, g):
                    a = lc.rstrip("\n").split("\t")
                    b = lm.rstrip("\n").split("\t")
                    if a[0] != b[0]:
                        raise RuntimeError("case/model id mismatch %r %r" % (a[0], b[0]))
                    cid, inp, impl, src = int(a[0]), a[1], a[2], unesc(a[3]) if len(a) > 3 else ""
                    model = b[1]
                    n += 1
                    orc, _ = parse_input(inp)
                    rec = {"id": cid, "source": src, "input": inp, "implementation": impl, "model": model,
                           "failat": int(re.search(r"failat=(\d+)", inp).group(1)) if "failat=" in inp else 0}
                    if impl.startswith("PANIC"):
                        panics.append(rec)
                        continue
                    if model == "UNSPEC":
                        unspec += 1
                    why = None
                    if orc:
                        with_oracle += 1
                        why = oracle_check(orc, impl)
                        if why:
                            rec["why"] = why
                            rec["oracle"] = orc
                            spec_fail.append(rec)
                        else:
                            oracle_ok += 1
                    if impl == "BUDGET" and conclusive(model):
                        if not why:
                            corr_fail.append(rec)
                        continue
                    if not (conclusive(impl) and conclusive(model)):
                        inconcl += 1
                        continue
                    if same_obs(impl, model)[0]:
                        agree += 1
                    elif not why:
                        corr_fail.append(rec)
    # conservativity over the shared reference evaluator, as a TEST (the theorem is not proved, see
    # docs/C16.md): on every generated program without lazy formals / force / substitute the extracted
    # RefSemLazy.v and the extracted RefSem.v (the specification of C02/C03) must print the same outcome
    cons_n = cons_bad = 0
    cons_examples = []
    if cases and mout:
        rcr, outr, refsem_exe = common.build_ocaml("RefSem")
        if rcr == 0:
            sub = os.path.join(common.BUILD, "C16.strict.cases")
            keep = {}
            with open(cases) as f, open(sub, "w") as w:
                for lc in f:
                    a = lc.rstrip("\n").split("\t")
                    if "#" in a[1].split(" ", 1)[-1] or "(var force)" in a[1] or "(var substitute)" in a[1]:
                        continue
                    w.write(a[0] + "\t" + a[1] + "\n")
                    keep[a[0]] = a[1]
            rout = os.path.join(common.BUILD, "C16.strict.refsem")
            rcm, err = common.run_model(refsem_exe, sub, rout)
            if rcm == 0:
                lazy_out = {}
                with open(mout) as g:
                    for lm in g:
                        b = lm.rstrip("\n").split("\t")
                        if b[0] in keep:
                            lazy_out[b[0]] = b[1]
                with open(rout) as g:
                    for lm in g:
                        b = lm.rstrip("\n").split("\t")
                        cons_n += 1
                        if lazy_out.get(b[0]) != b[1]:
                            cons_bad += 1
                            if len(cons_examples) < 5:
                                cons_examples.append({"input": keep[b[0]], "RefSemLazy": lazy_out.get(b[0]), "RefSem": b[1]})
            else:
                c.log("RefSem runner failed: " + err)
        else:
            c.log("RefSem runner build failed")
    c.coverage["strict_programs_compared_with_RefSem"] = cons_n
    c.coverage["strict_programs_RefSemLazy_differs_from_RefSem"] = cons_bad
    c.coverage["compared"] = n
    c.coverage["agree_with_model"] = agree
    c.coverage["cases_with_oracle"] = with_oracle
    c.coverage["oracle_satisfied"] = oracle_ok
    c.coverage["inconclusive_budget_or_fuel_or_unspecified"] = inconcl
    c.coverage["model_declined_unspecified"] = unspec
    c.coverage["traces_validated_against_impl"] = agree
    c.coverage["oracle_failures"] = len(spec_fail)
    c.coverage["model_disagreements"] = len(corr_fail)

    violations = 0
    for p in panics[:3]:
        p["kind"] = "the interpreter panicked on a program with lazy formals"
        p["replay"] = "bin/check C16 --replay <this file>"
        c.violation(p)
        violations += 1

    # confirm in a fresh interpreter + minimise the smallest failures of each kind
    spec_fail.sort(key=lambda r: len(r["source"]))
    corr_fail.sort(key=lambda r: len(r["source"]))
    chosen = spec_fail[:8] + corr_fail[:8]
    by_id = {}
    if chosen and rc == 0:
        shr = os.path.join(common.BUILD, "C16.shrunk")
        exe = os.path.join(common.BUILD, "c16")
        args = [exe, "--seed", str(c.seed), "--tier", c.tier, "--out", shr, "--stats", shr + ".stats",
                "--shrink", ",".join(str(r["id"]) for r in chosen), "--model", model_exe]
        rc2, out2 = common.sh(args, cwd=common.BUILD, timeout=1200, env=common.env_go())
        if rc2 == 0 and os.path.exists(shr):
            for line in open(shr):
                line = line.strip()
                if line:
                    r = json.loads(line)
                    by_id[r["id"]] = r
        else:
            c.log("shrink run failed rc=%s: %s" % (rc2, out2[-1000:]))

    # 1. property failures: the implementation's own trace / value violates the statement of the property
    seen = set()
    not_repro = 0
    for r in spec_fail:
        fr = by_id.get(r["id"])
        if fr is not None:
            # the fresh-interpreter observable of the ORIGINAL program decides
            impl_fresh = fr["implementation"] if not fr.get("minimised") else None
            if impl_fresh is not None and oracle_check(r["oracle"], impl_fresh) is None:
                not_repro += 1
                continue
        if is_tail_known_fn(r["input"]) and not same_obs(r["implementation"], r["model"])[0] and c.known_finding("tail-known-fn", r["source"]):
            continue
        if is_reentrant_force(r["input"], r["implementation"], r["model"]) and c.known_finding("reentrant-force", r["source"]):
            continue
        key = r["why"][:40]
        violations += 1
        if key in seen or len(seen) >= 4:
            continue
        seen.add(key)
        r["kind"] = "the implementation's own observable violates the statement of the property: " + r["why"]
        r["specification"] = dec(r["oracle"])
        r["replay"] = "bin/check C16 --replay <this file>   (evaluates \"source\" in a fresh interpreter; compare the trace with \"specification\")"
        c.violation(r)

    # 2. disagreements with the reference evaluator (the model is also the reference semantics of laziness)
    lazy_viol = other = 0
    for r in corr_fail:
        fr = by_id.get(r["id"])
        if fr is not None:
            if same_obs(fr["implementation"], fr["model"])[0] or not (conclusive(fr["implementation"]) and conclusive(fr["model"])):
                not_repro += 1
                continue
            r = dict(r, **{k: fr[k] for k in ("source", "input", "implementation", "model", "failat", "minimised") if k in fr})
        if is_tail_known_fn(r["input"]) and c.known_finding("tail-known-fn", r["source"]):
            continue
        if "#" in r["source"]:
            lazy_viol += 1
            violations += 1
            if lazy_viol <= 3 and not seen:
                r["kind"] = ("the real interpreter and the reference evaluator with lazy formals (eval_program of RefSemLazy.v) disagree on "
                             "value / error class / trace of argument effects")
                r["specification"] = r["model"]
                r["replay"] = "bin/check C16 --replay <this file>"
                c.violation(r)
        else:
            other += 1
    c.coverage["disagreements_not_reproduced_in_fresh_interpreter"] = not_repro
    if violations and not c.violations:
        # everything found was a duplicate of something already reported: still a failure
        c.violation({"kind": "further failures of the same kinds", "count": violations})
    if not violations and cons_bad:
        c.violation({"kind": "RefSemLazy.v and the shared RefSem.v (specification of C02/C03) differ on programs without lazy formals: the copy is no longer a conservative extension (no input violating C16 found)",
                     "cases": cons_examples, "count": cons_bad}, no_input=True, tag="cons")
    elif not violations:
        if other:
            c.violation({"kind": "correspondence: the real interpreter and RefSemLazy.v disagree on programs WITHOUT lazy formals (the tie of the model is broken outside this property's subject; no input violating C16 found)",
                         "cases": corr_fail[:5], "count": other}, no_input=True, tag="corr")
        elif c.proof_break:
            c.violation({"kind": "proof obligation / extraction no longer checks", "detail": c.proof_break}, no_input=True, tag="proof")
    c.coverage["property_failures"] = violations
    c.finish("proof")
