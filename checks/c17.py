"""C17 — declared struct types are enforced on every write.

Per history and per step the harness observes  <K|E|P>:<dump of registry entries and every instance>.
The runner gives the same for the Coq model of the code (correspondence) and, computed from the model's
pre-state, the verdict of the specification:  K:<dump> (may be accepted, then exactly this state) or
E<reason> (must be rejected: an error and nothing changes).  Over-rejection is not a failure of C17.
"""
import json
import os
import re

from . import common
from .common import Check, iter_joined

FINDINGS = ("instance-type-by-name", "late-adoption", "clonefrom-aliasing")


def split_obs(s):
    return s.split(" | ") if s else []


def split_ops(h, keep_z=False):
    """steps of a history; 'Z k' (naming scheme of the harness, no observation) is dropped unless keep_z"""
    return [x.strip() for x in h.split(";") if x.strip() and (keep_z or not x.strip().startswith("Z"))]


def insts(dump):
    """'R[..] v0=0/d0{..} v1=..' -> (registry text, {id: text})"""
    parts = dump.split(" v")
    reg = parts[0]
    d = {}
    for p in parts[1:]:
        m = re.match(r"(\d+)=(.*)$", p)
        if m:
            d[int(m.group(1))] = m.group(2)
    return reg, d


def norm(dump):
    """drop the identities of registry entries and of the instances' definitions"""
    return re.sub(r"=(\d+)/\w+\{", r"=\1/{", re.sub(r"R\[[^\]]*\]", "R[]", dump))


def target_of(op, ptrs=None):
    t = op.split()
    if t[0] == "W":
        return int(t[2])
    if t[0] in ("N", "X", "R"):
        return int(t[1])
    if t[0] == "S" and ptrs is not None:
        return ptrs.get(int(t[1]))
    return None


KNOWN = set(common.read_known_findings().get("C17", {}))


def analyse(hist, impl, model, spec):
    """-> list of events: dict(kind='prop'|'corr', step, finding or None, detail)"""
    ev, stats = analyse0(hist, impl, model, spec)
    for e in ev:
        if e.get("finding") and e["finding"] not in KNOWN:
            e["unlisted_finding"] = e["finding"]
            e["finding"] = None
    return ev, stats


def analyse0(hist, impl, model, spec):
    ops = split_ops(hist)
    si, sm, ss = split_obs(impl), split_obs(model), split_obs(spec)
    ev = []
    stats = {"steps": 0, "checked": 0}
    if not (len(si) == len(sm) == len(ss) == len(ops)):
        ev.append({"kind": "corr", "step": 0, "finding": None, "detail": "observation lengths differ: ops=%d impl=%d model=%d spec=%d" % (len(ops), len(si), len(sm), len(ss))})
        return ev, stats
    prev = "R[]"
    links = set()      # pairs of instances joined by an accepted derefSet copy
    ptrs = {}          # p<pid> -> target instance
    decl_diverged = False
    corr_seen = False
    for k, op in enumerate(ops):
        ik, mk, sk = si[k], sm[k], ss[k]
        t = op.split()
        stats["steps"] += 1
        io, idump = ik[0], ik[2:]
        fail = None
        finding = None
        if t[0][0] != "D":
            stats["checked"] += 1
            tgt = target_of(op, ptrs)
            if io == "P":
                fail = "a Go panic escaped the interpreter instead of an error being reported"
            elif io == "K":
                if sk.startswith("E"):
                    fail = "accepted although the specification demands a rejection (%s)" % sk[1:]
                    # a listed finding only when the model of the UNCHANGED code predicts this very step
                    # (mk == ik): an acceptance the unchanged code does not show is a violation
                    if sk == "Estale" and mk == ik:
                        finding = "instance-type-by-name"
                elif (norm(sk[2:]) != norm(idump)) if decl_diverged else (sk[2:] != idump):
                    fail = "accepted, but the resulting state is not the one the specification allows"
                    _, a = insts(idump)
                    _, b = insts(sk[2:])
                    diff = [i for i in set(a) | set(b) if a.get(i) != b.get(i)]
                    if diff and tgt is not None and all(i != tgt and ((i, tgt) in links or (tgt, i) in links) for i in diff):
                        finding = "clonefrom-aliasing"
                    elif diff and all(i in a and i in b and re.sub(r"^(\d+)/\w+", r"\1/", a[i]) == re.sub(r"^(\d+)/\w+", r"\1/", b[i])
                                      and re.match(r"\d+/b\d+", b[i]) for i in diff) and mk == ik:
                        finding = "late-adoption"
            elif io == "E":
                if idump != prev:
                    fail = "rejected with an error, but the state changed"
                    _, a = insts(idump)
                    _, b = insts(prev)
                    diff = [i for i in set(a) | set(b) if a.get(i) != b.get(i)]
                    if diff and all(i in a and i in b and re.sub(r"^(\d+)/\w+", r"\1/", a[i]) == re.sub(r"^(\d+)/\w+", r"\1/", b[i])
                                    and re.match(r"\d+/b\d+", b[i]) for i in diff) and mk == ik:
                        finding = "late-adoption"
            else:
                fail = "step budget exhausted"
        if fail:
            ev.append({"kind": "prop", "step": k, "finding": finding, "detail": fail, "op": op, "implementation": ik, "specification": sk, "model": mk})
        if ik != mk:
            if not (fail and finding == "clonefrom-aliasing" and finding in KNOWN):
                ev.append({"kind": "corr", "step": k, "finding": None, "detail": "implementation and model differ", "op": op, "implementation": ik, "model": mk})
            if t[0][0] == "D" and io in "KE" and mk[0] in "KE" and not corr_seen:
                # a declaration that took effect differently than modelled: keep going, judging the following
                # steps by the specification evaluated in the MODEL's state (the declared semantics); identities
                # of definitions are ignored from here on, instance contents and verdicts still count
                decl_diverged = True
                corr_seen = True
                prev = idump
                continue
            break          # later steps start from different states
        if t[0] == "R" and io == "K" and t[2].startswith("@"):
            links.add((int(t[1]), int(t[2][1:])))
        if t[0] == "P" and io == "K":
            ptrs[int(t[1])] = int(t[2])
        if t[0] == "S" and io == "K" and t[2].startswith("@") and int(t[1]) in ptrs:
            links.add((ptrs[int(t[1])], int(t[2][1:])))
        prev = idump
    return ev, stats


class Runner:
    """evaluate extra histories (shrinking) through the harness in replay mode + the model runner"""

    def __init__(self, c, exe_go, exe_ml):
        self.c, self.exe_go, self.exe_ml = c, exe_go, exe_ml
        self.n = 0

    def run(self, hists):
        self.n += 1
        base = os.path.join(common.BUILD, "C17.shrink")
        with open(base + ".in", "w") as f:
            for h in hists:
                f.write(h + "\n")
        rc, out = common.sh([self.exe_go, "--replay", base + ".in", "--out", base + ".cases", "--stats", base + ".stats"],
                            cwd=common.BUILD, timeout=300, env=common.env_go())
        if rc != 0:
            return None
        rc, err = common.run_model(self.exe_ml, base + ".cases", base + ".model")
        if rc != 0:
            return None
        return [analyse(inp, impl, model, spec)[0] for _, inp, impl, model, spec in iter_joined(base + ".cases", base + ".model")]


def signature(ev):
    """what must be preserved while shrinking: the first unclassified property failure, else the first correspondence failure"""
    for e in ev:
        if e["kind"] == "prop" and e["finding"] is None:
            return ("prop", e["detail"])
    for e in ev:
        if e["kind"] == "corr":
            return ("corr", "")
    return None


def shrink(runner, hist, sig):
    ops = split_ops(hist, keep_z=True)
    changed = True
    rounds = 0
    while changed and len(ops) > 1 and rounds < 40:
        changed = False
        rounds += 1
        cands = [ops[:i] + ops[i + 1:] for i in range(len(ops))]
        res = runner.run([" ; ".join(c) for c in cands])
        if res is None:
            break
        # prefer deleting late steps first (keeps declarations)
        for i in reversed(range(len(cands))):
            if signature(res[i]) == sig:
                ops = cands[i]
                changed = True
                break
    return " ; ".join(ops)


def main(argv):
    c = Check("C17", argv)
    # census of every site of /repo that can change what a record holds (calls of HashSet, direct writes of
    # SexpHash.Map / bucket pairs / GoStructFactory / TypeName, SexpHash literals) + the shape of HashSet itself:
    # regenerated from the current source; Properties/C17.v proves every site covered (C17_every_write_site_covered)
    rc, tlog = common.translate("writeroutes", "WriteRoutes.v")
    translator_break = None
    if rc != 0:
        translator_break = tlog[-1500:]
        c.log("translator writeroutes failed:\n" + tlog[-1500:])
    else:
        try:
            gen = open(os.path.join(common.COQ, "Generated", "WriteRoutes.v")).read()
            c.coverage["write_sites_enumerated"] = gen.count("\n  ([")
            c.coverage["write_sites_calls_of_HashSet"] = gen.count(", SCallHashSet)")
        except OSError:
            pass
    c.proofs()
    c.trusted_base([
        "translator/cmd/writeroutes (go/types census of HashSet calls and direct writers of SexpHash; bucket aliases are followed inside one function only, a pair obtained through a helper function is not seen)",
        "struct names, variables and field names are rendered by the harness (T<s>_<n>, v<id>, f<k>); values are a finite family of literals (docs/C17.md)",
        "the harness resets the user part of the process-global type registry between histories (exported maps), so each history sees a fresh process",
        "CloneFrom is modelled as a copy of the field map; the real one shares the bucket arrays (finding clonefrom-aliasing), so histories stop being compared after that finding shows",
        "hash collisions between distinct keys and in-place mutation of an array after it was stored in a field are not modelled",
    ])
    cases = c.harness("c17")
    prop_fail, corr_fail, known = [], [], {}
    totals = {"steps": 0, "checked": 0, "histories": 0}
    runner = None
    if cases:
        mout = c.model(cases)
        if mout:
            exe_ml = os.path.join(common.BUILD, "ocaml", "c17", "run")
            runner = Runner(c, os.path.join(common.BUILD, "c17"), exe_ml)
            for cid, inp, impl, model, spec in iter_joined(cases, mout):
                ev, st = analyse(inp, impl, model, spec)
                totals["histories"] += 1
                totals["steps"] += st["steps"]
                totals["checked"] += st["checked"]
                for e in ev:
                    e["history"] = inp
                    e["case"] = cid
                    if e["kind"] == "prop" and e["finding"] and c.known_finding(e["finding"], "%s @ step %d: %s" % (inp, e["step"], e["op"])):
                        known[e["finding"]] = known.get(e["finding"], 0) + 1
                    elif e["kind"] == "prop":
                        prop_fail.append(e)
                    else:
                        corr_fail.append(e)
    c.coverage["histories"] = totals["histories"]
    c.coverage["steps_compared"] = totals["steps"]
    c.coverage["write_steps_checked_against_spec"] = totals["checked"]
    c.coverage["traces_validated_against_impl"] = totals["histories"]
    c.coverage["property_failures"] = len(prop_fail)
    c.coverage["correspondence_failures"] = len(corr_fail)
    c.coverage["known_finding_steps"] = known

    reported = set()
    for e in prop_fail:
        key = (e["detail"], e["op"].split()[0], e["specification"][:6])
        if key in reported or len(reported) >= 4:
            continue
        reported.add(key)
        small = e["history"]
        if runner and not c.replay_in:
            small = shrink(runner, e["history"], ("prop", e["detail"]))
            res = runner.run([small])
            if res and res[0]:
                for x in res[0]:
                    if x["kind"] == "prop" and x["finding"] is None:
                        e = dict(x, case=e["case"], original_history=e["history"])
                        break
        e["history"] = small
        e["kind"] = "property failure: " + e["detail"]
        e["replay"] = "bin/check C17 --replay <this file>  (the harness re-runs the history step by step; grammar in docs/C17.md)"
        c.violation(e)
    if not prop_fail:
        if corr_fail:
            e = corr_fail[0]
            small = e["history"]
            if runner and not c.replay_in:
                small = shrink(runner, e["history"], ("corr", ""))
            c.violation({"kind": "correspondence: the implementation differs from the Coq model step/TypeCheckField/HashSet (no step violating the specification found)",
                         "history": small, "first": {k: e[k] for k in ("step", "op", "implementation", "model")},
                         "count": len(corr_fail)}, no_input=True, tag="corr")
        elif translator_break:
            c.violation({"kind": "translator writeroutes no longer understands zygo/*.go (census of write routes not generated)",
                         "detail": translator_break}, no_input=True, tag="translator")
        elif c.proof_break:
            c.violation({"kind": "proof obligation no longer checks (if it is C17_every_write_site_covered / C17_hashset_checks_first: "
                                 "a new site writes a record without going through HashSet/TypeCheckField, see coq/Generated/WriteRoutes.v)",
                         "detail": c.proof_break}, no_input=True, tag="proof")
    c.finish("proof")
