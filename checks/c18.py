"""C18 — package members are private unless capitalised."""
from . import common
from .common import Check, iter_joined

COARSE = {"NFSYM": "NF", "NFPKG": "NF", "NFHASH": "NF", "NOTPKG": "NOTREC"}


def coarse(obs):
    """Error classes of the implementation/model projected on the verdicts of the specification."""
    return "|".join(COARSE.get(x, x) for x in obs.split("|"))


def split_input(inp):
    enc, _, src = inp.partition(" ## ")
    return enc, src


def main(argv):
    c = Check("C18", argv)
    # (T) census of every route into the dot-path code (calls of dotGetSetHelper / nestedPathGetSet / errIfPrivate),
    # regenerated from the current source; theorems census_is_modelled, walkers_as_modelled,
    # privacy_checked_only_in_package_walker (vm_compute) say it is exactly what Model/PkgRoutes.v covers
    rc, tout = common.translate("pkgroutes", "PkgRoutes.v")
    routes_break = None
    if rc != 0:
        routes_break = tout[-2000:]
        c.log("translator pkgroutes failed:\n" + tout[-1500:])
    c.proofs()
    c.trusted_base([
        "unicode.IsUpper is a section variable of the Coq development; the harness supplies its value for every first rune it uses",
        "the harness renders declarations to zygomys source text and classifies error texts by the stable substrings "
        "'Cannot access private member', 'could not find symbol', 'hash has no field', 'not found', 'not a record'",
        "translator/cmd/pkgroutes recognises the call sites syntactically (dotGetSetHelper(env, <sym>.name, nil|&x), "
        "<recv>.nestedPathGetSet(env, path|path[1:]|dotpaths[i+1:], nil|&x|setVal), errIfPrivate(curSym.name, curStack) under the three hop conditions)",
        "the surrounding code of each route (what a builtin, a call, the generator of compound assignments does with the helper's result) "
        "is modelled by hand in Model/PkgRoutes.v route_run and validated by the correspondence run",
        "model of package construction (build_world) and of the inside route (lexical_lookup: parameters, then captured scopes) "
        "is validated by the correspondence run, not derived from the Go source",
    ])
    c.assumptions += [
        "packages are built at top level or inside package bodies (no package created inside a function body)",
    ]
    cases = c.harness("c18")
    if c.replay_in:
        print(getattr(c, "harness_log", ""))
        c.finish("proof")
    prop_fail, corr_fail = [], []
    worlds = {}
    if cases:
        mout = c.model(cases)
        if mout:
            n = 0
            for cid, inp, impl, model, spec in iter_joined(cases, mout):
                enc, src = split_input(inp)
                toks = enc.split(" ", 2)
                if toks[0] == "D":
                    worlds[toks[1]] = (enc, src)
                    if impl != model:
                        corr_fail.append({"input": src, "implementation": impl, "model": model, "note": "world construction"})
                    continue
                n += 1
                wenc, wsrc = worlds.get(toks[1], ("", ""))
                full_src = wsrc + " ;; " + src
                if spec != "-" and coarse(impl) != spec:
                    io, so = coarse(impl).split("|"), spec.split("|")
                    k = next((i for i in range(min(len(io), len(so))) if io[i] != so[i]), 0)
                    prop_fail.append({"source": full_src, "implementation": impl, "specification": spec, "model": model,
                                      "first_differing_op": k})
                elif impl != model:
                    corr_fail.append({"source": full_src, "implementation": impl, "model": model, "specification": spec})
            c.coverage["compared"] = n
            c.coverage["traces_validated_against_impl"] = n
    # property failures: shortest source first (no known finding is registered for C18)
    prop_fail.sort(key=lambda f: len(f["source"]))
    reported = 0
    unknown = 0
    for f in prop_fail:
        unknown += 1
        if reported < 5:
            reported += 1
            f["kind"] = "implementation differs from the visibility specification (PkgSpec.visible / spec_op)"
            f["replay"] = "evaluate the texts of 'source' (separated by ' ;; ') in one fresh interpreter; observables: " \
                          "I<int> H{..} F:<fn> P:<pkg> PRIV:<member>:<pkg> NF NOTREC; bin/check C18 --replay <this file>"
            c.violation(f)
    if not unknown:
        if corr_fail:
            c.violation({"kind": "correspondence: implementation differs from the Coq model (dot_get_set / stack_walk / hash_walk / "
                                 "call_path / build_world); no case violating the specification found",
                         "cases": corr_fail[:10], "count": len(corr_fail)}, no_input=True, tag="corr")
        elif routes_break:
            c.violation({"kind": "translator pkgroutes no longer understands the source: a call of dotGetSetHelper / nestedPathGetSet / "
                                 "errIfPrivate has a shape outside the modelled routes (argument is not the whole symbol name, unknown "
                                 "path slice or value argument, privacy check under an unknown condition)", "detail": routes_break},
                        no_input=True, tag="routes")
        elif c.proof_break:
            c.violation({"kind": "proof obligation no longer checks (census_is_modelled / walkers_as_modelled / "
                                 "privacy_checked_only_in_package_walker break when the source gains, loses or changes a route)",
                         "detail": c.proof_break}, no_input=True, tag="proof")
    c.coverage["property_failures"] = len(prop_fail)
    c.coverage["property_failures_not_known"] = unknown
    c.coverage["correspondence_failures"] = len(corr_fail)
    c.finish("proof")
