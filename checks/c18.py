"""C18 — package members are private unless capitalised."""
import re

from .common import Check, iter_joined

COARSE = {"NFSYM": "NF", "NFPKG": "NF", "NFHASH": "NF", "NOTPKG": "NOTREC"}


def coarse(obs):
    """Error classes of the implementation/model projected on the verdicts of the specification."""
    return "|".join(COARSE.get(x, x) for x in obs.split("|"))


def split_input(inp):
    enc, _, src = inp.partition(" ## ")
    return enc, src


def hash_holds_package_deeper(enc, world_enc, k):
    """Narrow classifier of finding hash-pkg-dotpaths1: the k-th op walks a path that reaches a package
    stored in a hash which is itself stored in a hash reached by the same hash walk (two or more
    hash hops, then a package, then at least one more part)."""
    toks = enc.split()
    # ops start after "O n"
    i = toks.index("O") + 2
    ops = []
    while i < len(toks):
        kind = toks[i]
        if kind == "g" or kind == "s":
            n = int(toks[i + 2]); path = toks[i + 3:i + 3 + n]; i = i + 3 + n + (1 if kind == "s" else 0)
        elif kind == "c":
            n = int(toks[i + 1]); path = toks[i + 2:i + 2 + n]; na = int(toks[i + 2 + n]); i = i + 3 + n + na
        else:
            return False
        ops.append(path)
    if k >= len(ops):
        return False
    path = ops[k]
    # resolve the path against the world declaration: count consecutive hash hops before a package hop
    decl = parse_world(world_enc)
    if decl is None:
        return False
    cur = ("G", decl)   # global scope
    hdepth = 0
    for idx, part in enumerate(path):
        kind, body = cur
        nxt = None
        if kind in ("G", "P", "H"):
            for name, d in body:
                if name == part:
                    nxt = d
        if nxt is None:
            return False
        nxt = deref(nxt, decl)
        if nxt is None:
            return False
        if kind == "H" and nxt[0] == "P":
            if hdepth >= 2 and idx < len(path) - 1:
                return True
            hdepth = 0
        elif kind == "H" and nxt[0] == "H":
            pass
        if nxt[0] == "H":
            hdepth += 1
        else:
            hdepth = 0
        cur = nxt
    return False


def deref(d, glob):
    seen = 0
    while d is not None and d[0] == "R" and seen < 10:
        seen += 1
        path = d[1]
        cur = ("G", glob)
        for part in path:
            nxt = None
            if cur[0] in ("G", "P", "H"):
                for name, dd in cur[1]:
                    if name == part:
                        nxt = dd
            if nxt is None:
                return None
            cur = nxt
        d = cur
    return d


def parse_world(enc):
    """Declaration tree of a world line (D key U.. W..): list of (name, decl); decl = (kind, payload)."""
    toks = enc.split()
    try:
        pos = [toks.index("W") + 1]
    except ValueError:
        return None

    def nxt():
        t = toks[pos[0]]; pos[0] += 1; return t

    def names():
        n = int(nxt()); return [nxt() for _ in range(n)]

    def decl():
        k = nxt()
        if k == "I":
            nxt(); return ("I", None)
        if k == "F":
            names(); b = nxt()
            if b in ("G", "S"):
                nxt()
            else:
                names()
            return ("F", None)
        if k == "H":
            n = int(nxt()); return ("H", [(nxt(), decl()) for _ in range(n)])
        if k == "P":
            nxt(); n = int(nxt()); return ("P", [(nxt(), decl()) for _ in range(n)])
        if k == "R":
            return ("R", names())
        raise ValueError(k)

    try:
        n = int(nxt())
        return [(nxt(), decl()) for _ in range(n)]
    except (ValueError, IndexError):
        return None


def main(argv):
    c = Check("C18", argv)
    c.proofs()
    c.trusted_base([
        "unicode.IsUpper is a section variable of the Coq development; the harness supplies its value for every first rune it uses",
        "the harness renders declarations to zygomys source text and classifies error texts by the stable substrings "
        "'Cannot access private member', 'could not find symbol', 'hash has no field', 'not found', 'not a record'",
        "model of package construction (build_world) and of the inside route (lexical_lookup: parameters, then captured scopes) "
        "is validated by the correspondence run, not derived from the Go source",
    ])
    c.assumptions += [
        "packages are built at top level or inside package bodies (no package created inside a function body)",
    ]
    cases = c.harness("c18")
    if c.replay_in:
        print(getattr(c, "harness_log", ""))
        c.finish("proof")
    prop_fail, corr_fail = [], []
    worlds = {}
    if cases:
        mout = c.model(cases)
        if mout:
            n = 0
            for cid, inp, impl, model, spec in iter_joined(cases, mout):
                enc, src = split_input(inp)
                toks = enc.split(" ", 2)
                if toks[0] == "D":
                    worlds[toks[1]] = (enc, src)
                    if impl != model:
                        corr_fail.append({"input": src, "implementation": impl, "model": model, "note": "world construction"})
                    continue
                n += 1
                wenc, wsrc = worlds.get(toks[1], ("", ""))
                full_src = wsrc + " ;; " + src
                if spec != "-" and coarse(impl) != spec:
                    io, so = coarse(impl).split("|"), spec.split("|")
                    k = next((i for i in range(min(len(io), len(so))) if io[i] != so[i]), 0)
                    prop_fail.append({"source": full_src, "implementation": impl, "specification": spec, "model": model,
                                      "first_differing_op": k, "_enc": enc, "_wenc": wenc})
                elif impl != model:
                    corr_fail.append({"source": full_src, "implementation": impl, "model": model, "specification": spec})
            c.coverage["compared"] = n
            c.coverage["traces_validated_against_impl"] = n
    # property failures: shortest source first; known finding matched by a narrow classifier
    prop_fail.sort(key=lambda f: len(f["source"]))
    reported = 0
    unknown = 0
    for f in prop_fail:
        enc, wenc = f.pop("_enc"), f.pop("_wenc")
        if hash_holds_package_deeper(enc, wenc, f["first_differing_op"]) and \
                c.known_finding("hash-pkg-dotpaths1", f["source"][-120:]):
            continue
        unknown += 1
        if reported < 5:
            reported += 1
            f["kind"] = "implementation differs from the visibility specification (PkgSpec.visible / spec_op)"
            f["replay"] = "evaluate the texts of 'source' (separated by ' ;; ') in one fresh interpreter; observables: " \
                          "I<int> H{..} F:<fn> P:<pkg> PRIV:<member>:<pkg> NF NOTREC; bin/check C18 --replay <this file>"
            c.violation(f)
    if not unknown:
        if corr_fail:
            c.violation({"kind": "correspondence: implementation differs from the Coq model (dot_get_set / stack_walk / hash_walk / "
                                 "call_path / build_world); no case violating the specification found",
                         "cases": corr_fail[:10], "count": len(corr_fail)}, no_input=True, tag="corr")
        elif c.proof_break:
            c.violation({"kind": "proof obligation no longer checks", "detail": c.proof_break}, no_input=True, tag="proof")
    c.coverage["property_failures"] = len(prop_fail)
    c.coverage["property_failures_not_known"] = unknown
    c.coverage["correspondence_failures"] = len(corr_fail)
    c.finish("proof")
