"""C19 — symbols are interned consistently across interpreters sharing a table."""
import os
import re

from . import common
from .common import Check, iter_joined


def mask_next(impl, model):
    """The counter of the internal duplicate made by a macro expansion is not observable
    (printed '?'): blank the same positions of the model's observation."""
    if "?" not in impl:
        return model
    pi, pm = impl.split("|"), model.split("|")
    for k, seg in enumerate(pi):
        if seg.startswith("next=") and k < len(pm) and pm[k].startswith("next="):
            a, b = seg[5:].split(","), pm[k][5:].split(",")
            if len(a) == len(b):
                pm[k] = "next=" + ",".join("?" if x == "?" else y for x, y in zip(a, b))
    return "|".join(pm)


def fields(inp):
    kv = {}
    for f in inp.split(";"):
        if "=" in f:
            k, v = f.split("=", 1)
            kv[k] = v
    return kv


WRITE_SITE = re.compile(r"\.number\s*=[^=]|\bnumber:\s|symtable\s*(\[[^\]]*\])?\s*=[^=]|nextsymbol\s*(=[^=]|\+\+|\+=|--|-=)|delete\([A-Za-z_.]*symtable")
ALLOWED_WRITERS = {"NewZlispWithFuncs", "Clone", "Duplicate", "MakeSymbol"}


def write_sites():
    """Source scan (tie T): every statement of package zygo that writes a symbol number, the two
    tables or the counter must be inside the four modelled functions.  Returns the offending sites."""
    bad, found = [], set()
    zdir = os.path.join(common.REPO, "zygo")
    for fn in sorted(os.listdir(zdir)):
        if not fn.endswith(".go") or fn.endswith("_test.go") or fn.startswith("verif_"):
            continue
        cur = "?"
        for ln, line in enumerate(open(os.path.join(zdir, fn), errors="replace"), 1):
            m = re.match(r"func\s+(?:\([^)]*\)\s*)?([A-Za-z0-9_]+)", line)
            if m:
                cur = m.group(1)
            code = line.split("//")[0]
            if WRITE_SITE.search(code):
                found.add(cur)
                if cur not in ALLOWED_WRITERS or fn != "environment.go":
                    bad.append("%s:%d %s: %s" % (fn, ln, cur, code.strip()[:100]))
    missing = sorted(ALLOWED_WRITERS - found)
    return bad, missing


def run_candidates(c, cands):
    """Run candidate histories (route, pro, act strings) on the real interpreters and judge them with
    the specification; returns a list of (input, impl, model, spec)."""
    exe = os.path.join(common.BUILD, "c19")
    rp = os.path.join(common.BUILD, "C19.shrink.replay")
    cs = os.path.join(common.BUILD, "C19.shrink.cases")
    st = os.path.join(common.BUILD, "C19.shrink.stats")
    with open(rp, "w") as g:
        for route, pro, act in cands:
            g.write("route=%s;act=%s;pro=%s\n" % (route, act, pro))
    rc, out = common.sh([exe, "--replay", rp, "--out", cs, "--stats", st], cwd=common.BUILD, timeout=300, env=common.env_go())
    if rc != 0:
        return []
    joined = cs + ".in"
    with open(cs) as f, open(joined, "w") as g:
        for line in f:
            a = line.rstrip("\n").split("\t")
            if len(a) >= 3:
                g.write("%s\t%s;impl=%s\n" % (a[0], a[1], a[2]))
    mexe = os.path.join(common.BUILD, "ocaml", "c19", "run")
    mo = cs + ".model"
    rc, err = common.run_model(mexe, joined, mo)
    if rc != 0:
        return []
    return [(inp, impl, model, spec) for _, inp, impl, model, spec in iter_joined(cs, mo)]


# model operations per action (harness/cmd/c19: a macro expansion is Dup+GenSym; the front-end
# constructs read names through the root and generate their temporaries)
OPS_PER_ACTION = {"m": 2, "r": 5, "p": 6, "f": 2, "l": 2, "x": 6, "L": 3, "k": 3, "X": 2, "E": 2, "y": 3}


def rle(act):
    """Run-length form of an action list, for reading long replays: 'm0 x270,g0,m0'."""
    out, prev, n = [], None, 0
    for a in [x for x in act.split(",") if x] + [None]:
        if a == prev:
            n += 1
            continue
        if prev is not None:
            out.append(prev if n == 1 else "%s x%d" % (prev, n))
        prev, n = a, 1
    return ",".join(out)


def shrink(c, f):
    """Greedy shrinking: cut the history after the rejected answer, drop windows of actions from long
    histories, then drop single actions (never a Duplicate/Clone, which would renumber the members)
    while the rejection remains."""
    kv = fields(f["input"])
    route, pro = kv.get("route", "api"), kv.get("pro", "")
    acts = [a for a in kv.get("act", "").split(",") if a]
    m = re.match(r"bad:answer@(\d+)", f["specification"])
    if m:
        k, pos = int(m.group(1)), 0
        for i, a in enumerate(acts):
            pos += OPS_PER_ACTION.get(a[0], 1)
            if pos > k:
                acts = acts[:i + 1]
                break
    best = None
    # long histories: remove whole windows of actions first (delta debugging, bounded)
    chunk, rounds = len(acts) // 2, 0
    while len(acts) > 60 and chunk >= 8 and rounds < 16:
        rounds += 1
        wins = []
        for start in range(0, len(acts), chunk):
            keep = [a for i, a in enumerate(acts) if not (start <= i < start + chunk) or a[0] in "DC"]
            if len(keep) < len(acts):
                wins.append(keep)
        res = run_candidates(c, [(route, pro, ",".join(acts))] + [(route, pro, ",".join(w)) for w in wins])
        if len(res) != len(wins) + 1 or res[0][3] == "ok":
            break
        best = res[0]
        hit = [w for w, r in zip(wins, res[1:]) if r[3] not in ("ok", "-")]
        if hit:
            acts = min(hit, key=len)
        else:
            chunk //= 2
    for _ in range(50 if len(acts) <= 60 else 0):
        cands = [(route, pro, ",".join(acts))]
        idx = [i for i, a in enumerate(acts) if a[0] not in "DC"]
        for i in idx:
            cands.append((route, pro, ",".join(acts[:i] + acts[i + 1:])))
        res = run_candidates(c, cands)
        if len(res) != len(cands):
            break
        if res[0][3] == "ok":
            break       # not reproducible on a fresh family: keep the original
        best = res[0]
        nxt = None
        for j in range(len(res) - 1, 0, -1):
            if res[j][3] != "ok" and res[j][3] != "-":
                nxt = idx[j - 1]
                break
        if nxt is None:
            break
        acts = acts[:nxt] + acts[nxt + 1:]
    if best:
        return {"input": best[0], "implementation": best[1], "model": best[2], "specification": best[3],
                "shrunk_from": kv.get("act", "")}
    return f


def main(argv):
    c = Check("C19", argv)
    # (T) every call of GenSymbol / Duplicate() / Clone() in zygo/*.go, regenerated from the current source;
    # theorem gensym_sites_modelled (vm_compute) says each one is a construct of Model/SymtabScript.v
    rc, tout = common.translate("gensymsites", "GensymSites.v")
    sites_break = None
    if rc != 0:
        sites_break = tout[-2000:]
        c.log("translator gensymsites failed:\n" + tout[-1500:])
    c.proofs()
    c.trusted_base([
        "the Go int counter is modelled as an unbounded integer (no history reaches 2^63 symbols)",
        "Go maps are modelled as association lists read by first match; a write is a cons",
        "read-only accessors zygo/verif_c19.go (VerifLookupSymbol, VerifSymtableCopy, VerifRevSymtableCopy, VerifTablesInverse, VerifSharesTables) and verif_access.go (VerifNextSymbol, VerifSymtableSize)",
        "script route: the harness names, per action, the construct of Model/SymtabScript.v it performs (ks=) and the table operations it expects (ops=); "
        "the extracted script_ops must produce exactly those operations (else KSDIFF, a correspondence failure), so the action -> operation mapping is the Coq model's",
        "translator/cmd/gensymsites recognises the call sites syntactically (<expr>.GenSymbol(arg), <expr>.Duplicate(), <expr>.Clone() with a non-stack receiver)",
    ])
    c.assumptions += [
        "strconv.Itoa is the decimal rendering Symtab.itoa (digits of Z.to_int)",
        "symbol numbers, the two tables and the counter are written only in environment.go MakeSymbol/Duplicate/Clone/NewZlispWithFuncs (checked on every run by a source scan of zygo/*.go)",
    ]
    bad_sites, missing = write_sites()
    c.coverage["symbol_write_sites_outside_model"] = bad_sites
    cases = c.harness("c19")
    prop_fail, corr_fail = [], []
    if cases:
        # the specification is a relation between a history and the answers observed: the model
        # runner gets the implementation's observation appended to the input
        joined = os.path.join(common.BUILD, "C19.cases.in")
        with open(cases) as f, open(joined, "w") as g:
            for line in f:
                a = line.rstrip("\n").split("\t")
                if len(a) >= 3:
                    g.write("%s\t%s;impl=%s\n" % (a[0], a[1], a[2]))
        mout = c.model(joined)
        if mout:
            n = 0
            for cid, inp, impl, model, spec in iter_joined(cases, mout):
                n += 1
                if spec != "ok":
                    prop_fail.append({"input": inp, "implementation": impl, "specification": spec, "model": model})
                elif impl != mask_next(impl, model):
                    corr_fail.append({"input": inp, "implementation": impl, "model": model, "specification": spec})
            c.coverage["compared"] = n
            c.coverage["traces_validated_against_impl"] = n
    # property failures: the shortest histories first, one report per kind of rejection and route,
    # each shrunk by re-running candidate histories on the real interpreters
    def size(f):
        return (len(fields(f["input"]).get("act", "").split(",")), len(f["input"]))
    prop_fail.sort(key=size)
    seen = set()
    for f in prop_fail:
        kv = fields(f["input"])
        key = (kv.get("route"), re.sub(r"[0-9@, ]+.*$", "", f["specification"]))
        if key in seen:
            continue
        seen.add(key)
        if len(seen) <= 4:
            if not c.replay_in:
                f = shrink(c, f)
                kv = fields(f["input"])
            f["kind"] = "the implementation's answers are rejected by the injective-table specification (spec_check): " + f["specification"]
            f["actions"] = kv.get("act", "")
            f["actions_run_length"] = rle(kv.get("act", ""))
            f["prologue"] = kv.get("pro", "")
            f["replay"] = ("fresh family (route api: NewZlispWithFuncs({}); route script: NewZlisp+StandardSetup+defmac mgs), prologue, then the actions: "
                           "M<i>:<name> = member i MakeSymbol, G<i>:<p> = GenSymbol / (gensym \"p\"), D<i>/C<i> = Duplicate/Clone, S = (str2sym), R = (quote name), "
                           "g = (gensym), m = (mgs) macro, r/p = infixExpand of a range loop (:= / =), x = run an infix range loop, f = (fn [fa] fa), l = (for ...), "
                           "e<i>:<name> = text (list name ] with a syntax error, L = labelled (for zlb [..] ..), k = (package zpk ..), X = (macexpand (mgs)), "
                           "E = (expectError \"\" (gensym)), y = (expectError \"\" (fn [fa] fa)), d<i>:<name> = (def name <position>), v<i>:<name> = evaluate name; bin/check C19 --replay <this file>")
            c.violation(f)
    if not prop_fail:
        if corr_fail:
            corr_fail.sort(key=size)
            c.violation({"kind": "correspondence: implementation differs from the Coq model Symtab.run (no history violating the specification found)",
                         "cases": corr_fail[:10], "count": len(corr_fail)}, no_input=True, tag="corr")
        elif sites_break:
            c.violation({"kind": "translator gensymsites no longer understands the source (a call of GenSymbol with a prefix of unknown shape, or "
                                 "environment.go no longer defines MakeSymbol/GenSymbol/Duplicate/Clone)", "detail": sites_break}, no_input=True, tag="sites")
        elif c.proof_break:
            c.violation({"kind": "proof obligation no longer checks", "detail": c.proof_break}, no_input=True, tag="proof")
        elif bad_sites or missing:
            c.violation({"kind": "source shape: symbol numbers, symtable/revsymtable or nextsymbol are written outside the modelled functions "
                                 "(environment.go MakeSymbol, Duplicate, Clone, NewZlispWithFuncs), or one of those no longer writes them",
                         "sites": bad_sites, "modelled_functions_without_writes": missing}, no_input=True, tag="shape")
    c.coverage["property_failures"] = len(prop_fail)
    c.coverage["correspondence_failures"] = len(corr_fail)
    c.finish("proof")
