"""C19 — symbols are interned consistently across interpreters sharing a table."""
import os
import re

from . import common
from .common import Check, iter_joined


def mask_next(impl, model):
    """The counter of the internal duplicate made by a macro expansion is not observable
    (printed '?'): blank the same positions of the model's observation."""
    if "?" not in impl:
        return model
    pi, pm = impl.split("|"), model.split("|")
    for k, seg in enumerate(pi):
        if seg.startswith("next=") and k < len(pm) and pm[k].startswith("next="):
            a, b = seg[5:].split(","), pm[k][5:].split(",")
            if len(a) == len(b):
                pm[k] = "next=" + ",".join("?" if x == "?" else y for x, y in zip(a, b))
    return "|".join(pm)


def fields(inp):
    kv = {}
    for f in inp.split(";"):
        if "=" in f:
            k, v = f.split("=", 1)
            kv[k] = v
    return kv


def main(argv):
    c = Check("C19", argv)
    c.proofs()
    c.trusted_base([
        "the Go int counter is modelled as an unbounded integer (no history reaches 2^63 symbols)",
        "Go maps are modelled as association lists read by first match; a write is a cons",
        "read-only accessors zygo/verif_c19.go (VerifLookupSymbol, VerifSymtableCopy, VerifRevSymtableCopy, VerifTablesInverse, VerifSharesTables) and verif_access.go (VerifNextSymbol, VerifSymtableSize)",
        "script route: the action -> model operation mapping of harness/cmd/c19 (quoted read interns through the root's parser; a macro expansion runs in an internal Duplicate)",
    ])
    c.assumptions += [
        "strconv.Itoa is the decimal rendering Symtab.itoa (digits of Z.to_int)",
        "all symbols are created by Zlisp.MakeSymbol (the only site that constructs a numbered SexpSymbol)",
    ]
    cases = c.harness("c19")
    prop_fail, corr_fail = [], []
    if cases:
        # the specification is a relation between a history and the answers observed: the model
        # runner gets the implementation's observation appended to the input
        joined = os.path.join(common.BUILD, "C19.cases.in")
        with open(cases) as f, open(joined, "w") as g:
            for line in f:
                a = line.rstrip("\n").split("\t")
                if len(a) >= 3:
                    g.write("%s\t%s;impl=%s\n" % (a[0], a[1], a[2]))
        mout = c.model(joined)
        if mout:
            n = 0
            for cid, inp, impl, model, spec in iter_joined(cases, mout):
                n += 1
                if spec != "ok":
                    prop_fail.append({"input": inp, "implementation": impl, "specification": spec, "model": model})
                elif impl != mask_next(impl, model):
                    corr_fail.append({"input": inp, "implementation": impl, "model": model, "specification": spec})
            c.coverage["compared"] = n
            c.coverage["traces_validated_against_impl"] = n
    # property failures: the shortest histories first, one report per kind of rejection and route
    def size(f):
        return (len(fields(f["input"]).get("act", "").split(",")), len(f["input"]))
    prop_fail.sort(key=size)
    seen = set()
    for f in prop_fail:
        kv = fields(f["input"])
        key = (kv.get("route"), re.sub(r"[0-9@, ]+.*$", "", f["specification"]))
        if key in seen:
            continue
        seen.add(key)
        if len(seen) <= 4:
            f["kind"] = "the implementation's answers are rejected by the injective-table specification (spec_check): " + f["specification"]
            f["actions"] = kv.get("act", "")
            f["prologue"] = kv.get("pro", "")
            f["replay"] = ("fresh family (route api: NewZlispWithFuncs({}); route script: NewZlisp+StandardSetup+defmac mgs), prologue, then the actions: "
                           "M<i>:<name> = member i MakeSymbol, G<i>:<p> = GenSymbol / (gensym \"p\"), D<i>/C<i> = Duplicate/Clone, S = (str2sym), R = (quote name), "
                           "g = (gensym), m = (mgs) macro; bin/check C19 --replay <this file>")
            c.violation(f)
    if not prop_fail:
        if corr_fail:
            corr_fail.sort(key=size)
            c.violation({"kind": "correspondence: implementation differs from the Coq model Symtab.run (no history violating the specification found)",
                         "cases": corr_fail[:10], "count": len(corr_fail)}, no_input=True, tag="corr")
        elif c.proof_break:
            c.violation({"kind": "proof obligation no longer checks", "detail": c.proof_break}, no_input=True, tag="proof")
    c.coverage["property_failures"] = len(prop_fail)
    c.coverage["correspondence_failures"] = len(corr_fail)
    c.finish("proof")
