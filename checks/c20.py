"""C20 — evaluation is deterministic.

(T) translator/cmd/census regenerates coq/Generated/Census.v from the source (every
    `for .. range <map>` with a syntactic class, every package-level variable written outside init);
(P) Properties/C20.v: each order-independent class proved over all maps and all orders, the
    order-dependent ones refuted, census_covered/globals_covered over the GENERATED lists;
(S) harness/cmd/c20: repeated runs in fresh interpreters / fresh processes / after other
    interpreters; value, stdout and error text compared.
"""
import glob
import hashlib
import json
import os
import re

from . import common
from .common import Check

FINDING_OF_SITE_HINT = {
    "fillhash-first-registry-match": "hashutils.go:fillHashHelper",
    "callgo-first-registry-match": "callgo.go:CallGoMethodFunction",
    "togo-map-colliding-keys": "jsonmsgp.go:SexpToGoStructs",
    "togo-unknown-field-order": "jsonmsgp.go:SexpToGoStructs",
    "scope-show-shared-printstate": "scopes.go:Scope.Show",
    "registry-process-global": "gotypereg.go:GoStructRegistryType.register",
}

REGISTRY_SENSITIVE = re.compile(r"\(struct\b|\(defmap\b|typelist|defined\?|symnum|gensym|\(var\b|msgpack-map|\(< \(quote|declare")


def census(c):
    """Run the census translator; cached by the content of the sources it reads."""
    srcs = sorted(p for p in glob.glob(os.path.join(common.REPO, "zygo", "*.go"))
                  if not p.endswith("_test.go") and (not os.path.basename(p).startswith("verif_") or p.endswith("verif_step_off.go")))
    srcs += [os.path.join(common.VERIF, "translator", "cmd", "census", "main.go")]
    target = os.path.join(common.COQ, "Generated", "Census.v")
    h = hashlib.sha256()
    for p in srcs:
        h.update(p.encode())
        h.update(open(p, "rb").read())
    if os.path.exists(target):
        h.update(open(target, "rb").read())
    stamp = os.path.join(common.BUILD, "census.stamp")
    if os.path.exists(target) and os.path.exists(stamp) and open(stamp).read() == h.hexdigest():
        c.log("census: sources unchanged since the last generation (cached)")
        return True
    rc, out = common.translate("census", "Census.v", timeout=900)
    c.log("census:", out.strip().split("\n")[-1][:300])
    if rc != 0:
        c.violation({"kind": "translator census failed: the source no longer has the shape the census understands, "
                             "so the walks over Go maps cannot be enumerated",
                     "log": out[-3000:]}, no_input=True, tag="census")
        return False
    h = hashlib.sha256()
    for p in srcs:
        h.update(p.encode())
        h.update(open(p, "rb").read())
    h.update(open(target, "rb").read())
    open(stamp, "w").write(h.hexdigest())
    return True


def uncovered_sites(c):
    """Ask Coq which generated sites/globals are not covered (only used after census_covered broke)."""
    rc, out = common.coq_make(["Model/MapWalk.vo", "Generated/Census.vo"])
    if rc != 0:
        return None, out[-2000:]
    q = os.path.join(common.COQ, "cases")
    os.makedirs(q, exist_ok=True)
    path = os.path.join(q, "C20query.v")
    open(path, "w").write(
        "From Coq Require Import String List.\nRequire Import ZV.Model.MapWalk ZV.Generated.Census.\nImport ListNotations.\n"
        "Eval vm_compute in (map (fun s => (s_file s, s_func s, s_idx s, s_map s, s_class s, s_calls s)) (uncovered generated_census)).\n"
        "Eval vm_compute in (map (fun g => (g_name g, g_writers g)) (uncovered_globals generated_globals)).\n")
    with common.Lock("coq"):
        rc, out = common.sh(["coqc", "-Q", ".", "ZV", os.path.join("cases", "C20query.v")], cwd=common.COQ, timeout=300)
    for ext in (".vo", ".vok", ".vos", ".glob"):
        try:
            os.remove(path[:-2] + ext)
        except OSError:
            pass
    text = re.sub(r"\s+", " ", out)
    blocks = re.split(r": list \(string \* ", text)
    sites = re.findall(r'\("([^"]+)", "([^"]+)", (\d+), "([^"]*)", (\w+), (\[[^\]]*\])\)', blocks[0])
    globs = re.findall(r'\("([^"]+)", (\[[^\]]*\])\)', blocks[1] if len(blocks) > 1 else "")
    return ([{"file": s[0], "func": s[1], "idx": int(s[2]), "map": s[3], "class": s[4], "calls": s[5]} for s in sites],
            [{"name": g[0], "writers": g[1]} for g in globs])


def canon_aliases(text, groups):
    for g in groups:
        for alias in sorted(g[1:], key=len, reverse=True):
            text = re.sub(r"(?<![\w.])" + re.escape(alias) + r"(?![\w.])", g[0], text)
    return text


def obs_text(o):
    return o["v"] + "\x00" + o["o"] + "\x00" + o["e"]


def classify(d, groups, regnames=()):
    """Narrow classifiers of the listed findings.  Returns a finding id or None."""
    a, b = obs_text(d["a"]), obs_text(d["b"])
    prog = d["program"]
    # which unknown field the panic / the 'skipping field' line names
    fld = r"(skipping field|unknown field|last recordKey field name was) '[^']*'"
    if "unknown field '" in a and "unknown field '" in b and re.sub(fld, r"\1 'X'", a) == re.sub(fld, r"\1 'X'", b):
        return "togo-unknown-field-order"
    # same walk (record fields in bucket order): which ill-typed field the reflect panic names
    rk = r"last recordKey field name was '[^']*'"
    rp = r"reflect: call of reflect\.Value\.\w+ on \w+ Value|reflect\.Set: value of type \S+ is not assignable to type \S+"
    if "(togo" in prog and re.search(rk, a) and re.search(rk, b) and re.search(rp, a) and re.search(rp, b) \
            and re.sub(rp, "RP", re.sub(rk, "RK", a)) == re.sub(rp, "RP", re.sub(rk, "RK", b)):
        return "togo-unknown-field-order"
    # a record coming back from Go named by another of the names its type is registered under
    ca, cb = canon_aliases(a, groups), canon_aliases(b, groups)
    if ca == cb:
        i = 0
        while i < min(len(a), len(b)) and a[i] == b[i]:
            i += 1
        j = i
        while j > 0 and re.match(r"[\w.]", a[j - 1]):
            j -= 1
        ta = re.match(r"[\w.]*", a[j:]).group(0)
        tb = re.match(r"[\w.]*", b[j:]).group(0)
        top = re.fullmatch(r'"?\[ \(', a[:j].strip()) is not None
        if "." in ta or "." in tb or not top:
            return "fillhash-first-registry-match"
        return "callgo-first-registry-match"
    # Go map built from a hash holding the symbol x and the string "x"
    mm = r"map\[string\]\w+\{[^}]*\}"
    collide = any(re.search(r'"' + re.escape(k) + r'"', prog) for k in re.findall(r"[\s(](\w+):", prog))
    if collide and re.search(mm, a) and re.sub(mm, "MAP", a) == re.sub(mm, "MAP", b):
        ka = [re.findall(r'"([^"\\]*)\\?":', m) for m in re.findall(mm, a)]
        kb = [re.findall(r'"([^"\\]*)\\?":', m) for m in re.findall(mm, b)]
        if ka == kb:
            return "togo-map-colliding-keys"
    bad = r"(key|val) '[^']*' should have been an? \w+, but was not"
    if re.search(bad, a) and re.search(bad, b) and re.sub(bad, "BAD", a) == re.sub(bad, "BAD", b) and re.search(r"\(hash\b|\{", prog):
        return "togo-map-colliding-keys"
    # Scope.Show: which of several names of one value is rendered in full
    if "already-saw" in a and "already-saw" in b:
        def lines(t):
            return sorted(re.sub(r"^\s*[\w.]+ -> ", "K -> ", ln.strip()) for ln in t.replace("\\n", "\n").split("\n"))
        if lines(a) == lines(b):
            return "scope-show-shared-printstate"
    # the process-global type registry differed before the two runs started
    # ... i.e. the SET of registered types differed (names present before only one of the runs), while
    # the names present before both were interned in the same relative order (the set-up itself is
    # deterministic); never across two fresh processes
    # (since /repo fix 436399e a leaked type name no longer replaces a builtin: a struct declaration
    #  that fails in a later interpreter is NOT part of this finding any more)
    if d.get("registry_differs_before_run") and d["kind"] in ("repeat", "after", "afterclean", "batch") \
            and "bad struct declaration" not in a and "bad struct declaration" not in b \
            and d.get("common_type_names_interned_in_same_order") \
            and (d.get("type_names_only_before_a") or d.get("type_names_only_before_b") or not re.search(r"symnum|\(< \(quote|gensym", prog)) \
            and (REGISTRY_SENSITIVE.search(prog) or (
                # the symbol counter starts higher: only the numbers inside generated names differ
                (d.get("type_names_only_before_a") or d.get("type_names_only_before_b"))
                and re.sub(r"__(anon|gensym|loop)\d+", r"__\1N", a) == re.sub(r"__(anon|gensym|loop)\d+", r"__\1N", b))):
        return "registry-process-global"
    return None


CORR = lambda: os.path.join(common.BUILD, "C20.corr.cases")


def corr_ok(inp, impl, model, spec):
    """(impl agrees with the model of the code, impl agrees with the specification).
    An impl observable "NONDET a | b" (two evaluations of the same case differed) agrees with nothing."""
    if impl.startswith("NONDET"):
        return False, False
    m_ok = impl == model
    if spec == "-":
        return m_ok, True
    if inp.startswith("symtab"):
        sp, im = spec.split(" "), impl.split(" ")
        return m_ok, len(sp) == len(im) and all(a == "*" or a == b for a, b in zip(sp, im))
    return m_ok, impl == spec


def corr_eval(c, inp, n=[0]):
    """Run ONE correspondence case on the real code and on the model (used by the shrinker)."""
    n[0] += 1
    d = os.path.join(common.BUILD, "c20shrink")
    os.makedirs(d, exist_ok=True)
    rp = os.path.join(d, "in.json")
    json.dump({"corr_input": inp}, open(rp, "w"))
    exe = os.path.join(common.BUILD, "c20")
    rc, out = common.sh([exe, "--seed", str(c.seed), "--tier", c.tier, "--out", os.path.join(d, "x.cases"),
                         "--stats", os.path.join(d, "x.stats"), "--replay", rp], cwd=common.BUILD, timeout=120, env=common.env_go())
    cf = os.path.join(d, "C20.corr.cases")
    if rc != 0 or not os.path.exists(cf):
        return None
    rc, _, mexe = common.build_ocaml("C20")
    if rc != 0:
        return None
    rc, _ = common.run_model(mexe, cf, os.path.join(d, "m.out"))
    if rc != 0:
        return None
    for _, i2, impl, model, spec in common.iter_joined(cf, os.path.join(d, "m.out")):
        return impl, model, spec
    return None


def corr_shrink(c, inp, want):
    """Greedy removal of keys / builtin names / parameters while the disagreement persists.
    want: 'nondet' (two evaluations differ), 'spec' or 'model'."""
    def fails(x):
        for _ in range(2):      # a walk-order defect shows only in some runs
            r = corr_eval(c, x)
            if r is None:
                return False
            m_ok, s_ok = corr_ok(x, *r)
            if want == "nondet":
                if r[0].startswith("NONDET"):
                    return True
            elif (not s_ok) if want == "spec" else (not m_ok):
                return True
        return False
    toks = inp.split(" ")
    kind = toks[0]
    budget = 40
    if kind == "ksort":
        i = 1
        while i < len(toks) and budget > 0 and len(toks) > 3:
            cand = toks[:i] + toks[i + 1:]
            budget -= 1
            if fails(" ".join(cand)):
                toks = cand
            else:
                i += 1
    elif kind == "symtab":
        f0, q0 = toks.index("F"), toks.index("Q")
        head, fs, qs = toks[:f0 + 1], toks[f0 + 1:q0], toks[q0 + 1:]
        i = 0
        while i < len(fs) and budget > 0 and len(fs) > 2:
            cand_f = fs[:i] + fs[i + 1:]
            cand_q = [q for q in qs if q != fs[i]]
            budget -= 1
            if fails(" ".join(head + cand_f + ["Q"] + cand_q)):
                fs, qs = cand_f, cand_q
            else:
                i += 1
        toks = head + fs + ["Q"] + qs
    return " ".join(toks)


def unhex(t):
    k = t.split("=")[0]
    if k == "-":
        return ""
    try:
        return bytes.fromhex(k).decode("utf-8", "backslashreplace")
    except ValueError:
        return t


def correspondence(c):
    """impl vs extracted model (Model/MapWalkKeys.v) vs specification on the streams of corr.go."""
    cf = CORR()
    if not os.path.exists(cf):
        return
    mout = c.model(cf)
    if not mout:
        return
    n = agree = 0
    nondet, spec_fail, model_fail = [], [], []
    per = {}
    for cid, inp, impl, model, spec in common.iter_joined(cf, mout):
        n += 1
        m_ok, s_ok = corr_ok(inp, impl, model, spec)
        k = inp.split(" ", 1)[0]
        per.setdefault(k, [0, 0])[0] += 1
        if m_ok and s_ok:
            agree += 1
            per[k][1] += 1
        elif impl.startswith("NONDET"):
            nondet.append((inp, impl, model, spec))
        elif not s_ok:
            spec_fail.append((inp, impl, model, spec))
        else:
            model_fail.append((inp, impl, model, spec))
    c.coverage.setdefault("corr", {})
    c.coverage["corr"].update({"compared": n, "agree": agree, "per_stream_cases_agree": per, "repeats_differ": len(nondet),
                               "spec_failures": len(spec_fail), "model_only_failures": len(model_fail)})
    c.log("correspondence: %d cases, %d agree, %d gave different results on repeated evaluation, %d differ from the specification, %d differ from the model only"
          % (n, agree, len(nondet), len(spec_fail), len(model_fail)))
    what = {"ksort": "zygo.GoToSexp(map[string]interface{}) -> jsonmsgp.go:makeSortedSlicesFromMap / KiSlice.Less: key order of the hash",
            "symtab": "zygo.NewZlispWithFuncs(funcs): symbol numbers of the queried names (Q) for builtin names F",
            "named": "check.go by-name call: arguments in declared order"}
    kinds = {"nondet": "the same call on the same input gave two different results (the order of a Go map walk is observable)",
             "spec": "the real code disagrees (deterministically, as far as observed) with the order-free specification; no input was found on which two evaluations differ",
             "model": "the real code disagrees with the extracted model of the code (coq/Model/MapWalkKeys.v); the specification is silent or satisfied"}
    seen = set()
    for lst, want in ((nondet, "nondet"), (spec_fail, "spec"), (model_fail, "model")):
        lst.sort(key=lambda t: len(t[0]))
        for inp, impl, model, spec in lst:
            k = inp.split(" ", 1)[0]
            if k in seen:
                continue
            seen.add(k)
            small = inp
            if not c.replay_in:
                try:
                    small = corr_shrink(c, inp, want)
                except Exception as e:  # the shrinker must never hide the failure
                    c.log("shrink failed: %r" % (e,))
            r = None
            if small != inp:
                for _ in range(4):
                    r = corr_eval(c, small)
                    if r is not None and (r[0].startswith("NONDET") if want == "nondet" else not all(corr_ok(small, *r))):
                        break
                    r = None
            if r is None:
                small, r = inp, (impl, model, spec)
            toks = [t for t in small.split(" ")[1:]]
            if k == "symtab":
                toks = toks[toks.index("F"):]
            rep = {"kind": kinds[want] + ": " + what.get(k, k),
                   "stream": k, "corr_input": small, "readable_input": [unhex(t) if t not in ("F", "Q", "D", "S", "R") else t for t in toks][:80],
                   "impl": r[0], "model": r[1], "spec": r[2],
                   "readable_impl": [unhex(t) if t not in ("NONDET", "|") else t for t in r[0].split(" ")][:60] if k == "ksort" else r[0],
                   "readable_model": [unhex(t) for t in r[1].split(" ")][:60] if k == "ksort" else r[1],
                   "unshrunk_input": inp if small != inp else None,
                   "replay": "bin/check C20 --replay <this file>  (runs this one case several times on the real code, and on the model)"}
            c.violation(rep, no_input=(want != "nondet"))


def run_search(c, extra=()):
    if not extra:
        try:
            os.remove(CORR())
        except OSError:
            pass
    cases = c.harness("c20", extra_args=extra, timeout=3000)
    if not cases:
        return None, None
    diffs = json.load(open(os.path.join(os.path.dirname(cases), "C20.diffs.json"))) or []
    return cases, diffs


def main(argv):
    c = Check("C20", argv)
    try:
        run(c)
    except Exception:
        import traceback
        tb = traceback.format_exc()
        c.log("check driver error:\n" + tb)
        c.violation({"kind": "the check driver failed before reaching a verdict (this is a defect of the check, reported as a failure rather than silence)",
                     "traceback": tb[-3000:], "proof_break": getattr(c, "proof_break", None)}, no_input=True, tag="driver")
        c.finish("proof")


def run(c):
    ok_census = census(c)
    c.proofs()
    c.trusted_base([
        "translator/cmd/census: go/parser + go/types (source importer) find every range over a map-typed operand of package zygo; "
        "the classification of a loop body is syntactic (effects: return/break/panic, append, map index assignment, delete, += , output calls, other calls)",
        "a walk is modelled as a function of a list that is a permutation of the map's elements with distinct keys; Go guarantees nothing more and nothing less about range over a map",
        "callee purity: a proved-class site must call nothing (pure_calls is empty); Go builtins and conversions are not calls",
        "benign_sites / benign_globals entries are justified by reading, one line each (coq/Model/MapWalk.v)",
        "nondeterminism that is not a map walk or a package-level variable (goroutine scheduling, select, time, unsafe pointers, finalizers) is only searched by the repeated runs",
        "harness: stdout captured through a pipe around EvalString; pointer values 0x....... (7+ hex digits), goroutine ids and the Go stack-trace block of recovered panics are stripped before comparing",
    ])
    c.assumptions += [
        "Go's map iteration visits every element exactly once in an unspecified order (a permutation of the elements); keys of one map are pairwise distinct",
        "the step budget hook and the verif build tag do not change evaluation results",
    ]
    uncovered, ugl = [], []
    if c.proof_break:
        uncovered, ugl = uncovered_sites(c)
        if uncovered is None:
            uncovered, ugl = [], []
        for s in uncovered:
            c.log("UNCOVERED WALK: %s:%s #%d over %s class %s calls %s" % (s["file"], s["func"], s["idx"], s["map"], s["class"], s["calls"]))
        for g in ugl:
            c.log("UNCOVERED GLOBAL: %s written by %s" % (g["name"], g["writers"]))

    groups, regnames = [], []
    unknown, by_finding = [], {}

    def absorb(diffs):
        for d in diffs or []:
            fid = classify(d, groups, regnames)
            if fid and c.known_finding(fid, "%s [%s]: %s" % (d["id"], d["kind"], short(d))):
                by_finding.setdefault(fid, []).append(d)
            else:
                d["classified_as"] = fid
                unknown.append(d)

    cases, diffs = run_search(c)
    if cases:
        correspondence(c)
        groups[:] = c.coverage.get("alias_groups") or []
        regnames[:] = c.coverage.get("registry_names") or []
        absorb(diffs)
        c.coverage["differences_found"] = len(diffs)
        c.coverage["traces_validated_against_impl"] = c.coverage.get("observations_compared", 0)
        if c.coverage.get("child_failures", 0) > 0:
            c.notes.append("some child processes failed/timeouts: %s" % c.coverage.get("child_failure_examples"))
    # a walk without a theorem: search its script-level triggers harder before giving up
    if cases and not unknown and not c.replay_in:
        for s in uncovered[:3]:
            c.log("searching for a differing output of %s:%s" % (s["file"], s["func"]))
            cs2, d2 = run_search(c, extra=["--focus", "%s:%s" % (s["file"], s["func"])])
            if cs2:
                absorb(d2)
            if unknown:
                break
    # report: the cleanest witnesses first (same registry before both runs, two fresh processes)
    unknown.sort(key=lambda d: (bool(d.get("registry_differs_before_run")), d["kind"] != "process", d["kind"] != "repeat"))
    seen = set()
    for d in unknown:
        key = (d["id"], d["field"])
        if key in seen:
            continue
        seen.add(key)
        if len(seen) > 6:
            break
        rep = {
            "kind": "the same program gave different %s in two runs (%s)" % (d["field"], {
                "repeat": "two fresh interpreters of one process",
                "process": "two fresh processes",
                "after": "a fresh process vs. after other interpreters declared types and ran programs",
                "afterclean": "a fresh process vs. after other interpreters ran programs (no type declarations)",
                "batch": "a fresh process vs. after the other programs of the batch"}.get(d["kind"], d["kind"])),
            "id": d["id"], "tags": d.get("tags"), "file": d.get("file"), "program": d["program"],
            "run_a": d["where_a"], "observed_a": d["a"], "run_b": d["where_b"], "observed_b": d["b"],
            "distinct_observations": d["distinct_observations"],
            "registry_differs_before_run": d.get("registry_differs_before_run"),
            "type_symbol_numbers_differ_before_run": d.get("type_symbol_numbers_differ_before_run"),
            "builtin_symbol_numbers_differ_before_run": d.get("builtin_symbol_numbers_differ_before_run"),
            "type_names_only_before_a": d.get("type_names_only_before_a"),
            "type_names_only_before_b": d.get("type_names_only_before_b"),
            "common_type_names_interned_in_same_order": d.get("common_type_names_interned_in_same_order"),
            "uncovered_walks": uncovered, "uncovered_globals": ugl,
            "replay": "bin/check C20 --replay <this file>  (runs the program in 24 fresh processes x 3 interpreters)",
        }
        c.violation(rep)
    if not unknown and not any(not ni for _, ni in c.violations):
        if c.proof_break and ok_census:
            c.violation({"kind": "proof obligation no longer checks (a walk over a Go map or a package-level variable of the current source is covered "
                                 "neither by a theorem nor by a listed reason); no differing output found by the repeated runs",
                         "uncovered_walks": uncovered, "uncovered_globals": ugl, "detail": c.proof_break}, no_input=True, tag="proof")
    # hygiene: listed findings that the census no longer shows / that were not reproduced
    c.coverage["property_failures"] = len(unknown)
    c.coverage["known_finding_cases"] = {k: len(v) for k, v in by_finding.items()}
    for fid in c.known:
        if fid not in by_finding and cases and not c.replay_in:
            c.notes.append("known finding %s not reproduced in this run (tier %s, seed %d)" % (fid, c.tier, c.seed))
    c.finish("proof")


def short(d):
    f = {"value": "v", "stdout": "o", "error": "e"}[d["field"]]
    a, b = d["a"][f], d["b"][f]
    i = 0
    while i < min(len(a), len(b)) and a[i] == b[i]:
        i += 1
    i = max(0, i - 20)
    return ("%s: ...%s  vs  ...%s" % (d["field"], a[i:i + 60], b[i:i + 60])).replace("\n", " ")
