"""Shared driver code for the per-property checks (bin/check Cxx).

One check run =
  1. regenerate coq/Generated/*.v from /repo (translator)            [where the property uses it]
  2. build the Coq closure of coq/Properties/Cxx.v (full .vo build), compile the
     property file itself every time to collect `Print Assumptions`, count obligations
  3. extract the model to OCaml and build the model runner (cached by content hash)
  4. build the Go harness against /repo's working tree with -tags verif, run it
  5. run the model/spec on the same cases, compare observables (correspondence + property search)
  6. classify failures against KNOWN_FINDINGS.txt, print KNOWN-FINDING / VIOLATION lines
  7. write evidence/Cxx.json
"""
import fcntl
import hashlib
import json
import os
import re
import subprocess
import sys
import time

VERIF = os.path.dirname(os.path.dirname(os.path.abspath(__file__)))
# The registered checks always run against /repo itself.  For trying the machinery on a
# modified copy of the repository (seeded changes, in a scratch worktree) without disturbing
# /repo or the shared build, set VERIF_REPO=<worktree> and VERIF_BUILD=<scratch build dir>:
# the Coq tree and the harness module are then copied into the scratch build dir first.
REPO = os.environ.get("VERIF_REPO", "/repo")
ALT = os.path.realpath(REPO) != "/repo"
BUILD = os.environ.get("VERIF_BUILD", os.path.join(VERIF, "build") if not ALT else "/tmp/verif-build-alt")
COQ = os.path.join(VERIF, "coq") if not ALT else os.path.join(BUILD, "coq")
HARNESS = os.path.join(VERIF, "harness") if not ALT else os.path.join(BUILD, "harness")
EVIDENCE = os.path.join(VERIF, "evidence") if not ALT else os.path.join(BUILD, "evidence")
REPLAY = os.path.join(VERIF, "replay") if not ALT else os.path.join(BUILD, "replay")


def prepare_alt():
    """Copy coq/ (with compiled files) and harness/ into the scratch build dir and point the
    harness module at the alternative repository."""
    if not ALT:
        return
    os.makedirs(BUILD, exist_ok=True)
    subprocess.run(["rsync", "-a", "--delete", os.path.join(VERIF, "coq") + "/", COQ + "/"], check=True)
    subprocess.run(["rsync", "-a", "--delete", os.path.join(VERIF, "harness") + "/", HARNESS + "/"], check=True)
    gm = os.path.join(HARNESS, "go.mod")
    txt = open(gm).read().replace("=> /repo", "=> " + os.path.realpath(REPO))
    open(gm, "w").write(txt)

ALLOWED_AXIOMS = {
    # standard-library axioms only (named in DESIGN.md section 5)
    "ClassicalDedekindReals.sig_forall_dec",
    "ClassicalDedekindReals.sig_not_dec",
    "FunctionalExtensionality.functional_extensionality_dep",
    "Classical_Prop.classic",
    "Eqdep.Eq_rect_eq.eq_rect_eq",
    "JMeq.JMeq_eq",
    "ProofIrrelevance.proof_irrelevance",
    "PropExtensionality.propositional_extensionality",
}

FORBIDDEN = re.compile(
    r"\b(Admitted|admit|Axiom|Axioms|Parameter|Parameters|Conjecture|Conjectures|Admit Obligations)\b"
    r"|Unset\s+Guard|Unset\s+Positivity|Unset\s+Universe|bypass_check|type-in-type|impredicative-set")


def env_go():
    e = dict(os.environ)
    e["GOFLAGS"] = "-mod=mod"
    e["GOPROXY"] = "off"
    e.pop("GOSUMDB", None)
    if e.get("GOTOOLCHAIN") == "local":
        e.pop("GOTOOLCHAIN")
    return e


def sh(cmd, cwd=None, timeout=3600, env=None, stdin=None):
    """Run a command; return (rc, stdout+stderr)."""
    try:
        p = subprocess.run(cmd, cwd=cwd, timeout=timeout, env=env, input=stdin,
                           stdout=subprocess.PIPE, stderr=subprocess.STDOUT,
                           shell=isinstance(cmd, str), text=True, errors="replace")
        return p.returncode, p.stdout
    except subprocess.TimeoutExpired as ex:
        out = ex.stdout or ""
        if isinstance(out, bytes):
            out = out.decode("utf-8", "replace")
        return 124, out + "\n[timeout after %ss]" % timeout


class Lock:
    def __init__(self, name):
        os.makedirs(BUILD, exist_ok=True)
        self.path = os.path.join(BUILD, "." + name + ".lock")

    def __enter__(self):
        self.f = open(self.path, "w")
        fcntl.flock(self.f, fcntl.LOCK_EX)
        return self

    def __exit__(self, *a):
        fcntl.flock(self.f, fcntl.LOCK_UN)
        self.f.close()


def file_hash(paths):
    h = hashlib.sha256()
    for p in sorted(paths):
        h.update(p.encode())
        with open(p, "rb") as f:
            h.update(f.read())
    return h.hexdigest()


def coq_sources():
    out = []
    for d, _, fs in os.walk(COQ):
        for f in fs:
            if f.endswith(".v"):
                out.append(os.path.join(d, f))
    return sorted(out)


def write_coqproject():
    """_CoqProject lists every .v file except Extract/* (those are compiled in the ocaml build dirs)."""
    files = [os.path.relpath(p, COQ) for p in coq_sources()]
    files = [f for f in files if not f.startswith("Extract/") and not f.startswith("cases/")]
    text = "-Q . ZV\n" + "\n".join(files) + "\n"
    path = os.path.join(COQ, "_CoqProject")
    old = open(path).read() if os.path.exists(path) else ""
    if old != text:
        open(path, "w").write(text)
        return True
    return not os.path.exists(os.path.join(COQ, "Makefile"))


def coq_make(targets, timeout=3000, jobs=8):
    """Full .vo build of the given targets (and their dependencies)."""
    with Lock("coq"):
        if write_coqproject():
            rc, out = sh(["coq_makefile", "-f", "_CoqProject", "-o", "Makefile"], cwd=COQ)
            if rc != 0:
                return rc, out
        return sh(["make", "-j%d" % jobs] + list(targets), cwd=COQ, timeout=timeout)


def scan_forbidden():
    bad = []
    for p in coq_sources():
        txt = open(p, errors="replace").read()
        # strip comments (non-nested approximation is enough: we forbid the tokens in comments too,
        # except inside this marker used by documentation)
        for i, line in enumerate(txt.split("\n"), 1):
            if FORBIDDEN.search(line) and "verif:allow-word" not in line:
                bad.append("%s:%d: %s" % (os.path.relpath(p, VERIF), i, line.strip()[:120]))
    return bad


def compile_properties(pid, timeout=1500):
    """Compile coq/Properties/<pid>.v itself (dependencies must be built) and parse its output.
    Returns dict(ok, obligations, discharged, axioms, bad_axioms, log, failed_at)."""
    src = os.path.join(COQ, "Properties", pid + ".v")
    text = open(src).read()
    names = re.findall(r"^\s*(?:Theorem|Lemma|Example|Corollary)\s+([A-Za-z0-9_']+)", text, re.M)
    with Lock("coq"):
        rc, out = sh(["coqc", "-Q", ".", "ZV", os.path.join("Properties", pid + ".v")], cwd=COQ, timeout=timeout)
    res = {"ok": rc == 0, "obligations": len(names), "names": names, "log": out[-4000:], "failed_at": None}
    axioms = set()
    # Print Assumptions output: "Axioms:" blocks; each axiom "name : type" starting at column 0
    for block in re.split(r"\n(?=Closed under the global context|Axioms:)", "\n" + out):
        if block.startswith("Axioms:"):
            for line in block.split("\n")[1:]:
                m = re.match(r"^([A-Za-z_][A-Za-z0-9_.']*)\s*:", line)
                if m:
                    axioms.add(m.group(1))
                elif re.match(r"^([A-Za-z_][A-Za-z0-9_.']*)\s*$", line):
                    axioms.add(line.strip())
    res["axioms"] = sorted(axioms)
    res["bad_axioms"] = sorted(a for a in axioms if a not in ALLOWED_AXIOMS)
    if rc == 0:
        res["discharged"] = len(names)
    else:
        m = re.search(r'line (\d+), characters', out)
        line = int(m.group(1)) if m else 0
        upto = "\n".join(text.split("\n")[:max(line - 1, 0)])
        done = re.findall(r"^\s*(?:Theorem|Lemma|Example|Corollary)\s+([A-Za-z0-9_']+)", upto, re.M)
        # the failing one is the last started before the error line
        res["discharged"] = max(len(done) - 1, 0)
        res["failed_at"] = done[-1] if done else "(imports)"
    return res


def build_ocaml(pid, extract_v=None, driver_dir=None, timeout=1200):
    """Extract coq/Extract/<pid>.v and build ocaml/<pid lower>/run.ml -> build/ocaml/<pid lower>/run.
    Cached by the hash of every .vo-relevant source and the driver."""
    low = pid.lower()
    extract_v = extract_v or os.path.join(COQ, "Extract", pid + ".v")
    driver_dir = driver_dir or os.path.join(VERIF, "ocaml", low)
    outdir = os.path.join(BUILD, "ocaml", low)
    os.makedirs(outdir, exist_ok=True)
    srcs = [p for p in coq_sources() if "/Model/" in p or "/Generated/" in p] + [extract_v]
    srcs += [os.path.join(driver_dir, f) for f in os.listdir(driver_dir) if f.endswith(".ml")]
    srcs += [os.path.join(VERIF, "ocaml", "common", "zutil.ml")]
    h = file_hash(srcs)
    stamp = os.path.join(outdir, "stamp")
    exe = os.path.join(outdir, "run")
    with Lock("ocaml-" + low):
        if os.path.exists(exe) and os.path.exists(stamp) and open(stamp).read() == h:
            return 0, "cached", exe
        # make sure every ZV.* module the extraction file imports is compiled and current
        deps = re.findall(r"\bZV\.([A-Za-z0-9_.]+)", re.sub(r"\(\*.*?\*\)", "", open(extract_v).read(), flags=re.S))
        targets = sorted(set(d.rstrip(".").replace(".", "/") + ".vo" for d in deps))
        if targets:
            rc, out = coq_make(targets)
            if rc != 0:
                return rc, out, exe
        with Lock("coq"):
            rc, out = sh(["coqc", "-Q", COQ, "ZV", extract_v], cwd=outdir, timeout=timeout)
        if rc != 0:
            return rc, out, exe
        mls = []
        for f in ["zutil.ml"]:
            sh(["cp", os.path.join(VERIF, "ocaml", "common", f), outdir])
        drivers = sorted(f for f in os.listdir(driver_dir) if f.endswith(".ml") and f != "run.ml")
        for f in drivers + ["run.ml"]:
            sh(["cp", os.path.join(driver_dir, f), outdir])
        mls = ["model.mli", "model.ml", "zutil.ml"] + drivers + ["run.ml"]
        rc, out2 = sh(["ocamlfind", "ocamlopt", "-O3", "-unboxed-types", "-w", "-a"] + mls + ["-o", "run"], cwd=outdir, timeout=timeout)
        if rc != 0:
            rc, out2 = sh(["ocamlfind", "ocamlopt", "-w", "-a"] + mls + ["-o", "run"], cwd=outdir, timeout=timeout)
        if rc == 0:
            open(stamp, "w").write(h)
        return rc, out + out2, exe


def build_go(cmdname, timeout=1200):
    """go build -tags verif of harness/cmd/<cmdname> against /repo's working tree."""
    os.makedirs(BUILD, exist_ok=True)
    exe = os.path.join(BUILD, cmdname)
    with Lock("go"):
        sh(["cp", os.path.join(REPO, "go.sum"), os.path.join(HARNESS, "go.sum")])
        rc, out = sh(["go", "build", "-tags", "verif", "-o", exe, "./cmd/" + cmdname], cwd=HARNESS, env=env_go(), timeout=timeout)
    return rc, out, exe


def translate(name, out_name, extra_args=(), timeout=600):
    """Regenerate coq/Generated/<out_name> from REPO's current source with translator/cmd/<name>
    (a Go program using go/parser etc.; std library only).  The generator must write the file only
    when its content changes (so that make stays incremental).  Returns (rc, log)."""
    tdir = os.path.join(VERIF, "translator")
    exe = os.path.join(BUILD, "translate-" + name)
    os.makedirs(os.path.join(COQ, "Generated"), exist_ok=True)
    with Lock("go-translator"):
        e = env_go()
        e["GOTOOLCHAIN"] = "local"
        rc, out = sh(["go", "build", "-o", exe, "./cmd/" + name], cwd=tdir, env=e, timeout=timeout)
    if rc != 0:
        return rc, out
    target = os.path.join(COQ, "Generated", out_name)
    tmp = target + ".tmp"
    rc, out = sh([exe, "--repo", REPO, "--out", tmp] + list(extra_args), cwd=tdir, timeout=timeout)
    if rc != 0:
        return rc, out
    new = open(tmp).read()
    old = open(target).read() if os.path.exists(target) else None
    if new != old:
        os.replace(tmp, target)
        out += "\n[generated file changed: %s]" % out_name
    else:
        os.remove(tmp)
    return 0, out


def run_model(exe, cases_path, out_path, timeout=3000):
    """Feed 'ID<TAB>INPUT' lines to the model runner; it prints 'ID<TAB>MODEL<TAB>SPEC'."""
    with open(cases_path) as f, open(out_path, "w") as g:
        p1 = subprocess.Popen(["cut", "-f1,2"], stdin=f, stdout=subprocess.PIPE)
        p2 = subprocess.Popen([exe], stdin=p1.stdout, stdout=g, stderr=subprocess.PIPE)
        p1.stdout.close()
        try:
            _, err = p2.communicate(timeout=timeout)
        except subprocess.TimeoutExpired:
            p2.kill()
            return 124, "model runner timeout"
        return p2.returncode, err.decode("utf-8", "replace")[-2000:]


def read_known_findings():
    path = os.path.join(VERIF, "KNOWN_FINDINGS.txt")
    findings = {}
    if not os.path.exists(path):
        return findings
    for line in open(path):
        line = line.strip()
        m = re.match(r"finding:\s+property=(C\d+)\s+id=(\S+)\s+(.*)$", line)
        if m:
            findings.setdefault(m.group(1), {})[m.group(2)] = m.group(3)
    return findings


class Check:
    def __init__(self, pid, argv):
        self.pid = pid
        self.t0 = time.time()
        self.tier = os.environ.get("VERIF_TIER", "quick")
        self.replay_in = None
        i = 0
        while i < len(argv):
            if argv[i] == "--tier":
                self.tier = argv[i + 1]; i += 1
            elif argv[i] == "--replay":
                self.replay_in = os.path.abspath(argv[i + 1]); i += 1   # harnesses run in their own directory
            i += 1
        if self.tier not in ("quick", "thorough"):
            self.tier = "quick"
        try:
            self.seed = int(os.environ.get("VERIF_SEED", "1"))
        except ValueError:
            self.seed = 1
        self.violations = []       # list of (replay_path, no_input)
        self.known_hits = {}       # finding id -> (count, example)
        self.known = read_known_findings().get(pid, {})
        self.coverage = {}
        self.assumptions = []
        self.notes = []
        prepare_alt()
        os.makedirs(EVIDENCE, exist_ok=True)
        os.makedirs(REPLAY, exist_ok=True)
        os.makedirs(BUILD, exist_ok=True)

    # ---- reporting -------------------------------------------------
    def log(self, *a):
        print("[%s %6.1fs]" % (self.pid, time.time() - self.t0), *a, flush=True)

    def violation(self, obj, no_input=False, tag="v"):
        """Record a violation; obj is written as the replay file."""
        n = len(self.violations) + 1
        path = os.path.join(REPLAY, "%s-%s%d.json" % (self.pid, tag, n))
        obj = dict(obj)
        obj.setdefault("property", self.pid)
        obj.setdefault("seed", self.seed)
        obj.setdefault("tier", self.tier)
        with open(path, "w") as f:
            json.dump(obj, f, indent=1, default=str)
        self.violations.append((path, no_input))
        print("VIOLATION property=%s replay=%s%s" % (self.pid, path, " no-failing-input-found" if no_input else ""), flush=True)

    def known_finding(self, fid, example):
        """Attribute a failure to a listed finding (only ids present in KNOWN_FINDINGS.txt)."""
        if fid not in self.known:
            return False
        c, ex = self.known_hits.get(fid, (0, example))
        self.known_hits[fid] = (c + 1, ex)
        return True

    def finish(self, level="proof"):
        for fid, (c, ex) in sorted(self.known_hits.items()):
            print("KNOWN-FINDING: property=%s id=%s %s (e.g. %s; %d cases this run)" % (self.pid, fid, self.known[fid], ex, c), flush=True)
        cov = dict(self.coverage)
        cov.setdefault("samples", [])
        ev = {
            "property_id": self.pid,
            "tier": self.tier,
            "seed": self.seed,
            "level": level,
            "coverage": cov,
            "assumptions": self.assumptions,
            "wall_s": round(time.time() - self.t0, 2),
            "violations": len(self.violations),
            "known_findings_seen": {k: v[0] for k, v in self.known_hits.items()},
            "notes": self.notes,
        }
        with open(os.path.join(EVIDENCE, self.pid + ".json"), "w") as f:
            json.dump(ev, f, indent=1, default=str)
        self.log("done: %d violation(s), %d known finding(s), %.1fs" % (len(self.violations), len(self.known_hits), time.time() - self.t0))
        sys.exit(1 if self.violations else 0)

    # ---- proof side --------------------------------------------------
    def proofs(self, extra_targets=()):
        """Build the Coq closure of Properties/<pid>.v; returns True when every obligation is discharged
        with allowed axioms only. Records obligations/discharged/trusted base in coverage.
        A failure is recorded in self.proof_break (the caller then searches for a failing input)."""
        self.proof_break = None
        bad = scan_forbidden()
        if bad:
            self.proof_break = {"kind": "forbidden-token", "where": bad[:10]}
        deps_target = "Properties/%s.vo" % self.pid
        rc, out = coq_make([deps_target] + list(extra_targets))
        rep = compile_properties(self.pid) if rc == 0 or True else None
        if rc != 0 and rep["ok"]:
            rep["ok"] = False
        cov = self.coverage
        cov["obligations"] = rep["obligations"]
        cov["discharged"] = rep["discharged"] if rc == 0 or not rep["ok"] else 0
        cov["checker_cmd"] = "coq_makefile -f _CoqProject -o Makefile && make Properties/%s.vo (coqc 8.16.1, full .vo build); coqc Properties/%s.v for Print Assumptions" % (self.pid, self.pid)
        cov["theorems"] = rep["names"]
        cov["axioms_print_assumptions"] = rep["axioms"]
        if rc != 0:
            m = re.search(r'File "\./([^"]+)", line (\d+)', out)
            where = "%s:%s" % (m.group(1), m.group(2)) if m else "?"
            self.proof_break = {"kind": "coq-build-failed", "where": where, "failed_theorem": rep.get("failed_at"), "log": out[-3000:]}
        elif not rep["ok"]:
            self.proof_break = {"kind": "property-file-failed", "failed_theorem": rep.get("failed_at"), "log": rep["log"][-3000:]}
        elif rep["bad_axioms"]:
            self.proof_break = {"kind": "axiom-not-allowed", "axioms": rep["bad_axioms"]}
        if self.proof_break is None and self.tier == "thorough" and os.environ.get("VERIF_NO_COQCHK") != "1":
            # independent re-check of the compiled closure of the property file (once per thorough run)
            t1 = time.time()
            with Lock("coq"):
                rc2, out2 = sh(["coqchk", "-silent", "-o", "-Q", ".", "ZV", "ZV.Properties." + self.pid], cwd=COQ, timeout=5400)
            cov["coqchk"] = {"rc": rc2, "wall_s": round(time.time() - t1, 1), "tail": out2[-1500:]}
            if rc2 != 0:
                self.proof_break = {"kind": "coqchk-failed", "log": out2[-3000:]}
        if self.proof_break:
            self.log("PROOF BREAK:", json.dumps(self.proof_break)[:600])
        else:
            self.log("proofs ok: %d/%d obligations, axioms: %s" % (cov["discharged"], cov["obligations"], ", ".join(rep["axioms"]) or "none"))
        return self.proof_break is None

    def trusted_base(self, extra=()):
        tb = [
            "Coq 8.16.1 kernel (coqc; vm_compute used, native_compute not used)",
            "axioms reported by Print Assumptions: " + (", ".join(self.coverage.get("axioms_print_assumptions", [])) or "none (closed under the global context)"),
            "extraction: ExtrOcamlBasic only (Extract Inductive bool/option/unit/list/prod/sumbool, Extract Inlined Constant andb/orb/negb/fst/snd); Z/N/positive stay Coq datatypes",
            "OCaml model runner (parsing of case lines, printing) and Go harness (canonicalisation of observables)",
        ] + list(extra)
        self.coverage["trusted_base"] = tb

    # ---- harness side ------------------------------------------------
    def harness(self, cmdname, extra_args=(), timeout=3000):
        rc, out, exe = build_go(cmdname)
        if rc != 0:
            self.log("go build failed:\n" + out[-3000:])
            self.violation({"kind": "harness-build-failed", "log": out[-3000:],
                            "note": "the harness no longer builds against /repo (an accessor or API it relies on changed); the correspondence cannot be checked"}, no_input=True, tag="build")
            return None
        cases = os.path.join(BUILD, "%s.cases" % self.pid)
        stats = os.path.join(BUILD, "%s.stats" % self.pid)
        args = [exe, "--seed", str(self.seed), "--tier", self.tier, "--out", cases, "--stats", stats]
        if self.replay_in:
            args += ["--replay", self.replay_in]
        args += list(extra_args)
        rc, out = sh(args, cwd=BUILD, timeout=timeout, env=env_go())
        if rc != 0:
            self.log("harness failed rc=%s:\n%s" % (rc, out[-3000:]))
            self.violation({"kind": "harness-crashed", "rc": rc, "log": out[-3000:]}, no_input=(rc == 124), tag="crash")
            return None
        st = json.load(open(stats)) if os.path.exists(stats) else {}
        for k in ("evaluations", "distinct_nontrivial", "rule", "samples", "distribution"):
            if k in st:
                self.coverage[k] = st[k]
        for k, v in st.items():
            self.coverage.setdefault(k, v)
        self.harness_log = out
        return cases

    def model(self, cases, extract_pid=None):
        rc, out, exe = build_ocaml(extract_pid or self.pid)
        if rc != 0:
            self.log("ocaml/extraction build failed:\n" + out[-3000:])
            self.proof_break = self.proof_break or {"kind": "extraction-failed", "log": out[-2000:]}
            return None
        mout = os.path.join(BUILD, "%s.model" % self.pid)
        rc, err = run_model(exe, cases, mout)
        if rc != 0:
            self.log("model runner failed: " + err)
            self.proof_break = self.proof_break or {"kind": "model-runner-failed", "log": err}
            return None
        return mout


def iter_joined(cases, mout):
    """Yield (id, input, impl, model, spec) from the cases file and the model output."""
    with open(cases) as f, open(mout) as g:
        for lc, lm in zip(f, g):
            a = lc.rstrip("\n").split("\t")
            b = lm.rstrip("\n").split("\t")
            if len(a) < 3:
                a += [""] * (3 - len(a))
            if len(b) < 3:
                b += [""] * (3 - len(b))
            if a[0] != b[0]:
                raise RuntimeError("case/model id mismatch %r %r" % (a[0], b[0]))
            yield a[0], a[1], a[2], b[1], b[2]
