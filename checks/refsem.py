"""Shared driver for the checks whose specification is the reference evaluator coq/Model/RefSem.v
(C02, C03; reusable by others): run the Go harness (programs -> real interpreter), run the
extracted evaluator on the same programs, compare observables, shrink and classify disagreements."""
import json
import os

from . import common
from .common import Check


def unesc(s):
    out, i = [], 0
    while i < len(s):
        if s[i] == "\\" and i + 1 < len(s):
            out.append({"n": "\n", "t": "\t", "\\": "\\"}.get(s[i + 1], s[i + 1]))
            i += 2
        else:
            out.append(s[i])
            i += 1
    return "".join(out)


def conclusive(obs):
    return obs not in ("BUDGET", "FUEL", "UNSPEC") and not obs.startswith("BADINPUT")


def same_obs(impl, model):
    """Equal observables; two errors with the same trace agree even when their coarse class differs
    (the class is read off the interpreter's error text, which a harmless rewording may change),
    except that the injected user error of failk must be matched exactly. Returns (agree, class_differs)."""
    if impl == model:
        return True, False
    if impl.startswith("E:") and model.startswith("E:"):
        ci, _, ti = impl.partition("|")
        cm, _, tm = model.partition("|")
        if ti == tm and "user" not in (ci[2:], cm[2:]):
            return True, True
    return False, False


def run(pid, cmd, argv, trusted, known_classifiers, extra=None):
    """known_classifiers: finding id -> predicate(shrunk-record) (narrow classifier)."""
    c = Check(pid, argv)
    c.proofs()
    c.trusted_base(trusted)
    c.assumptions += [
        "the Go harness renders the same program in the real surface syntax and in the prefix form read by the model runner (harness/refgen/ast.go)",
        "error classes are obtained from the text of the interpreter's error (harness/refgen/run.go:ErrClass)",
    ]
    rc, out, model_exe = common.build_ocaml("RefSem")
    if rc != 0:
        c.log("extraction/ocaml build failed:\n" + out[-3000:])
        c.proof_break = c.proof_break or {"kind": "extraction-failed", "log": out[-2000:]}
    cases = c.harness(cmd, timeout=900) if rc == 0 else None
    if cases is None and rc == 0:
        # the harness stopped early (watchdog: an evaluation did not return); what it had written
        # before is still compared, so that a concrete failing program can be reported as well
        part = os.path.join(common.BUILD, "%s.cases" % pid)
        if os.path.exists(part) and os.path.getmtime(part) >= c.t0 and os.path.getsize(part) > 0:
            cases = part
            c.notes.append("the harness stopped early; the cases written before the stop were compared")
    fails, n, agree, inconcl, twins, unspec, panics = [], 0, 0, 0, 0, 0, []
    twin_ok = {}
    class_diff = 0
    listing_n, listing_skipped, listing_bad = 0, 0, []
    if cases:
        mout = c.model(cases, extract_pid="RefSem")
        if mout:
            with open(cases) as f, open(mout) as g:
                for lc, lm in zip(f, g):
                    a = lc.rstrip("\n").split("\t")
                    b = lm.rstrip("\n").split("\t")
                    if a[0] != b[0]:
                        raise RuntimeError("case/model id mismatch %r %r" % (a[0], b[0]))
                    cid, inp, impl, src = int(a[0]), a[1], a[2], unesc(a[3]) if len(a) > 3 else ""
                    model = b[1]
                    if inp.startswith("bytecode="):
                        # tie of the Gallina generator model (coq/Model/GenF0.v) to the real generator
                        listing_n += 1
                        if model in ("NOTF0", "NOTF1", "NOTF2"):
                            listing_skipped += 1
                        elif impl != model:
                            listing_bad.append({"source": src, "real_generator": impl, "model_generator": model, "prefix": inp})
                        continue
                    if inp.startswith("twin="):
                        twins += 1
                        kind, orig, shadow = (inp.split(" ", 1)[0][5:].split(":") + ["0"])[:3]
                        # the twin (no self tail call possible) agrees with the model AND the original program
                        # has the narrow shape of the finding (its defn's own name is rebound where it matters)
                        twin_ok[(int(orig), kind)] = conclusive(impl) and same_obs(impl, model)[0] and shadow == "1"
                        continue
                    n += 1
                    if impl.startswith("PANIC"):
                        panics.append({"id": cid, "source": src, "implementation": impl, "model": model})
                        continue
                    if model == "UNSPEC":
                        unspec += 1
                    if impl == "BUDGET" and conclusive(model):
                        fails.append((len(inp), cid, src, impl, model, inp))
                        continue
                    if not (conclusive(impl) and conclusive(model)):
                        inconcl += 1
                        continue
                    ok, cls = same_obs(impl, model)
                    if ok:
                        agree += 1
                        class_diff += 1 if cls else 0
                    else:
                        fails.append((len(inp), cid, src, impl, model, inp))
    c.coverage["compared"] = n
    c.coverage["agree"] = agree
    c.coverage["inconclusive_budget_or_fuel_or_unspecified"] = inconcl
    c.coverage["model_declined_unspecified"] = unspec
    c.coverage["twin_cases"] = twins
    c.coverage["traces_validated_against_impl"] = agree
    c.coverage["disagreements"] = len(fails)
    if listing_n:
        c.coverage["bytecode_listings_compared"] = listing_n - listing_skipped
        c.coverage["bytecode_listings_differ"] = len(listing_bad)
    c.coverage["error_class_differs_same_trace"] = class_diff
    for p in panics[:3]:
        p["kind"] = "the interpreter panicked on a program of the core language"
        p["replay"] = "bin/check %s --replay <this file> (evaluates \"source\" in a fresh interpreter)" % pid
        c.violation(p)
    violations = 0
    if c.replay_in and fails:
        # replay of one stored program: report what it does now, no minimisation
        for _, cid, src, impl, model, inp in fails:
            violations += 1
            c.violation({"kind": "replayed program: the real interpreter and the reference evaluator disagree",
                         "source": src, "prefix": inp, "implementation": impl, "model": model, "specification": model})
        fails = []
    if fails and rc == 0:
        fails.sort()
        # a failing case whose twin (same program, rendered so that a self tail call / a shared append
        # backing array cannot occur) agrees with the model is a candidate for the matching known finding;
        # cases without such a twin are minimised first
        def pre(f):
            if twin_ok.get((f[1], "notco")):
                return "tco-by-name"
            return None
        unknown = [f for f in fails if pre(f) is None]
        chosen = unknown[:6]
        for fid in ("tco-by-name",):
            chosen += [f for f in fails if pre(f) == fid][:2]
        rest = [f for f in fails if f not in chosen]
        fails = chosen + rest
        nchosen = len(chosen)
        ids = [str(f[1]) for f in chosen]
        shr = os.path.join(common.BUILD, "%s.shrunk" % pid)
        exe = os.path.join(common.BUILD, cmd)
        args = [exe, "--seed", str(c.seed), "--tier", c.tier, "--out", shr, "--stats", shr + ".stats",
                "--shrink", ",".join(ids), "--model", model_exe]
        rc2, out2 = common.sh(args, cwd=common.BUILD, timeout=1200, env=common.env_go())
        recs = []
        if rc2 == 0 and os.path.exists(shr):
            for line in open(shr):
                line = line.strip()
                if line:
                    recs.append(json.loads(line))
        else:
            c.log("shrink run failed rc=%s: %s" % (rc2, out2[-1000:]))
        by_id = {r["id"]: r for r in recs}
        not_repro = 0
        seen_src = set()
        confirmed = set()
        for _, cid, src, impl, model, inp in fails[:nchosen]:
            r = by_id.get(cid)
            if r is None:
                r = {"id": cid, "source": src, "prefix": inp, "implementation": impl, "model": model,
                     "reproduced_in_fresh_interpreter": True, "note": "not minimised"}
            if not r.get("reproduced_in_fresh_interpreter", True) and not r.get("source"):
                not_repro += 1
                continue
            if not r.get("reproduced_in_fresh_interpreter", True) and r.get("implementation") == r.get("model"):
                not_repro += 1
                continue
            if same_obs(r.get("implementation", ""), r.get("model", ""))[0]:
                not_repro += 1
                continue
            if r["source"] in seen_src:
                continue
            seen_src.add(r["source"])
            matched = None
            for fid, pred in known_classifiers.items():
                if fid in c.known and pred(r):
                    matched = fid
                    break
            if matched:
                c.known_finding(matched, r["source"])
                confirmed.add(matched)
                continue
            violations += 1
            if violations <= 4:
                r["kind"] = ("the real interpreter and the reference evaluator (eval_program of RefSem.v) disagree on value / "
                             "error class / trace of calls to the host function trace")
                r["specification"] = r.get("model")
                r["replay"] = "bin/check %s --replay <this file>   (evaluates \"source\" in a fresh interpreter and the model on \"prefix\")" % pid
                r["other_failing_case_ids"] = [f[1] for f in fails[nchosen:nchosen + 40]]
                c.violation(r)
        c.coverage["disagreements_not_reproduced_in_fresh_interpreter"] = not_repro
        if not_repro:
            c.notes.append("%d disagreement(s) of the shared-interpreter run did not reproduce in a fresh interpreter (state left behind by an earlier program; not a failure of this property)" % not_repro)
        # disagreements beyond the minimised ones: classified by their twins only when everything minimised was known
        # the cases not minimised: attributed through their twin to a finding whose minimised
        # representatives passed the narrow classifier; anything else is a violation
        left = 0
        for f in fails[nchosen:]:
            fid = pre(f)
            if fid in confirmed:
                c.known_finding(fid, f[2])
            else:
                left += 1
                if left == 1:
                    violations += 1
                    c.violation({"kind": "disagreement between the real interpreter and the reference evaluator (not minimised)",
                                 "id": f[1], "source": f[2], "prefix": f[5], "implementation": f[3], "model": f[4], "specification": f[4],
                                 "count_not_minimised": len(fails) - nchosen})
    if listing_bad:
        c.violation({"kind": "the instruction listing of the real code generator differs from the Gallina generator model coq/Model/GenF0.v:gen "
                             "(the tie of theorem vm_refines_ref_F0 to generator.go is broken; this alone is not a failing input of the property)",
                     "count": len(listing_bad), "cases": listing_bad[:5]}, no_input=True, tag="gen")
    extra_viol = extra(c, model_exe) if (extra and rc == 0) else 0
    if not violations and not panics and not extra_viol:
        if c.proof_break:
            c.violation({"kind": "proof obligation / extraction no longer checks", "detail": c.proof_break}, no_input=True, tag="proof")
    c.coverage["property_failures"] = violations + len(panics)
    c.finish("proof")
