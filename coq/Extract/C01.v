(* Extraction of the C01 generator-shape model to OCaml (ExtrOcamlBasic only). *)
From Coq Require Import ZArith ExtrOcamlBasic.
Require Import ZV.Model.GenShape ZV.Model.CallCheck ZV.Model.Destructure.
Extraction "model.ml" Z.add Z.mul Z.opp Z.div_eucl Z.of_nat Z.to_nat Z.compare
  load_deferred size call_check assign_arrays bindlist.
