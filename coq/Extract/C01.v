(* Extraction of the C01 generator-shape model to OCaml (ExtrOcamlBasic only). *)
From Coq Require Import ZArith String ExtrOcamlBasic.
Require Import ZV.Model.GenShape ZV.Model.CallCheck ZV.Model.Destructure ZV.Model.PrattShape.
(* Coq strings become lists of (extracted) ascii, so that model.ml defines no type called
   `string` (ocaml/common/zutil.ml opens Model and uses OCaml's string type). *)
Extract Inductive string => "(ascii list)" [ "[]" "(fun (a, s) -> a :: s)" ]
  "(fun fe fs s -> match s with [] -> fe () | a :: s' -> fs a s')".
Extraction "model.ml" Z.add Z.mul Z.opp Z.div_eucl Z.of_nat Z.to_nat Z.compare
  load_deferred size call_check assign_arrays bindlist expand_auto mk_tok infix_form_auto.
