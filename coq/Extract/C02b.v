(* Extraction of the pure builtin model of C02 (coq/Model/Builtins.v) to OCaml (ExtrOcamlBasic only). *)
From Coq Require Import ZArith ExtrOcamlBasic.
From Flocq Require Import IEEE754.Binary IEEE754.Bits.
Require Import ZV.Model.Num ZV.Model.Builtins.
Extraction "model.ml" Z.add Z.mul Z.opp Z.div_eucl Z.of_nat Z.to_nat Z.compare
  beval apply_n b64_of_bits bits_of_b64 is_nanb.
