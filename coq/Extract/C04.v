(* Extraction of the C04 abstract machine, certificate checker and trace-conformance
   decision to OCaml.  ExtrOcamlBasic only; nat/Z stay Coq datatypes. *)
From Coq Require Import ZArith List ExtrOcamlBasic.
Require Import ZV.Model.Bytecode ZV.Model.Verifier ZV.Model.Resident.
Extraction "model.ml" Z.add Z.mul Z.opp Z.div_eucl Z.of_nat Z.to_nat Z.compare
  eff targets find_loop asucc check_fn check_state flows mem entry_state tail_entry_unique
  effect_ok return_ok enter_ok rest_depths at_rest run_finish astate_eqb
  compile exec_fate exec_history obs_of i_new quiet at_rest_all.
