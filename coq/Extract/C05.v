(* Extraction for C05: sessions over the reference evaluator; the phase model. ExtrOcamlBasic only. *)
From Coq Require Import ZArith ExtrOcamlBasic.
Require Import ZV.Model.RefSem ZV.Model.ErrCont ZV.Model.Phases.
Extraction "model.ml" Z.add Z.mul Z.opp Z.div_eucl Z.of_nat Z.to_nat Z.compare
  run_session eval_session eval_text prim_ident all_prims cc
  psession_obs i_init read_spec force.
