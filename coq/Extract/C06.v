(* Extraction of the C06 model (Pratt parser over the generated table) and of the
   specification (split-at-weakest oracle over the documented table) to OCaml. *)
From Coq Require Import ZArith String List ExtrOcamlBasic.
Require Import ZV.Model.PrattLvalue ZV.Model.PrattSlice ZV.Model.PrattTypes ZV.Model.Pratt ZV.Model.PrattSpec ZV.Model.PrattFor ZV.Generated.InfixTable.
(* the lexer model and the ring-free specification lexer; required AFTER the Pratt modules so that the
   Pratt token constructors keep their names in model.ml (the driver only uses lex_obs / lexp_obs) *)
Require Import ZV.Model.Lexer ZV.Model.LexerPrev.
(* Coq strings become lists of (extracted) ascii, so that model.ml defines no type called
   `string` (ocaml/common/zutil.ml opens Model and uses OCaml's string type). *)
Extract Inductive string => "(ascii list)" [ "[]" "(fun (a, s) -> a :: s)" ]
  "(fun fe fs s -> match s with [] -> fe () | a :: s' -> fs a s')".
Extraction "model.ml" Z.add Z.mul Z.opp Z.div_eucl Z.of_nat Z.to_nat Z.compare
  infix_entries infix_lbp m_parse_block m_parse_one norm_selector led_of nud_of led_head nud_head
  dget assign nkeys select_model select_spec shape_of split_colon_tail yield parse_block_for for_consts Doc.block Doc.parse Doc.selector Doc.bin_head
  lex_obs lexp_obs.
