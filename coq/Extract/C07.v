(* Extraction of the C07 model and specification to OCaml (ExtrOcamlBasic only;
   Z/positive/N stay Coq datatypes). Run coqc from the target directory. *)
From Coq Require Import ZArith ExtrOcamlBasic.
From Flocq Require Import IEEE754.Binary IEEE754.Bits.
Require Import ZV.Model.Num ZV.Model.NumSpec ZV.Model.NumBits.
Extraction "model.ml" Z.add Z.mul Z.opp Z.div_eucl Z.of_nat Z.to_nat Z.compare
  compare_function spec_cmp numeric_do b64_of_bits bits_of_b64 is_nanb wf_num spec_arith mod_do spec_mod numeric_fold
  integer_do spec_integer int_function complement spec_complement spec_fold numeric_builtin.
