(* Extraction of the C08 capability model (with the generated tables) to OCaml (ExtrOcamlBasic only;
   Coq strings stay the String/Ascii datatypes, converted in ocaml/c08/run.ml). *)
From Coq Require Import ZArith String ExtrOcamlBasic.
Require Import ZV.Generated.SandboxTables ZV.Model.Sandbox ZV.Model.Cmdline ZV.Model.Family.
Extraction "model.ml" Z.add Z.mul Z.opp Z.div_eucl Z.of_nat Z.to_nat Z.compare
  predicted_effects sandboxed run_abs impure_entries cfg_name run_cmdline last_sandbox is_flag session
  ctx_of run_family names_of flag_of origin_of family_predicted construction scan st0.
