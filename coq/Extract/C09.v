(* Extraction of the reference evaluator copy and of the model of the self-tail-call optimisation. *)
From Coq Require Import ZArith ExtrOcamlBasic.
Require Import ZV.Model.RefSemTco ZV.Model.TailSites ZV.Model.TailSitesRun.
Extraction "model.ml" Z.add Z.mul Z.opp Z.div_eucl Z.of_nat Z.to_nat Z.compare
  eval_program_cfg eval_program_tco prim_ident all_prims cc
  jumps_run spec_jumps all_pos.
