(* Extraction of the C10 model (GoConv), the kind table (GoConvKinds) and the specification (GoConvSpec) to OCaml. *)
From Coq Require Import ZArith ExtrOcamlBasic.
Require Import ZV.Model.GoConv ZV.Model.GoConvSpec ZV.Model.GoConvKinds.
Extraction "model.ml" Z.add Z.mul Z.opp Z.div_eucl Z.of_nat Z.to_nat Z.compare
  to_go echo spec_to_go spec_echo wf_tenv spec_dets find_reg find_struct hist_convert hist_receiver hist_return hash_set
  jsonmap lookup_last resolve spec_find designates conv denote zero_of empty_state kind_table skind_of tkind_of.
