(* Extraction of the C11 model (encoder, RFC 8259 reader, decoder route) and of the
   specification functions (tree_of, norm, domain predicates) to OCaml. *)
From Coq Require Import ZArith List ExtrOcamlBasic.
Require Import ZV.Model.Json ZV.Model.Msgpack.
Extraction "model.ml" Z.add Z.mul Z.opp Z.div_eucl Z.of_nat Z.to_nat Z.compare
  to_json json_quote json_parse tree_of of_tree unjson norm wf data no_reserved_keys sym_keys
  pstr fix_str float_token str_eqb int_token run_ops
  msgpack_bytes unmsgpack_bytes unjson_go gtree_of gt_ok mp_decode mp_bytes go_of_tree sexp_of_go.
