(* Extraction of the C12 model (printers, literal conversion, reading through the C13 lexer/reader). *)
From Coq Require Import ZArith List ExtrOcamlBasic.
Require Import ZV.Model.Regex ZV.Generated.LexTables ZV.Model.Lexer ZV.Model.Reader ZV.Model.Printer ZV.Model.PrinterPretty ZV.Model.StrLit.
Extraction "model.ml" Z.add Z.mul Z.opp Z.div_eucl Z.of_nat Z.to_nat Z.compare
  lex_text lex_all init_lstate decode_atom parse_whole observe
  quote_str quote_rune print scan_text read to_sexp atom_value float_text ftok_text
  spell math_value pos_value digit_of itoa utoa hist_apply eval_json_like jv_of save_text read_repl split_lines read_pieces
  pprint ppr decorate erase pwf psave_text
  str_spelling chr_spelling bt_spelling denote litem_rune litem_wf std_escape.
