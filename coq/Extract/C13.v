(* Extraction of the C13 model (lexer, reader, delivery in pieces) to OCaml. *)
From Coq Require Import ZArith List ExtrOcamlBasic.
Require Import ZV.Model.Regex ZV.Generated.LexTables ZV.Model.Lexer ZV.Model.Reader ZV.Model.TokScan ZV.Model.ReaderSession.
Extraction "model.ml" Z.add Z.mul Z.opp Z.div_eucl Z.of_nat Z.to_nat Z.compare
  lex_text decode_atom lex_all init_lstate reset
  p_init p_reset p_deliver mark_last parse_after parse_whole parse_pieces observe unfinished scan tok_verdict text_tokens curly_plain
  join_lines repl_read new_parser do_call do_calls piece_calls read_after read_pieces_after.
