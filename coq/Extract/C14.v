(* Extraction of the C14 model (hash table of the code) and specification (ordered
   association list) to OCaml.  ExtrOcamlBasic only; Z/positive stay Coq datatypes. *)
From Coq Require Import ZArith List ExtrOcamlBasic.
Require Import ZV.Model.HashTbl ZV.Model.HashObj.
Extraction "model.ml" Z.add Z.mul Z.opp Z.div_eucl Z.of_nat Z.to_nat Z.compare
  empty make_hash step s_step hash_get hash_get_default len keys hpair range_pair range_key
  str_obs json_obs loop_macro loop_infix abs
  s_lookup s_get s_len s_keys s_pair s_range_key s_str s_json s_loop
  ceq kid unwrap ahash khash key_ok
  erase oid oceq ohash okid ounwrap okey_ok ostep orun os_step erase_op state_obs.
