(* Extraction of the C15 model and specification to OCaml (ExtrOcamlBasic only). *)
From Coq Require Import ZArith ExtrOcamlBasic.
Require Import ZV.Model.Templ ZV.Model.MacroGen.
Extraction "model.ml" Z.add Z.mul Z.opp Z.div_eucl Z.of_nat Z.to_nat Z.compare
  value_eqb sq_model gen_sq run subst elems is_splice reify wf view hshort macro_expand strip gen_fn chk.
