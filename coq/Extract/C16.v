(* Extraction of the reference evaluator with lazy formals (C16).
   ExtrOcamlBasic only; Z/positive/nat stay Coq datatypes. *)
From Coq Require Import ZArith ExtrOcamlBasic.
Require Import ZV.Model.RefSemLazy.
Extraction "model.ml" Z.add Z.mul Z.opp Z.div_eucl Z.of_nat Z.to_nat Z.compare
  eval_program_cfg eval_program call_by_symbol force_n strict_cc prim_ident all_prims cc
  kw_begin kw_cond kw_and kw_or kw_def kw_set kw_quote kw_nil.
