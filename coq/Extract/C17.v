(* Extraction of the C17 model (step) and specification (spec_step, invb) to OCaml. *)
From Coq Require Import ZArith ExtrOcamlBasic.
Require Import ZV.Model.Struct.
Extraction "model.ml" Z.add Z.mul Z.opp Z.div_eucl Z.of_nat Z.to_nat Z.compare
  init_state step spec_step invb alookup resolve.
