(* Extraction of the C18 model (Model/Pkg.v, Model/PkgRoutes.v) and specification (Model/PkgSpec.v) to OCaml. *)
From Coq Require Import ZArith ExtrOcamlBasic.
Require Import ZV.Model.Pkg ZV.Model.PkgSpec ZV.Model.PkgRoutes.
Extraction "model.ml" Z.add Z.mul Z.opp Z.div_eucl Z.of_nat Z.to_nat Z.compare
  heap0 build_world run_op spec_op hash_map scope_map route_run route_spec.
