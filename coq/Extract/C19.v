(* Extraction of the C19 model (symbol tables of a family of interpreters) and of the
   injective-table specification to OCaml (ExtrOcamlBasic only). Run coqc from the target directory. *)
From Coq Require Import ZArith ExtrOcamlBasic.
Require Import ZV.Model.Symtab ZV.Model.SymtabScript.
Extraction "model.ml" Z.add Z.mul Z.opp Z.div_eucl Z.of_nat Z.to_nat Z.compare
  run step inv_check compare_symbol compare_symbols hash_symbol spec_check spec_accepts name_eqb itoa lookup_name
  expand script_ops script_layout members_valid layout_ok scope_run nscope_run site_prefixes.
