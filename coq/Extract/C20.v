(* Extraction of the C20 model (Model/MapWalkKeys.v) to OCaml (ExtrOcamlBasic only). *)
From Coq Require Import ZArith ExtrOcamlBasic.
Require Import ZV.Model.MapWalkKeys.
Extraction "model.ml" Z.add Z.mul Z.opp Z.div_eucl Z.of_nat Z.to_nat Z.compare
  str_ltb str_eqb sort_strings sorted_slices folded_slices ascii_lower
  new_zlisp_symtab new_zlisp_symtab_unsorted symnums spec_builtin_symnum rank s_null s_nil
  assoc_lookup named_args_final named_args_check first_offender_walk first_offender_sorted.
