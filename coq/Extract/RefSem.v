(* Extraction of the reference evaluator (shared by C02, C03 and the properties that reuse it).
   ExtrOcamlBasic only; Z/positive/nat stay Coq datatypes. *)
From Coq Require Import ZArith ExtrOcamlBasic.
Require Import ZV.Model.RefSem ZV.Model.GenF0 ZV.Model.GenF1 ZV.Model.ScopeImpl.
Definition f1_gen := GenF1.gen.
Definition f1_ok := GenF1.f1.
Definition f1_top := GenF1.top.
Definition f1_fun_code := GenF1.fun_code.
Definition f1_init_ne := GenF1.init_ne.
Extraction "model.ml" Z.add Z.mul Z.opp Z.div_eucl Z.of_nat Z.to_nat Z.compare
  eval_program_cfg eval_program prim_ident all_prims cc GenF0.gen GenF0.f0 f1_gen f1_ok f1_top f1_fun_code f1_init_ne
  init_istateF add_scopeF add_func_scopeF pop_scopesF create_closureF pseudoF set_curF impl_lookupF covb call_premise_b.
