(* Extraction of the reference evaluator (shared by C02, C03 and the properties that reuse it).
   ExtrOcamlBasic only; Z/positive/nat stay Coq datatypes. *)
From Coq Require Import ZArith ExtrOcamlBasic.
Require Import ZV.Model.RefSem ZV.Model.GenF0.
Extraction "model.ml" Z.add Z.mul Z.opp Z.div_eucl Z.of_nat Z.to_nat Z.compare
  eval_program_cfg eval_program prim_ident all_prims cc gen f0.
