(* Pure model of the DATA builtins of zygomys (property C02, second model next to RefSem.v).
   Executable definitions only; proofs are in Proofs/BuiltinsProofs.v.

   Mirrors (each definition names its Go function):
     functions.go   FirstFunction RestFunction SecondFunction ConsFunction ConstructorFunction(list/array)
                    AppendFunction(append/appendslice) ConcatFunction LenFunction ArrayAccessFunction(aget)
                    SliceFunction NotFunction NumericFunction CompareFunction BinaryIntFunction(mod)
                    TypeQueryFunction Sym2StrFunction Str2SymFunction StringifyFunction MapFunction ApplyFunction
     listutils.go   ListToArray MakeList MapList ConcatLists ConcatTwoLists ListLen
     arrayutils.go  MapArray ConcatArray
     strutils.go    ConcatStr AppendStr
     system.go      FlattenToWordsFunction flattenToWordsHelper
     typeutils.go   IsList IsNumber IsZero IsEmpty TypeOf
     expressions.go IsTruthy, SexpString (int, bool, nil, symbol, plain strings, proper lists, arrays)
     comparisons.go Compare (all kinds of this universe; numbers through Num.v = C07's model)
     numerictower.go NumericDo / IntegerDo(Modulo) (through Num.v)
     isnan          comparisons.go IsNaNFunction
   Values are immutable here: no builtin of this file may change an argument (the tie checks this
   on the real code with arguments that are used again after the call).
   Strings and symbol names are lists of BYTES, chars are runes (int32), floats are Flocq binary64.
   Outcomes: Val v | Fail (the builtin returns an error; a Go panic inside a builtin is recovered by
   CallUserFunction and is an error too) | Unspec (the model declines: behaviour depending on things
   outside this universe: slice capacity, symbol numbers, float printing ...). *)
From Coq Require Import ZArith Bool List.
From Flocq Require Import IEEE754.Binary IEEE754.Bits.
Require Import ZV.Model.Num.
Import ListNotations.
Open Scope Z_scope.

Inductive pred := PList | PNull | PArray | PNumber | PInt | PFloat | PChar | PSymbol | PString
                | PZero | PEmpty | PFunc | PHash.

Inductive bfun :=
| FFirst | FRest | FSecond | FCons | FList | FArray | FAppend | FAppendSlice | FConcat | FFlatten
| FLen | FAget | FSlice | FNot | FArith (op : arop) | FCmp (op : cmpop) | FMod
| FSym2Str | FStr2Sym | FStr | FTypeQ | FPred (p : pred) | FIsNan | FMap | FApply.

Inductive val :=
| VInt (z : Z)            (* SexpInt, int64 *)
| VFlt (f : f64)          (* SexpFloat *)
| VChar (c : Z)           (* SexpChar, rune *)
| VStr (s : list Z)       (* SexpStr, bytes *)
| VSym (n : list Z)       (* SexpSymbol, its name *)
| VBool (b : bool)
| VNil                    (* SexpNull *)
| VPair (h t : val)       (* SexpPair *)
| VArr (l : list val)     (* SexpArray *)
| VFun (f : bfun).        (* SexpFunction of a builtin *)

Inductive out (A : Type) := Val (a : A) | Fail | Unspec.
Arguments Val {A}. Arguments Fail {A}. Arguments Unspec {A}.

Definition bind {A B} (x : out A) (k : A -> out B) : out B :=
  match x with Val a => k a | Fail => Fail | Unspec => Unspec end.

(* ASCII texts are written as byte lists: "int64" = [105; 110; 116; 54; 52] etc. *)

(* ---- expressions.go: IsTruthy ---- *)
Definition is_truthy (v : val) : bool :=
  match v with
  | VBool b => b
  | VInt z => negb (z =? 0)
  | VChar c => negb (c =? 0)
  | VNil => false
  | _ => true
  end.

(* ---- typeutils.go: IsList / listutils.go: ListToArray, MakeList, ListLen ---- *)
Fixpoint is_list (v : val) : bool :=
  match v with VNil => true | VPair _ t => is_list t | _ => false end.

Fixpoint list_to_array (v : val) : option (list val) :=
  match v with
  | VNil => Some []
  | VPair h t => match list_to_array t with Some l => Some (h :: l) | None => None end
  | _ => None
  end.

Fixpoint make_list (l : list val) : val :=
  match l with [] => VNil | x :: r => VPair x (make_list r) end.

Fixpoint list_len (v : val) : option Z :=
  match v with
  | VNil => Some 0
  | VPair _ t => match list_len t with Some n => Some (1 + n) | None => None end
  | _ => None
  end.

Definition zlen {A} (l : list A) : Z := Z.of_nat (List.length l).

(* ---- Go: string(rune) = UTF-8 encoding; invalid runes give U+FFFD ---- *)
Definition utf8 (r : Z) : list Z :=
  if (r <? 0) || (1114111 <? r) || ((55296 <=? r) && (r <=? 57343)) then [239; 191; 189]
  else if r <? 128 then [r]
  else if r <? 2048 then [192 + r / 64; 128 + r mod 64]
  else if r <? 65536 then [224 + r / 4096; 128 + (r / 64) mod 64; 128 + r mod 64]
  else [240 + r / 262144; 128 + (r / 4096) mod 64; 128 + (r / 64) mod 64; 128 + r mod 64].

(* ---- functions.go: FirstFunction RestFunction SecondFunction ConsFunction ---- *)
Definition b_first (a : val) : out val :=
  match a with
  | VPair h _ => Val h
  | VArr (x :: _) => Val x
  | _ => Fail
  end.
Definition b_rest (a : val) : out val :=
  match a with
  | VPair _ t => Val t
  | VArr [] => Val (VArr [])
  | VArr (_ :: r) => Val (VArr r)
  | VNil => Val VNil
  | _ => Fail
  end.
Definition b_second (a : val) : out val :=
  match a with
  | VPair _ (VPair h _) => Val h
  | VArr (_ :: y :: _) => Val y
  | _ => Fail
  end.

(* ---- strutils.go: AppendStr / ConcatStr ---- *)
Definition str_piece (x : val) : option (list Z) :=
  match x with VStr t => Some t | VChar c => Some (utf8 c) | _ => None end.
Fixpoint concat_str (acc : list Z) (rest : list val) : out val :=
  match rest with
  | [] => Val (VStr acc)
  | x :: r => match str_piece x with Some p => concat_str (acc ++ p) r | None => Fail end
  end.

(* ---- arrayutils.go: ConcatArray ---- *)
Fixpoint concat_arr (acc : list val) (rest : list val) : out val :=
  match rest with
  | [] => Val (VArr acc)
  | VArr l :: r => concat_arr (acc ++ l) r
  | _ :: _ => Fail
  end.

(* ---- listutils.go: ConcatTwoLists (a = VPair h t), ConcatLists ---- *)
Fixpoint concat_two (h t b : val) : option val :=
  match t with
  | VNil => Some (VPair h b)
  | VPair h' t' => match concat_two h' t' b with Some r => Some (VPair h r) | None => None end
  | _ => None
  end.
Fixpoint concat_lists (h t : val) (bs : list val) : out val :=
  match bs with
  | [] => Val (VPair h t)
  | b :: r =>
      if is_list b then
        match concat_two h t b with
        | Some (VPair h' t') => concat_lists h' t' r
        | _ => Fail
        end
      else Fail
  end.

(* ---- functions.go: ConcatFunction ---- *)
Definition b_concat (args : list val) : out val :=
  match args with
  | [] => Fail
  | VArr l :: rest => concat_arr l rest
  | VStr s :: rest => concat_str s rest
  | VPair h t :: rest => concat_lists h t rest       (* one argument: returned as it is *)
  | _ :: _ => Fail
  end.

(* ---- functions.go: AppendFunction ---- *)
Definition b_append (slice : bool) (a x : val) : out val :=
  match a with
  | VArr l =>
      if slice then match x with VArr m => Val (VArr (l ++ m)) | _ => Fail end
      else Val (VArr (l ++ [x]))
  | VStr s => match str_piece x with Some p => Val (VStr (s ++ p)) | None => Fail end
  | _ => Fail
  end.

(* ---- functions.go: LenFunction ---- *)
Definition b_len (a : val) : out val :=
  match a with
  | VNil => Val (VInt 0)
  | VArr l => Val (VInt (zlen l))
  | VStr s => Val (VInt (zlen s))
  | VPair _ _ => match list_len a with Some n => Val (VInt n) | None => Fail end
  | _ => Fail
  end.

(* ---- functions.go: ArrayAccessFunction("aget"); an index that is neither int nor char is
   handed to the evaluator by the real code: declined ---- *)
Definition idx_of (v : val) : option Z :=
  match v with VInt z => Some z | VChar c => Some c | _ => None end.
Definition b_aget (args : list val) : out val :=
  match args with
  | VArr l :: i :: more =>
      match more with
      | [] | [_] =>
        match idx_of i with
        | None => Unspec
        | Some k =>
            if (0 <=? k) && (k <? zlen l) then
              match nth_error l (Z.to_nat k) with Some x => Val x | None => Fail end
            else match more with [d] => Val d | _ => Fail end
        end
      | _ => Fail
      end
  | _ => Fail
  end.

(* ---- functions.go: SliceFunction.  An array slice whose end lies beyond the length reads the
   spare capacity of the Go slice: declined. ---- *)
Definition sub {A} (l : list A) (i j : Z) : list A := firstn (Z.to_nat (j - i)) (skipn (Z.to_nat i) l).
Definition b_slice (a s e : val) : out val :=
  match idx_of s, idx_of e with
  | Some i, Some j =>
      match a with
      | VArr l => if (i <? 0) || (j <? i) then Fail
                  else if zlen l <? j then Unspec else Val (VArr (sub l i j))
      | VStr t => if (0 <=? i) && (i <=? j) && (j <=? zlen t) then Val (VStr (sub t i j)) else Fail
      | _ => Fail
      end
  | _, _ => Fail
  end.

(* ---- numbers: through C07's model ---- *)
Definition to_num (v : val) : option num :=
  match v with VInt z => Some (NInt z) | VChar c => Some (NChar c) | VFlt f => Some (NFloat f) | _ => None end.
Definition of_num (n : num) : out val :=
  match n with NInt z => Val (VInt z) | NChar c => Val (VChar c) | NFloat f => Val (VFlt f) | NUint _ => Unspec end.
Definition lift_num (r : res num) : out val := match r with Ok n => of_num n | Err => Fail end.

(* functions.go: NumericFunction: one argument is returned as it is, whatever it is; `*` with one
   argument is the pointer-to operator (declined) *)
Fixpoint arith_fold (op : arop) (acc : val) (rest : list val) : out val :=
  match rest with
  | [] => Val acc
  | x :: r =>
      match to_num acc, to_num x with
      | Some a, Some b => bind (lift_num (numeric_do op a b)) (fun v => arith_fold op v r)
      | _, _ => Fail
      end
  end.
Definition b_arith (op : arop) (args : list val) : out val :=
  match args with
  | [] => Fail
  | [a] => match op with OpMul => Unspec | _ => Val a end
  | a :: rest => arith_fold op a rest
  end.
Definition b_mod (a b : val) : out val :=
  match to_num a, to_num b with
  | Some x, Some y => lift_num (mod_do x y)
  | _, _ => Fail
  end.

(* ---- comparisons.go: Compare.  Result 2/3 = a NaN took part.  Two different symbols compare by
   their symbol numbers (interning order): declined. ---- *)
Fixpoint bytes_compare (a b : list Z) : Z :=
  match a, b with
  | [], [] => 0
  | [], _ :: _ => -1
  | _ :: _, [] => 1
  | x :: a', y :: b' => if x <? y then -1 else if y <? x then 1 else bytes_compare a' b'
  end.
Fixpoint bytes_eqb (a b : list Z) : bool :=
  match a, b with
  | [], [] => true
  | x :: a', y :: b' => (x =? y) && bytes_eqb a' b'
  | _, _ => false
  end.
Definition signum (z : Z) : Z := if 0 <? z then 1 else if z <? 0 then -1 else 0.

Fixpoint cmp_val (a b : val) {struct a} : out Z :=
  match a with
  | VInt _ | VChar _ | VFlt _ =>
      match to_num a, to_num b with
      | Some x, Some y => match Num.compare x y with Ok r => Val r | Err => Fail end
      | _, _ => Fail
      end
  | VBool x => match b with
               | VBool y => Val (if x then (if y then 0 else 1) else (if y then -1 else 0))
               | _ => Fail end
  | VStr s => match b with VStr t => Val (bytes_compare s t) | _ => Fail end
  | VSym s => match b with VSym t => if bytes_eqb s t then Val 0 else Unspec | _ => Fail end
  | VNil => match b with VNil => Val 0 | _ => Val (-1) end
  | VPair h t =>
      match b with
      | VPair h' t' => match cmp_val h h' with Val 0 => cmp_val t t' | r => r end
      | _ => Fail
      end
  | VArr l =>
      match b with
      | VArr m =>
          (fix go (l m : list val) {struct l} : out Z :=
             match l, m with
             | x :: l', y :: m' => match cmp_val x y with Val 0 => go l' m' | r => r end
             | _, _ => Val (signum (zlen l - zlen m))
             end) l m
      | _ => Fail
      end
  | VFun _ => Fail
  end.

(* functions.go: CompareFunction *)
Definition b_cmp (op : cmpop) (a b : val) : out val :=
  bind (cmp_val a b) (fun r =>
    if 1 <? r then Val (VBool (match op with OpNe => true | _ => false end))
    else Val (VBool (match op with
                     | OpLt => r <? 0 | OpGt => 0 <? r | OpLe => r <=? 0
                     | OpGe => 0 <=? r | OpEq => r =? 0 | OpNe => negb (r =? 0) end))).

(* ---- system.go: flattenToWordsHelper; strings.Split(s, " ") ---- *)
Fixpoint split_sp (s : list Z) : list (list Z) :=
  match s with
  | [] => [[]]
  | c :: r =>
      if c =? 32 then [] :: split_sp r
      else match split_sp r with w :: ws => (c :: w) :: ws | [] => [[c]] end
  end.
Fixpoint flat1 (v : val) : option (list (list Z)) :=
  match v with
  | VStr s => Some (split_sp s)
  | VSym n => Some [n]
  | VPair h t =>
      match flat1 h, flat_tail t with
      | Some a, Some b => Some (a ++ b)
      | _, _ => None
      end
  | _ => None
  end
with flat_tail (t : val) : option (list (list Z)) :=
  match t with
  | VNil => Some []
  | VPair h t' =>
      match flat1 h, flat_tail t' with
      | Some a, Some b => Some (a ++ b)
      | _, _ => None
      end
  | _ => None
  end.
Fixpoint flat_args (args : list val) : option (list (list Z)) :=
  match args with
  | [] => Some []
  | x :: r => match flat1 x, flat_args r with Some a, Some b => Some (a ++ b) | _, _ => None end
  end.
Definition b_flatten (args : list val) : out val :=
  match args with
  | [] => Fail
  | _ => match flat_args args with Some ws => Val (VArr (List.map VStr ws)) | None => Fail end
  end.

(* ---- typeutils.go: TypeOf and the predicates of TypeQueryFunction ---- *)
Definition type_name (v : val) : list Z :=
  match v with
  | VInt _ => [105; 110; 116; 54; 52] | VFlt _ => [102; 108; 111; 97; 116; 54; 52] | VChar _ => [99; 104; 97; 114] | VStr _ => [115; 116; 114; 105; 110; 103]
  | VSym _ => [115; 121; 109; 98; 111; 108] | VBool _ => [98; 111; 111; 108] | VNil => [110; 105; 108] | VPair _ _ => [108; 105; 115; 116]
  | VArr _ => [97; 114; 114; 97; 121] | VFun _ => [102; 117; 110; 99]
  end.
Definition is_zero_flt (f : f64) : bool := match f with B754_zero _ _ _ => true | _ => false end.
Definition b_pred (p : pred) (v : val) : bool :=
  match p with
  | PList => is_list v
  | PNull => match v with VNil => true | _ => false end
  | PArray => match v with VArr _ => true | _ => false end
  | PNumber => match v with VInt _ | VFlt _ | VChar _ => true | _ => false end
  | PInt => match v with VInt _ => true | _ => false end
  | PFloat => match v with VFlt _ => true | _ => false end
  | PChar => match v with VChar _ => true | _ => false end
  | PSymbol => match v with VSym _ => true | _ => false end
  | PString => match v with VStr _ => true | _ => false end
  | PZero => match v with VInt z => z =? 0 | VChar c => c =? 0 | VFlt f => is_zero_flt f | _ => false end
  | PEmpty => match v with VNil => true | VArr [] => true | _ => false end
  | PFunc => match v with VFun _ => true | _ => false end
  | PHash => false
  end.

(* ---- expressions.go: SexpString for the kinds whose text does not depend on the float / rune
   printers of strconv (those are C12's subject): int, bool, nil, symbol, strings of plain printable
   ASCII, proper lists and arrays of these ---- *)
Fixpoint dec_pos (fuel : nat) (p : Z) (acc : list Z) : list Z :=
  match fuel with
  | O => acc
  | S k => if p <? 10 then (48 + p) :: acc else dec_pos k (p / 10) ((48 + p mod 10) :: acc)
  end.
Definition dec_z (z : Z) : list Z := if z <? 0 then 45 :: dec_pos 20 (- z) [] else dec_pos 20 z [].
Definition plain_byte (c : Z) : bool := (32 <=? c) && (c <? 127) && negb (c =? 34) && negb (c =? 92).

Fixpoint str_val (v : val) : option (list Z) :=
  match v with
  | VInt z => Some (dec_z z)
  | VBool true => Some ([116; 114; 117; 101])
  | VBool false => Some ([102; 97; 108; 115; 101])
  | VNil => Some ([110; 105; 108])
  | VSym n => Some n
  | VStr s => if forallb plain_byte s then Some (34 :: s ++ [34]) else None
  | VPair h t =>
      match str_val h, str_tail t with
      | Some a, Some b => Some (40 :: a ++ b)
      | _, _ => None
      end
  | VArr l =>
      match l with
      | [] => Some ([91; 93])
      | x :: r =>
          match str_val x,
                (fix go (r : list val) : option (list Z) :=
                   match r with
                   | [] => Some [93]
                   | y :: r' => match str_val y, go r' with
                                | Some a, Some b => Some (32 :: a ++ b) | _, _ => None end
                   end) r with
          | Some a, Some b => Some (91 :: a ++ b)
          | _, _ => None
          end
      end
  | _ => None
  end
with str_tail (t : val) : option (list Z) :=
  match t with
  | VNil => Some [41]
  | VPair h t' =>
      match str_val h, str_tail t' with
      | Some a, Some b => Some (32 :: a ++ b)
      | _, _ => None
      end
  | _ => None        (* improper list: "\ tail" form, declined *)
  end.

(* ---- the first-order builtins: arity checks as in each Go function ---- *)
Definition apply_fo (f : bfun) (args : list val) : out val :=
  match f with
  | FFirst => match args with [a] => b_first a | _ => Fail end
  | FRest => match args with [a] => b_rest a | _ => Fail end
  | FSecond => match args with [a] => b_second a | _ => Fail end
  | FCons => match args with [a; b] => Val (VPair a b) | _ => Fail end
  | FList => Val (make_list args)
  | FArray => Val (VArr args)
  | FAppend => match args with [a; x] => b_append false a x | _ => Fail end
  | FAppendSlice => match args with [a; x] => b_append true a x | _ => Fail end
  | FConcat => b_concat args
  | FFlatten => b_flatten args
  | FLen => match args with [a] => b_len a | _ => Fail end
  | FAget => b_aget args
  | FSlice => match args with [a; s; e] => b_slice a s e | _ => Fail end
  | FNot => match args with [a] => Val (VBool (negb (is_truthy a))) | _ => Fail end
  | FArith op => b_arith op args
  | FCmp op => match args with [a; b] => b_cmp op a b | _ => Fail end
  | FMod => match args with [a; b] => b_mod a b | _ => Fail end
  | FSym2Str => match args with [VSym n] => Val (VStr n) | _ => Fail end
  | FStr2Sym => match args with [VStr s] => Val (VSym s) | _ => Fail end
  | FStr => match args with
            | [a] => match str_val a with Some s => Val (VStr s) | None => Unspec end
            | _ => Fail end
  | FTypeQ => match args with [a] => Val (VStr (type_name a)) | _ => Fail end
  | FPred p => match args with [a] => Val (VBool (b_pred p a)) | _ => Fail end
  | FIsNan => match args with
              | [VFlt f] => Val (VBool (is_nanb f))
              | [_] => Val (VBool false)
              | _ => Fail end
  | FMap | FApply => Unspec
  end.

(* ---- listutils.go: MapList / arrayutils.go: MapArray, over an applicator ---- *)
Section Map.
  Variable ap : val -> out val.
  Fixpoint map_list (v : val) : out val :=
    match v with
    | VNil => Val VNil
    | VPair h t => bind (ap h) (fun h' => bind (map_list t) (fun t' => Val (VPair h' t')))
    | _ => Fail
    end.
  Fixpoint map_arr (l : list val) : out (list val) :=
    match l with
    | [] => Val []
    | x :: r => bind (ap x) (fun x' => bind (map_arr r) (fun r' => Val (x' :: r')))
    end.
End Map.

(* ---- functions.go: MapFunction / ApplyFunction (environment.go:Apply on a builtin calls its Go
   function directly).  n bounds the nesting of map/apply THROUGH function values. ---- *)
Fixpoint apply_n (n : nat) (f : bfun) (args : list val) : out val :=
  match f with
  | FMap =>
      match n with
      | O => Unspec
      | S m =>
          match args with
          | [VFun g; VArr l] => bind (map_arr (fun x => apply_n m g [x]) l) (fun r => Val (VArr r))
          | [VFun g; VPair h t] => map_list (fun x => apply_n m g [x]) (VPair h t)
          | _ => Fail
          end
      end
  | FApply =>
      match n with
      | O => Unspec
      | S m =>
          match args with
          | [VFun g; VArr l] => apply_n m g l
          | [VFun g; VPair h t] =>
              match list_to_array (VPair h t) with Some l => apply_n m g l | None => Fail end
          | _ => Fail
          end
      end
  | _ => apply_fo f args
  end.

(* ---- closed builtin-call trees with sharing (let) and a conditional (IsTruthy in control flow) ---- *)
Inductive bexp :=
| BLit (v : val)
| BVar (i : nat)                       (* de Bruijn index of a let-bound value *)
| BLet (e b : bexp)
| BIf (c a b : bexp)                   (* (cond c a b) *)
| BCall (f : bfun) (args : list bexp).

Definition depth : nat := 3.

Fixpoint beval (env : list val) (e : bexp) : out val :=
  match e with
  | BLit v => Val v
  | BVar i => match nth_error env i with Some v => Val v | None => Fail end
  | BLet e b => bind (beval env e) (fun v => beval (v :: env) b)
  | BIf c a b => bind (beval env c) (fun v => if is_truthy v then beval env a else beval env b)
  | BCall f args =>
      bind ((fix go (l : list bexp) : out (list val) :=
               match l with
               | [] => Val []
               | x :: r => bind (beval env x) (fun v => bind (go r) (fun vs => Val (v :: vs)))
               end) args)
           (apply_n depth f)
  end.
