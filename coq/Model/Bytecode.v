(* C04 — the instruction set of zygo/vm.go, value-free.

   One constructor per instruction type of vm.go, with exactly the operands that matter
   for control flow and for the effect on the four VM stacks (data, scope = linearstack,
   address, loop).  The table [eff] maps every instruction to a short list of stack
   micro-operations and a control transfer; it is the single description of "what the
   instruction does" shared by the abstract machine (Verifier.astep), by the certificate
   checker (Verifier.check_fn) and by the trace-conformance decision (Verifier.effect_ok),
   so the conformance run of the real Execute methods against [effect_ok] validates this
   table line by line.  Executable definitions only. *)
From Coq Require Import List ZArith Bool Arith.
Import ListNotations.

(* what can lie on the data stack, as far as the instructions can tell *)
Inductive item :=
| Val                 (* any ordinary value *)
| Marker              (* SexpMarker, pushed by syntax-quote / multi-value return *)
| Mark (m : nat).     (* *SexpStackmark with symbol number m (for loops, packages) *)

Inductive instr :=
| IJump (off : Z)                 (* JumpInstr.addpc *)
| IGoto (loc : Z)                 (* GotoInstr.location *)
| IBranch (off : Z)               (* BranchInstr.location (direction is a value matter) *)
| IPush                           (* PushInstr of an ordinary constant *)
| IPushMarker                     (* PushInstr{SexpMarker} *)
| IPushLazyArg
| IPop
| IDup
| IEnvToStack
| IPopStackPutEnv
| IUpdate
| ICall (nargs : nat)
| ICallExpr (nargs : nat)
| IDispatch (nargs : nat)
| IReturn                         (* ReturnInstr{nil} *)
| IReturnErr                      (* ReturnInstr{err}: always an error *)
| IAddScope
| IAddFuncScope
| IRemoveScope
| IExplode
| ISquash
| IBindlist
| IVectorize
| IHashize
| ILabel
| IBreak (loop : nat) (off : Z) (scopes : nat)      (* loop identity, Loop.breakOffset, scopesToPop *)
| IContinue (loop : nat) (off : Z) (scopes : nat)   (* loop identity, Loop.continueOffset, scopesToPop *)
| ILoopStart (loop : nat)
| IPushStackmark (m : nat)
| IPopUntilStackmark (m : nat)
| IClearStackmark (m : nat)
| IDebug
| ICreateClosure
| IAssign
| IPopScopeTransfer               (* PopScopeTransferToDataStackInstr *)
| IPrepareCall (nargs : nat)
| IUnknown.                       (* an instruction type the dump does not know *)

(* what the current function looks like to PrepareCallInstr (self tail call) *)
Record finfo := { f_varargs : bool; f_nargs : nat }.

(* stack micro-operations *)
Inductive dop :=
| DPush (it : item)
| DPop                (* pop one element; error on an empty stack *)
| DPopTol             (* PopInstr: pop one element, an empty stack is left as it is *)
| DDup
| DExplode            (* push any number of values *)
| DPopToMarker        (* pop up to and including the first Marker *)
| DPopToMark (m : nat)(* pop up to and including the first Mark m *)
| DScopeUp
| DScopeDown.

Inductive ctl :=
| CNext
| CJump (off : Z)
| CGoto (loc : Z)
| CBranch (off : Z)
| CLoop (loop : nat) (off : Z)    (* FindLoop(loop) + off *)
| CHalt.                          (* Return: leaves the function *)

Fixpoint rep {A} (n : nat) (x : A) : list A :=
  match n with 0 => [] | S k => x :: rep k x end.

Definition pops (n : nat) : list dop := rep n DPop.

(* the effect table.  None = no successful execution exists (or unknown instruction). *)
Definition eff (fi : finfo) (i : instr) : option (list dop * ctl) :=
  match i with
  | IJump off => Some ([], CJump off)
  | IGoto loc => Some ([], CGoto loc)
  | IBranch off => Some ([DPop], CBranch off)
  | IPush | IPushLazyArg | IEnvToStack | ICreateClosure => Some ([DPush Val], CNext)
  | IPushMarker => Some ([DPush Marker], CNext)
  | IPop => Some ([DPopTol], CNext)
  | IDup => Some ([DDup], CNext)
  | IPopStackPutEnv | IUpdate | IBindlist => Some ([DPop], CNext)
  | ICall n => Some (pops n ++ [DPush Val], CNext)
  | ICallExpr _ => Some ([DPush Val], CNext)
  | IDispatch n => Some (pops (S n) ++ [DPush Val], CNext)
  | IReturn => Some ([], CHalt)
  | IReturnErr => None
  | IAddScope | IAddFuncScope => Some ([DScopeUp], CNext)
  | IRemoveScope => Some ([DScopeDown], CNext)
  | IExplode => Some ([DPop; DExplode], CNext)
  | ISquash | IVectorize | IHashize => Some ([DPopToMarker; DPush Val], CNext)
  | ILabel | ILoopStart _ | IDebug => Some ([], CNext)
  | IBreak l off sc => Some (rep sc DScopeDown, CLoop l off)
  | IContinue l off sc => Some (rep sc DScopeDown, CLoop l off)
  | IPushStackmark m => Some ([DPush (Mark m)], CNext)
  | IPopUntilStackmark m => Some ([DPopToMark m; DPush (Mark m)], CNext)
  | IClearStackmark m => Some ([DPopToMark m], CNext)
  | IAssign => Some ([DPop; DPop; DPush Val], CNext)   (* pops rhs and lhs, pushes the assigned value *)
  | IPopScopeTransfer => Some ([DScopeDown; DPush Val], CNext)
  | IPrepareCall n =>
      if f_varargs fi then
        if f_nargs fi <=? n then Some (pops (n - f_nargs fi) ++ [DPush Val], CNext) else None
      else Some ([], CNext)
  | IUnknown => None
  end.

(* env.FindLoop: position of the LoopStart of this loop *)
Fixpoint find_loop_from (code : list instr) (l : nat) (p : nat) : option nat :=
  match code with
  | [] => None
  | ILoopStart l' :: r => if Nat.eqb l l' then Some p else find_loop_from r l (S p)
  | _ :: r => find_loop_from r l (S p)
  end.
Definition find_loop (code : list instr) (l : nat) : option nat := find_loop_from code l 0.

Definition zpc (len : nat) (t : Z) : option nat :=
  if (t <? 0)%Z then None else if (Z.of_nat len <? t)%Z then None else Some (Z.to_nat t).

(* successor program counters; None = the instruction fails (jump out of bounds, loop not found);
   a Branch whose target is out of bounds can only fall through *)
Definition targets (code : list instr) (p : nat) (c : ctl) : option (list nat) :=
  let len := length code in
  match c with
  | CNext => Some [S p]
  | CJump off => match zpc len (Z.of_nat p + off) with Some t => Some [t] | None => None end
  | CGoto loc => match zpc len loc with Some t => Some [t] | None => None end
  | CBranch off => match zpc len (Z.of_nat p + off) with Some t => Some [t; S p] | None => Some [S p] end
  | CLoop l off => match find_loop code l with
                   | Some q => match zpc len (Z.of_nat q + off) with Some t => Some [t] | None => None end
                   | None => None end
  | CHalt => Some []
  end.

(* stricter, for the checker: every jump target is inside the function (a loop that is not
   found is accepted: FindLoop fails at run time, the instruction has no successful execution) *)
Definition ctl_wf (code : list instr) (p : nat) (c : ctl) : bool :=
  let len := length code in
  match c with
  | CNext | CHalt => true
  | CJump off | CBranch off => match zpc len (Z.of_nat p + off) with Some _ => true | None => false end
  | CGoto loc => match zpc len loc with Some _ => true | None => false end
  | CLoop l off => match find_loop code l with
                   | Some q => match zpc len (Z.of_nat q + off) with Some _ => true | None => false end
                   | None => true end
  end.
