(* Model of zygo/check.go FunctionCallNameTypeCheck (the by-name / positional argument matching and
   type check of a call of a function declared with (func name [a:T b:U] [...] ...)), followed by
   the arity test of CallFunction.  It runs inside CallFunction at VM level, outside the builtins'
   recover: dereferencing an unfilled slot of finalArgs (val.Type() on a nil Sexp) is the outcome CCrash.
   Executable definitions only; proofs in Proofs/CallCheckProofs.v. *)
From Coq Require Import List Bool Arith.
Import ListNotations.

Inductive ty := TInt | TStr | TFloat | TOther.

Definition ty_eqb (a b : ty) : bool :=
  match a, b with
  | TInt, TInt | TStr, TStr | TFloat, TFloat | TOther, TOther => true
  | _, _ => false
  end.

(* an evaluated actual argument: a keyword symbol `name:` (evaluates to itself) or any other value *)
Inductive arg := ANamed (n : nat) | AVal (t : ty).

Definition type_of (a : arg) : ty := match a with AVal t => t | ANamed _ => TOther end.

Definition params := list (nat * ty).      (* f.inputTypes.KeyOrder with the declared types *)

Inductive cres := COkCall | CErrCall | CCrashNil.

Fixpoint assoc (n : nat) (l : list (nat * arg)) : option arg :=
  match l with
  | [] => None
  | (k, v) :: r => if k =? n then Some v else assoc n r
  end.

Definition has_name (n : nat) (l : list nat) : bool := existsb (Nat.eqb n) l.

(* the loop that fills submittedByName; None = one of its four error returns *)
Fixpoint scan (ps : params) (args : list arg) (sub : list (nat * arg)) : option (list (nat * arg)) :=
  match args with
  | [] => Some sub
  | AVal _ :: rest => scan ps rest sub
  | ANamed n :: rest =>
      if negb (has_name n (map fst ps)) then None            (* takes no argument 'n' *)
      else match rest with
           | [] => None                                       (* not followed by value *)
           | v :: rest' =>
               if has_name n (map fst sub) then None          (* duplicate named parameter *)
               else scan ps rest' (sub ++ [(n, v)])
           end
  end.

(* finalArgs[i] = submittedByName[KeyOrder[i]] when found (else the slot stays nil) *)
Definition fill (ps : params) (sub : list (nat * arg)) : list (option arg) :=
  map (fun p => assoc (fst p) sub) ps.

(* for i, val := range finalArgs { if i >= len(KeyOrder) break; ...; val.Type() ... } *)
Fixpoint typecheck (ps : params) (final : list (option arg)) : cres :=
  match final, ps with
  | [], _ => COkCall
  | _ :: _, [] => COkCall
  | None :: _, _ :: _ => CCrashNil
  | Some a :: fr, (_, t) :: pr => if ty_eqb t (type_of a) then typecheck pr fr else CErrCall
  end.

Definition call_check (ps : params) (args : list arg) : cres :=
  match scan ps args [] with
  | None => CErrCall
  | Some sub =>
      let have := length sub in
      if 0 <? have then
        if negb (have =? length ps) then CErrCall             (* named arguments count != expected *)
        else typecheck ps (fill ps sub)                        (* nargs = len(finalArgs) = len(ps): arity fits *)
      else
        match typecheck ps (map Some args) with
        | COkCall => if length args =? length ps then COkCall else CErrCall   (* CallFunction: wrong number of arguments *)
        | x => x
        end
  end.
