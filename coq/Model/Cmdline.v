(* C08: the command line of cmd/zygo.  cmd/zygo/main.go: cfg.DefineFlags(); cfg.Flags.Parse(os.Args[1:]);
   zygo.ReplMain(cfg).  The arguments are modelled after lexing (what Go's flag.FlagSet.parseOne makes of
   one argument); scan mirrors flag.FlagSet.Parse: flags are consumed until the first argument that is not
   a flag or until "--"; a flag taking a value consumes the next argument whatever it looks like; an
   undefined flag or a missing value rejects the command line (flag.ExitOnError: exit status 2, nothing runs).
   repl.go ReplMain: cfg.Sandboxed chooses NewZlispSandbox; a -c command wins over a script argument.
   Executable definitions only; proofs in Proofs/CmdlineProofs.v. *)
From Coq Require Import List Bool.
Import ListNotations.

Inductive arg :=
| ASandbox (v : option bool)   (* -sandbox / --sandbox (None) or -sandbox=true / -sandbox=false *)
| ABool                        (* any other defined boolean flag, with or without =value *)
| AStr (inline : bool)         (* a defined string flag (-c, -cpuprofile, -memprofile): -c=text (true) or -c (false: takes the next argument) *)
| ADashDash                    (* -- *)
| APlain                       (* an argument that is not a flag: does not start with '-', or is "-" *)
| ABad.                        (* undefined flag, bad flag syntax, unparsable boolean value *)

Record st := { sandboxed_flag : bool }.

Inductive scanres :=
| Rejected
| Parsed (s : st) (rest : list arg).   (* rest = the positional arguments (cfg.Flags.Args()) *)

Fixpoint scan (s : st) (l : list arg) : scanres :=
  match l with
  | [] => Parsed s []
  | ASandbox v :: r => scan {| sandboxed_flag := match v with None => true | Some b => b end |} r
  | ABool :: r => scan s r
  | AStr true :: r => scan s r
  | AStr false :: r => match r with [] => Rejected | _ :: r' => scan s r' end
  | ADashDash :: r => Parsed s r
  | APlain :: r => Parsed s (APlain :: r)
  | ABad :: _ => Rejected
  end.

Inductive outcome := ORejected | OSandboxed | OOpen.

Definition run_cmdline (l : list arg) : outcome :=
  match scan {| sandboxed_flag := false |} l with
  | Rejected => ORejected
  | Parsed s _ => if sandboxed_flag s then OSandboxed else OOpen
  end.

(* the specification: the last sandbox flag of the flag part decides, nothing after the flag part matters *)
Fixpoint last_sandbox (acc : bool) (l : list arg) : bool :=
  match l with
  | ASandbox v :: r => last_sandbox (match v with None => true | Some b => b end) r
  | _ :: r => last_sandbox acc r
  | [] => acc
  end.

(* a flag part: only flags, every string flag carries its value inline, nothing rejected *)
Definition is_flag (a : arg) : bool :=
  match a with ASandbox _ | ABool | AStr true => true | _ => false end.
