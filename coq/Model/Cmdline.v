(* C08: the command line and the session of cmd/zygo.  cmd/zygo/main.go: cfg.DefineFlags();
   cfg.Flags.Parse(os.Args[1:]); zygo.ReplMain(cfg).  The arguments are modelled after lexing (what Go's
   flag.FlagSet.parseOne makes of one argument); scan mirrors flag.FlagSet.Parse: flags are consumed until
   the first argument that is not a flag or until "--"; a flag taking a value consumes the next argument
   whatever it looks like; an undefined flag or a missing value rejects the command line
   (flag.ExitOnError: exit status 2, nothing runs).
   repl.go ReplMain: cfg.Sandboxed chooses NewZlispSandbox ONCE; everything that evaluates text afterwards
   (the -c command, the script, the repl a failed script drops into, the repl after -i, the plain repl)
   runs on that interpreter.  plan mirrors the control flow of ReplMain / runScript / Repl (Repl ends the
   process at end of input).
   Executable definitions only; proofs in Proofs/CmdlineProofs.v. *)
From Coq Require Import List Bool.
Import ListNotations.

Inductive arg :=
| ASandbox (v : option bool)   (* -sandbox / --sandbox (None) or -sandbox=true / -sandbox=false *)
| AInteractive (v : bool)      (* -i, -i=true / -i=false *)
| AExitOnFail (v : bool)       (* -exitonfail, =true / =false *)
| ABool                        (* any other defined boolean flag, with or without =value *)
| ACommand (inline : bool)     (* -c=text (true) or -c (false: takes the next argument as the text) *)
| AStr (inline : bool)         (* another defined string flag (-cpuprofile, -memprofile) *)
| ADashDash                    (* -- *)
| APlain                       (* an argument that is not a flag: does not start with '-', or is "-" *)
| ABad.                        (* undefined flag, bad flag syntax, unparsable boolean value *)

Record st := { sandboxed_flag : bool; interactive : bool; exitonfail : bool; command : bool }.

Definition st0 : st := {| sandboxed_flag := false; interactive := false; exitonfail := false; command := false |}.

Definition set_sandbox (s : st) (b : bool) : st :=
  {| sandboxed_flag := b; interactive := interactive s; exitonfail := exitonfail s; command := command s |}.
Definition set_interactive (s : st) (b : bool) : st :=
  {| sandboxed_flag := sandboxed_flag s; interactive := b; exitonfail := exitonfail s; command := command s |}.
Definition set_exitonfail (s : st) (b : bool) : st :=
  {| sandboxed_flag := sandboxed_flag s; interactive := interactive s; exitonfail := b; command := command s |}.
Definition set_command (s : st) : st :=
  {| sandboxed_flag := sandboxed_flag s; interactive := interactive s; exitonfail := exitonfail s; command := true |}.

Inductive scanres :=
| Rejected
| Parsed (s : st) (rest : list arg).   (* rest = the positional arguments (cfg.Flags.Args()) *)

Fixpoint scan (s : st) (l : list arg) : scanres :=
  match l with
  | [] => Parsed s []
  | ASandbox v :: r => scan (set_sandbox s (match v with None => true | Some b => b end)) r
  | AInteractive b :: r => scan (set_interactive s b) r
  | AExitOnFail b :: r => scan (set_exitonfail s b) r
  | ABool :: r => scan s r
  | ACommand true :: r => scan (set_command s) r
  | ACommand false :: r => match r with [] => Rejected | _ :: r' => scan (set_command s) r' end
  | AStr true :: r => scan s r
  | AStr false :: r => match r with [] => Rejected | _ :: r' => scan s r' end
  | ADashDash :: r => Parsed s r
  | APlain :: r => Parsed s (APlain :: r)
  | ABad :: _ => Rejected
  end.

Inductive outcome := ORejected | OSandboxed | OOpen.

Definition kind_of (s : st) : outcome := if sandboxed_flag s then OSandboxed else OOpen.

Definition run_cmdline (l : list arg) : outcome :=
  match scan st0 l with
  | Rejected => ORejected
  | Parsed s _ => kind_of s
  end.

(* the specification: the last sandbox flag of the flag part decides, nothing after the flag part matters *)
Fixpoint last_sandbox (acc : bool) (l : list arg) : bool :=
  match l with
  | ASandbox v :: r => last_sandbox (match v with None => true | Some b => b end) r
  | _ :: r => last_sandbox acc r
  | [] => acc
  end.

(* a flag part: only flags, every string flag carries its value inline, nothing rejected *)
Definition is_flag (a : arg) : bool :=
  match a with
  | ASandbox _ | AInteractive _ | AExitOnFail _ | ABool | ACommand true | AStr true => true
  | _ => false
  end.

(* ---- the session: which pieces of text get evaluated, in which order ---- *)
Inductive phase :=
| PhCommand                  (* the -c text; the process ends after it *)
| PhScript                   (* the script file *)
| PhReplAfterFailedScript    (* runScript: the script ended in an error and -exitonfail was not given *)
| PhReplAfterScript          (* -i: stay interactive after the script *)
| PhRepl.                    (* no script, no command *)

(* repl.go ReplMain / runScript; script_fails = the script ends in an error *)
Definition plan (s : st) (rest : list arg) (script_fails : bool) : list phase :=
  if command s then [PhCommand]
  else match rest with
       | [] => [PhRepl]
       | _ :: _ =>
           if script_fails
           then (if exitonfail s then [PhScript] else [PhScript; PhReplAfterFailedScript])
           else (if interactive s then [PhScript; PhReplAfterScript] else [PhScript])
       end.

(* every phase runs on the one interpreter ReplMain made *)
Definition session (l : list arg) (script_fails : bool) : option (list (phase * outcome)) :=
  match scan st0 l with
  | Rejected => None
  | Parsed s rest => Some (map (fun ph => (ph, kind_of s)) (plan s rest script_fails))
  end.
