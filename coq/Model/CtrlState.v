(* CtrlState: the control state of the VM around evaluations, for C05.

   Part 1: an abstract machine of nested VM re-entries that mirrors
     environment.go: vmControlState, captureControlState, restoreControlState, Run,
     EvalCallExpression / Apply / expressions.go:SexpLazyArg.Force (capture .. restore),
     CallUserFunction (capture, push address, host function, recover, restore),
     functions.go:EvalFunction (capture, CallFunction + Run, restore on error; before commit
       4b37dbf it had no capture/restore: the former finding evalfunction-no-restore),
     generator.go:GenerateForLoop (loop stack push with deferred pop).
   The stacks hold abstract items; what an instruction does in between is arbitrary
   (push / pop / jump), except that a frame never pops below the depths it was entered
   with (stack discipline of compiled code, C04): that is the explicit outcome Crash.

   Part 2: the record types of the generated census of re-entry points
   (coq/Generated/Reentry.v, written by translator/cmd/reentry) and the decision
   function reentry_ok with the allow-list of the functions verified by reading.

   Executable definitions only; proofs are in Proofs/CtrlStateProofs.v. *)
From Coq Require Import ZArith Bool List.
Import ListNotations.

(* ------------------------------------------------------------------ part 1 *)

Inductive stk := SData | SScope | SAddr.

(* top of a stack = head of the list *)
Record ctrl := mkCtrl {
  dstk : list Z;     (* env.datastack *)
  sstk : list Z;     (* env.linearstack (scope stack) *)
  astk : list Z;     (* env.addrstack *)
  ldepth : nat;      (* env.loopstack.Size(): only the generator touches it *)
  cur : Z;           (* env.curfunc *)
  pc : Z             (* env.pc *)
}.

Definition get (k : stk) (c : ctrl) : list Z :=
  match k with SData => dstk c | SScope => sstk c | SAddr => astk c end.

Definition put (k : stk) (l : list Z) (c : ctrl) : ctrl :=
  match k with
  | SData => mkCtrl l (sstk c) (astk c) (ldepth c) (cur c) (pc c)
  | SScope => mkCtrl (dstk c) l (astk c) (ldepth c) (cur c) (pc c)
  | SAddr => mkCtrl (dstk c) (sstk c) l (ldepth c) (cur c) (pc c)
  end.

Definition jump (f p : Z) (c : ctrl) : ctrl := mkCtrl (dstk c) (sstk c) (astk c) (ldepth c) f p.

(* environment.go:vmControlState: sizes, current function, pc *)
Record saved := mkSaved { v_d : nat; v_s : nat; v_a : nat; v_cur : Z; v_pc : Z }.

Definition capture (c : ctrl) : saved :=
  mkSaved (length (dstk c)) (length (sstk c)) (length (astk c)) (cur c) (pc c).

Definition size_of (k : stk) (v : saved) : nat :=
  match k with SData => v_d v | SScope => v_s v | SAddr => v_a v end.

(* stack.go:TruncateToSize: drop from the top until n elements are left *)
Definition trunc (n : nat) (l : list Z) : list Z := skipn (length l - n) l.

Definition restore (v : saved) (c : ctrl) : ctrl :=
  mkCtrl (trunc (v_d v) (dstk c)) (trunc (v_s v) (sstk c)) (trunc (v_a v) (astk c)) (ldepth c) (v_cur v) (v_pc v).

(* the kinds of re-entry *)
Inductive kind :=
| KCaptured    (* EvalCallExpression, Apply, Force: capture; pc := -2; CallFunction; Run; restore on error *)
| KUser        (* CallUserFunction: capture; push address; host function (may re-enter); restore on error or panic *)
| KEvalFn      (* EvalFunction (since 4b37dbf, 8e7da1c): capture; CallFunction (pc unchanged); Run; restore on error;
                  on success the state the callee's return left is kept *)
| KSource.     (* source.go:SourceExpressions (engine of SourceStream / SourceFile and of the builtin source):
                  saves curfunc and pc; curfunc := __source, pc := 0; Run; a DEFER puts curfunc and pc back
                  whatever happened; on success the result is pushed on the data stack *)

Inductive act :=
| APush (k : stk) (x : Z)
| APop (k : stk)
| AJump (f p : Z)
| AFail                                             (* an instruction fails / a host function returns an error or panics *)
| AReenter (k : kind) (catch : bool) (body : list act)
      (* catch = the host code that made the re-entry handles its error and goes on *)
| AGenLoop (body : list act).                       (* code generation inside a for: loopstack.Push .. defer Pop *)

Inductive out := OK (c : ctrl) | Err (c : ctrl) | Crash.

Definition fsize : Z := 1000.    (* functionSize(env.curfunc): where pc is parked after an error *)

(* environment.go:CallFunction's effect on the control state *)
Definition call_function (f : Z) (c : ctrl) : ctrl :=
  jump f 0 (put SAddr (pc c + 1 :: astk c)%Z c).

(* what the code that made a re-entry does with its result *)
Definition catch_out (catch : bool) (r : out) : out :=
  match r with
  | Err c1 => if catch then OK c1 else Err c1
  | o => o
  end.

Section Exec.
  (* base = the depths the running frame was entered with *)
  Fixpoint exec (base : saved) (a : act) (c : ctrl) {struct a} : out :=
    let fix exec_list (base : saved) (l : list act) (c : ctrl) {struct l} : out :=
        match l with
        | [] => OK c
        | a :: r => match exec base a c with
                    | OK c1 => exec_list base r c1
                    | o => o
                    end
        end in
    (* environment.go:Run: capture at entry; on error restore and park pc *)
    let run (body : list act) (c : ctrl) : out :=
        let st := capture c in
        match exec_list st body c with
        | OK c1 => OK c1
        | Err c1 => Err (jump (v_cur st) fsize (restore st c1))
        | Crash => Crash
        end in
    match a with
    | APush k x => OK (put k (x :: get k c) c)
    | APop k => if Nat.leb (length (get k c)) (size_of k base) then Crash
                else OK (put k (tl (get k c)) c)
    | AJump f p => OK (jump f p c)
    | AFail => Err c
    | AGenLoop body =>
      let c1 := mkCtrl (dstk c) (sstk c) (astk c) (S (ldepth c)) (cur c) (pc c) in
      let unloop c2 := mkCtrl (dstk c2) (sstk c2) (astk c2) (pred (ldepth c2)) (cur c2) (pc c2) in
      match exec_list base body c1 with
      | OK c2 => OK (unloop c2)
      | Err c2 => Err (unloop c2)
      | Crash => Crash
      end
    | AReenter k catch body =>
      catch_out catch
          (match k with
          | KCaptured =>
            let st := capture c in
            match run body (call_function 7 (jump (cur c) (-2) c)) with
            | OK c1 => OK (restore st c1)
            | Err c1 => Err (restore st c1)
            | Crash => Crash
            end
          | KUser =>
            let st := capture c in
            let c1 := jump 8 (-1) (put SAddr (pc c + 1 :: astk c)%Z c) in
            match exec_list (capture c1) body c1 with
            | OK c2 => OK (jump (v_cur st) (v_pc st + 1) (restore st c2))
            | Err c2 => Err (restore st c2)
            | Crash => Crash
            end
          | KEvalFn =>
            let st := capture c in
            match run body (call_function 9 c) with
            | OK c1 => OK (jump (v_cur st) (v_pc st) c1)     (* 8e7da1c: pc / curfunc put back after a successful call *)
            | Err c1 => Err (restore st c1)
            | Crash => Crash
            end
          | KSource =>
            match run body (jump 10 0 c) with
            | OK c1 => OK (jump (cur c) (pc c) (put SData (0%Z :: dstk c1) c1))
            | Err c1 => Err (jump (cur c) (pc c) c1)
            | Crash => Crash
            end
          end)
    end.
End Exec.

Fixpoint exec_list (base : saved) (l : list act) (c : ctrl) : out :=
  match l with
  | [] => OK c
  | a :: r => match exec base a c with
              | OK c1 => exec_list base r c1
              | o => o
              end
  end.

(* one top-level evaluation: environment.go:Run entered from EvalString *)
Definition run_top (body : list act) (c : ctrl) : out :=
  let st := capture c in
  match exec_list st body c with
  | OK c1 => OK c1
  | Err c1 => Err (jump (v_cur st) fsize (restore st c1))
  | Crash => Crash
  end.

(* ------------------------------------------------------------------ part 2: the census *)

From Coq Require Import String.

Record reentry := mkReentry {
  r_fn : string;          (* function (Type.method) that contains a call <recv>.Run() *)
  r_file : string;
  r_runs : nat;           (* number of such calls *)
  r_dup_recv : bool;      (* every receiver is an interpreter made by Duplicate() in the same function *)
  r_captures : nat;       (* calls of captureControlState *)
  r_restores : nat;       (* calls of restoreControlState *)
  r_guarded : nat;        (* Run calls directly followed by `if err != nil { .. restoreControlState .. }` *)
  r_returns_run : bool;   (* `return recv.Run()`: a top-level entry *)
  r_defer_pc : bool       (* a defer puts pc and curfunc back *)
}.

Record capture_site := mkCapture {
  c_fn : string; c_captures : nat; c_restores : nat; c_recovers : bool
}.

Open Scope string_scope.

(* verified by reading (docs/C05.md lists the argument for each):
   - top-level entries: the Run they start is the outermost one, which restores by itself;
   - SourceExpressions: nothing is pushed between its entry and Run, so Run's own restore
     puts the stacks back; pc / curfunc are put back by the defer.
   (EvalFunction was on an allow-list "covered by its caller" until commit 4b37dbf gave it
    capture + restore; it now passes the structural test like Apply.) *)
Definition toplevel_entries : list string := ["Zlisp.EvalString"; "Zlisp.EvalExpressions"; "runScript"].
Definition restores_by_defer : list string := ["Zlisp.SourceExpressions"].

Definition mem (s : string) (l : list string) : bool := existsb (String.eqb s) l.

Definition reentry_ok (r : reentry) : bool :=
  r_dup_recv r
  || (Nat.eqb (r_captures r) 1 && Nat.eqb (r_guarded r) (r_runs r) && Nat.leb 1 (r_restores r))
  || (mem (r_fn r) toplevel_entries && Nat.eqb (r_captures r) 0)
  || (mem (r_fn r) restores_by_defer && r_defer_pc r).

(* every function that captures also restores; CallUserFunction recovers panics *)
Definition capture_ok (s : capture_site) : bool :=
  Nat.leb 1 (c_restores s) && Nat.eqb (c_captures s) 1
  && (negb (String.eqb (c_fn s) "Zlisp.CallUserFunction") || c_recovers s).

Definition expected_capture_sites : list string :=
  ["EvalFunction"; "SexpLazyArg.Force"; "Zlisp.Apply"; "Zlisp.CallUserFunction"; "Zlisp.EvalCallExpression"; "Zlisp.Run"].

(* ------------------------------------------------------------------ part 3: census of the read / compile phases

   The second half of coq/Generated/Reentry.v lists, from the Go source: the fields of the Lexer and Parser
   structs, the fields Lexer.Reset / Parser.ResetAddNewInput assign unconditionally, whether LoadStream
   resets first, how GenerateForLoop pops the loop stack, where LoadExpressions appends to the main
   buffer, where SexpLazyArg.Force marks the cell forced.  Model/Phases.v models exactly this code;
   the decision functions say which facts its definitions rely on. *)

(* fields that may keep their value across loads: the back pointer set once by NewLexer *)
Definition lexer_kept_fields : list string := ["parser"].
(* lexer, env: set once by NewParser; inBacktick: written, never read; recur: every increment is
   followed by a deferred decrement (parser_recur_balanced = parser_recur_incs) *)
Definition parser_kept_fields : list string := ["lexer"; "env"; "inBacktick"; "recur"].
(* the lexer fields of Phases.rstate *)
Definition modelled_reader_fields : list string := ["stream"; "next"; "tokens"].
Definition required_reset_calls : list string := ["lexer.Reset"; "lexer.AddNextStream"].

Definition subset (a b : list string) : bool := forallb (fun f => mem f b) a.
Definition covers (fields clears kept : list string) : bool :=
  forallb (fun f => mem f clears || mem f kept) fields.
