(* Model of the two VM instructions that bind several targets from one sequence value
   (zygo/vm.go, executed at VM level, outside the builtins' recover):
     AssignInstr.assign, case lhs *SexpArray / rhs *SexpArray  (multiple assignment  a, b = 1, 2 ;
       (set (quote [x y]) [1 2]))
     BindlistInstr.Execute                                      ((mdef a b (list 1 2)))
   An index into the right-hand side past its length is the outcome DCrash.
   Executable definitions only; proofs in Proofs/DestructureProofs.v. *)
From Coq Require Import List Bool Arith.
Import ListNotations.

Inductive target := TSym (n : nat) | TNotSym.     (* element of the left-hand array *)
Inductive dres := DOk (bound : list (nat * nat)) | DErr | DCrash.   (* bound: symbol -> index of the value *)

(* for i := range x.Val { switch sym := x.Val[i].(type) { case *SexpSymbol: bind(sym, rhsArray.Val[i]) ... } } *)
Fixpoint assign_loop (lhs : list target) (rhs : list nat) (i : nat) (acc : list (nat * nat)) : dres :=
  match lhs with
  | [] => DOk acc
  | TNotSym :: _ => DErr                           (* left-hand-side element needs to be a symbol *)
  | TSym s :: r =>
      match nth_error rhs i with
      | None => DCrash                             (* rhsArray.Val[i] past the end *)
      | Some v => assign_loop r rhs (S i) (acc ++ [(s, v)])
      end
  end.

Definition assign_arrays (lhs : list target) (rhs : list nat) : dres :=
  if negb (length rhs =? length lhs) then DErr     (* assignment count mismatch *)
  else assign_loop lhs rhs 0 [].

(* BindlistInstr: narr < nsym is an error; surplus values are ignored *)
Fixpoint bind_loop (syms : list nat) (arr : list nat) (i : nat) (acc : list (nat * nat)) : dres :=
  match syms with
  | [] => DOk acc
  | s :: r =>
      match nth_error arr i with
      | None => DCrash                             (* arr[i] past the end *)
      | Some v => bind_loop r arr (S i) (acc ++ [(s, v)])
      end
  end.

Definition bindlist (syms : list nat) (arr : list nat) : dres :=
  if length arr <? length syms then DErr else bind_loop syms arr 0 [].
