(* ErrCont: sessions over the reference evaluator, for C05 (errors are contained).

   A SESSION is what a host does with one interpreter: a sequence of texts, each evaluated
   by one EvalString call (environment.go:EvalString = LoadString + Run).  The store
   (RefSem.store: frames, arrays, trace, the counter of the failure-injecting host function
   failk) persists from text to text; the control state of the real VM does not exist in
   this model: after a failed text the next text simply starts from the store the failure
   left.  That is the specification the real interpreter is compared with (harness/cmd/c05).

   Executable definitions only; proofs are in Proofs/ErrContProofs.v. *)
From Coq Require Import ZArith Bool List.
Require Import ZV.Model.RefSem.
Import ListNotations.

(* one text *)
Inductive text :=
| TForms (forms : list expr)   (* a text that parses: its forms *)
| TReject.                     (* a text that is rejected as a whole: parse error, or a compile
                                  error of a construct outside the core language *)

(* environment.go:LoadExpressions generates all forms of the text as one unit (a compile
   error rejects the whole text before anything runs), then Run executes them in the
   global frame. *)
Definition eval_text (n : nat) (t : text) (s : store) : res value * store :=
  match t with
  | TReject => (Sig (SErr EOther), s)
  | TForms forms =>
    if forallb (cc []) forms then ev_begin (eval n) [O] forms s
    else (Sig (SErr ELoop), s)
  end.

(* what the host sees of one evaluation *)
Definition observe (r : res value * store) : res sval :=
  match fst r with
  | Done v => Done (snap snap_depth (arrays (snd r)) v)
  | Sig (SErr e) => Sig (SErr e)
  | Sig _ => Sig (SErr ELoop)
  | Fuel => Fuel
  end.

Fixpoint eval_session (n : nat) (ts : list text) (s : store) : list (res sval) * store :=
  match ts with
  | [] => ([], s)
  | t :: r =>
    let rs := eval_text n t s in
    let '(os, s2) := eval_session n r (snd rs) in
    (observe rs :: os, s2)
  end.

(* a whole session in a fresh interpreter whose failk raises on its failat-th call *)
Definition run_session (n failat : nat) (ts : list text) : list (res sval) * list (list sval) :=
  let '(os, s) := eval_session n ts (init_store failat) in (os, rev (trace s)).

(* ---- the moment of failure ----
   fired s: the counter of failk has reached fail_at, i.e. the raising call has happened. *)
Definition armed (s : store) : bool := Nat.ltb (fail_ctr s) (fail_at s).
Definition fired (s : store) : bool := negb (Nat.eqb (fail_at s) 0) && Nat.leb (fail_at s) (fail_ctr s).

(* the store an interpreter has that evaluated the same session but in which the raising
   call of failk is the last thing that ever happened in the failing text: by construction of
   the evaluator this is the store component of the failed text's result; the theorems
   store_at_failure / twin_equiv say that it is what every later text starts from. *)
Definition store_after (n : nat) (ts : list text) (s : store) : store := snd (eval_session n ts s).
