(* C08: the interpreter FAMILY.  A process holds any number of interpreters made by
     environment.go NewZlispSandbox / NewZlisp (NewZlispWithFuncs over a function table),
     environment.go Duplicate / Clone (macro expansion in generator.go GenerateCallBySymbol / GenerateMacexpand,
       builders.go ExpectErrorBuilder, source.go, closing.go: a NEW interpreter value that SHARES env.builtins,
       env.macros and the global scope with its parent),
     repl.go StandardSetup, demo_go_structs.go ImportDemoData (registration into the shared tables, decided by
       the sandbox flag of the interpreter they are called on),
     script-level definitions of global names (def of a value / of an alias of something bound),
     repl.go ReplMain (cmd/zygo): one plan (constructor + registration steps) per assignment of the configuration
       flags its construction depends on -- the GENERATED table replmain_plans.
   State: binding WORLDS (the shared tables) and INTERPRETERS (index of their world, value of the sandboxed field).
   Ghost fields (worigin / iorigin) remember whether the root constructor was NewZlispSandbox: they are the
   specification the flag is compared with, nothing in `fstep` reads them.
   Executable definitions only; proofs in Proofs/FamilyProofs.v. *)
From Coq Require Import String List Bool Arith.
Require Import ZV.Generated.SandboxTables ZV.Model.Sandbox ZV.Model.Cmdline.
Import ListNotations.
Open Scope string_scope.
Open Scope list_scope.

Definition binding := (string * bkind * string)%type.

Record world := { worigin : bool; wbind : list binding; wmac : list (string * list string) }.
Record interp := { iworld : nat; iflag : bool; iorigin : bool }.
Record fstate := { worlds : list world; interps : list interp }.

Definition fstate0 : fstate := {| worlds := []; interps := [] |}.

Inductive fop :=
| FNewSandbox                         (* environment.go NewZlispSandbox *)
| FNewFull                            (* environment.go NewZlisp *)
| FStdSetup (i : nat)                 (* repl.go (env *Zlisp) StandardSetup on interpreter i *)
| FDemo (i : nat)                     (* demo_go_structs.go ImportDemoData on interpreter i *)
| FDup (i : nat)                      (* environment.go Duplicate *)
| FClone (i : nat)                    (* environment.go Clone *)
| FDefValue (i : nat) (n : string)    (* a script running on i defines the global n as a plain value *)
| FDefAlias (i : nat) (n m : string)  (* a script running on i defines the global n as whatever m is bound to *)
| FUnknown (i : nat).                 (* a registration step the model does not know: anything may be bound *)

Fixpoint upd_nth {A : Type} (l : list A) (k : nat) (f : A -> A) : list A :=
  match l, k with
  | [], _ => []
  | x :: r, O => f x :: r
  | x :: r, S k' => x :: upd_nth r k' f
  end.

Definition add_regs (bs : list binding) (ms : list (string * list string)) (w : world) : world :=
  {| worigin := worigin w; wbind := wbind w ++ bs; wmac := wmac w ++ ms |}.

(* what a registration function adds depends on the sandboxed field of the interpreter it runs on
   (builders.go ImportPackageBuilder: if !env.sandboxed { sys, import }) *)
Definition std_regs (flag : bool) : list binding := if flag then std_regs_sb else std_regs_open.
Definition std_macros (flag : bool) := if flag then std_regs_sb_macros else std_regs_open_macros.
Definition demo_regs (flag : bool) : list binding := if flag then demo_regs_sb else demo_regs_open.
Definition demo_macros (flag : bool) := if flag then demo_regs_sb_macros else demo_regs_open_macros.

(* aliases of m: every non-value binding of m, under the new name *)
Definition alias_regs (n m : string) (bs : list binding) : list binding :=
  flat_map (fun b => match b with (m', k, f) => if andb (String.eqb m m') (negb (is_value k)) then [(n, k, f)] else [] end) bs.

(* a binding with an effect class nobody knows *)
Definition unknown_regs : list binding := [("<unknown>", KFunction, "<unknown registration>")].

(* Duplicate / Clone: new interpreter value on the SAME world; the flag is copied iff the source says so *)
Definition derive (copies : bool) (it : interp) : interp :=
  {| iworld := iworld it; iflag := if copies then iflag it else false; iorigin := iorigin it |}.

Definition fstep (st : fstate) (op : fop) : fstate :=
  let on (i : nat) (f : interp -> fstate) : fstate :=
    match nth_error (interps st) i with Some it => f it | None => st end in
  let reg (it : interp) (g : world -> world) : fstate :=
    {| worlds := upd_nth (worlds st) (iworld it) g; interps := interps st |} in
  match op with
  | FNewSandbox =>
      {| worlds := worlds st ++ [{| worigin := true; wbind := ctor_sandbox; wmac := ctor_sandbox_macros |}];
         interps := interps st ++ [{| iworld := length (worlds st); iflag := true; iorigin := true |}] |}
  | FNewFull =>
      {| worlds := worlds st ++ [{| worigin := false; wbind := ctor_full; wmac := ctor_full_macros |}];
         interps := interps st ++ [{| iworld := length (worlds st); iflag := false; iorigin := false |}] |}
  | FStdSetup i => on i (fun it => reg it (add_regs (std_regs (iflag it)) (std_macros (iflag it))))
  | FDemo i => on i (fun it => reg it (add_regs (demo_regs (iflag it)) (demo_macros (iflag it))))
  | FDup i => on i (fun it => {| worlds := worlds st; interps := interps st ++ [derive duplicate_copies_flag it] |})
  | FClone i => on i (fun it => {| worlds := worlds st; interps := interps st ++ [derive clone_copies_flag it] |})
  | FDefValue i n => on i (fun it => reg it (add_regs [(n, KValue, "")] []))
  | FDefAlias i n m => on i (fun it => reg it (fun w => add_regs (alias_regs n m (wbind w)) [] w))
  | FUnknown i => on i (fun it => reg it (add_regs unknown_regs []))
  end.

Definition run_family (ops : list fop) : fstate := fold_left fstep ops fstate0.

(* the capability context of interpreter `it`: ITS flag (guards read env.sandboxed of the interpreter that compiles /
   runs), the tables of its world *)
Definition ctx_of_interp (st : fstate) (it : interp) : ctx :=
  match nth_error (worlds st) (iworld it) with
  | Some w => {| cflag := iflag it; cbind := wbind w; cmac := wmac w |}
  | None => {| cflag := iflag it; cbind := unknown_regs; cmac := [] |}
  end.

(* ---- ReplMain: the plan of one flag assignment as family operations on interpreter 0 ---- *)
Definition step_op (s : string) : fop :=
  if String.eqb s "Zlisp.StandardSetup" then FStdSetup 0
  else if String.eqb s "Zlisp.ImportDemoData" then FDemo 0
  else FUnknown 0.

Definition plan_ops (p : bool * list string) : list fop :=
  (if fst p then FNewSandbox else FNewFull) :: map step_op (snd p).

Fixpoint flag_value (name : string) (names : list string) (vals : list bool) : bool :=
  match names, vals with
  | n :: ns, v :: vs => if String.eqb name n then v else flag_value name ns vs
  | _, _ => false
  end.

Fixpoint vec_eqb (a b : list bool) : bool :=
  match a, b with
  | [], [] => true
  | x :: r, y :: s => andb (Bool.eqb x y) (vec_eqb r s)
  | _, _ => false
  end.

Fixpoint find_plan (v : list bool) (l : list (list bool * (bool * list string))) : option (bool * list string) :=
  match l with
  | [] => None
  | (v', p) :: r => if vec_eqb v v' then Some p else find_plan v r
  end.

(* every assignment of n flags *)
Fixpoint all_vecs (n : nat) : list (list bool) :=
  match n with
  | O => [[]]
  | S k => flat_map (fun v => [false :: v; true :: v]) (all_vecs k)
  end.

(* the flag vector of a parsed command line: value of each flag of replmain_flags
   (Model/Cmdline.v st: -sandbox, -c; `demo` = the flag part contained -demo, given by the caller) *)
Definition vec_of (sandbox demo command : bool) : list bool :=
  map (fun n => if String.eqb n "Sandboxed" then sandbox
                else if String.eqb n "LoadDemoStructs" then demo
                else if String.eqb n "Command" then command else false) replmain_flags.

(* what ReplMain builds for a command line whose flag part was scanned to s *)
Definition construction (s : st) (demo : bool) : option (list fop) :=
  match find_plan (vec_of (sandboxed_flag s) demo (command s)) replmain_plans with
  | Some p => Some (plan_ops p)
  | None => None
  end.

(* ---- observables for the correspondence run (ocaml/c08/run.ml) ---- *)
(* names with a non-value binding in the world of interpreter i *)
Definition names_of (st : fstate) (i : nat) : list string :=
  match nth_error (interps st) i with
  | Some it =>
      match nth_error (worlds st) (iworld it) with
      | Some w => flat_map (fun b => match b with (n, k, _) => if is_value k then [] else [n] end) (wbind w) ++ map fst (wmac w)
      | None => []
      end
  | None => []
  end.

Definition flag_of (st : fstate) (i : nat) : option bool :=
  match nth_error (interps st) i with Some it => Some (iflag it) | None => None end.

Definition origin_of (st : fstate) (i : nat) : option bool :=
  match nth_error (interps st) i with Some it => Some (iorigin it) | None => None end.

Definition family_predicted (st : fstate) (i : nat) (p : prog) : list string :=
  match nth_error (interps st) i with
  | Some it => predicted_effects (ctx_of_interp st it) p
  | None => ["unknown"]
  end.
