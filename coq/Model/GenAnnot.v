(* C04 x C02 — from the Gallina model of the real code generator (Model/GenF1.v, by the C02 work) to
   the certificate checker of C04:

     to_bytecode : list GenF1.instr -> list Bytecode.instr     the instruction type of the generator
                                                               model mapped to the value-free one
     annot_of    : the annotation for the code of an expression, built COMPOSITIONALLY by
                   structural recursion on the expression (no worklist, no search)

   Proofs/GenVerifies.v proves that check_fn accepts (to_bytecode (gen e), annot_of e) for every
   expression of the fragment.  Executable definitions only. *)
From Coq Require Import ZArith Bool List.
Require Import ZV.Model.RefSem.
Require ZV.Model.GenF1.
Require Import ZV.Model.Bytecode ZV.Model.Verifier.
Import ListNotations.
Local Open Scope nat_scope.

(* ---- instructions ---- *)

(* offs id = (breakOffset, continueOffset) of the loop record: GenF1 keeps them on ILoopStart (the
   real code keeps them in the Loop record that BreakInstr/ContinueInstr point to) *)
Definition tb (offs : nat -> nat * nat) (i : GenF1.instr) : instr :=
  match i with
  | GenF1.IPush _ => IPush
  | GenF1.IEnvToStack _ => IEnvToStack
  | GenF1.IPop => IPop
  | GenF1.IDup => IDup
  | GenF1.IBranch _ off => IBranch (Z.of_nat off)
  | GenF1.IJump off => IJump (Z.of_nat off)
  | GenF1.IJumpBack off => IJump (- Z.of_nat off)%Z
  | GenF1.IPutEnv _ => IPopStackPutEnv
  | GenF1.IUpdate _ => IUpdate
  | GenF1.IAddScope => IAddScope
  | GenF1.IRemoveScope => IRemoveScope
  | GenF1.ICallExpr _ args => ICallExpr (length args)
  | GenF1.ILoopStart id _ _ => ILoopStart id
  | GenF1.ILabel => ILabel
  | GenF1.IPushMark id => IPushStackmark id
  | GenF1.IPopUntilMark id => IPopUntilStackmark id
  | GenF1.IClearMark id => IClearStackmark id
  | GenF1.IBreak id k => IBreak id (Z.of_nat (fst (offs id))) k
  | GenF1.ICont id k => IContinue id (Z.of_nat (snd (offs id))) k
  | GenF1.IAddFuncScope => IAddFuncScope
  | GenF1.IReturn => IReturn
  end.

Definition offs_of (code : list GenF1.instr) (id : nat) : nat * nat :=
  match GenF1.find_loop code id 0 with Some (_, bo, co) => (bo, co) | None => (0, 0) end.

Definition to_bytecode (code : list GenF1.instr) : list instr := map (tb (offs_of code)) code.

(* ---- compositional annotation: (relative pc, abstract state) pairs ---- *)

Definition pa := (nat * astate)%type.

Definition pushv (s : astate) : astate := (AVal :: fst s, snd s).
Definition scup (s : astate) : astate := (fst s, S (snd s)).
Fixpoint pushn (n : nat) (s : astate) : astate := match n with 0 => s | S k => pushv (pushn k s) end.
Definition sh (k : nat) (l : list pa) : list pa := map (fun x => (k + fst x, snd x)) l.

Notation glen c n e := (length (GenF1.gen c n e)).

(* keep the entries that lie inside a fragment of length L *)
Definition clip (L : nat) (l : list pa) : list pa := filter (fun x => Nat.ltb (fst x) L) l.

Section Ann.
  Variable A0 : GenF1.cctx -> nat -> expr -> astate -> list pa.
  Let nl := GenF1.nloops.
  Let A c n e s := clip (glen c n e) (A0 c n e s).

  (* GenerateBegin: form; pop; ... ; last form *)
  Fixpoint ann_begin (c : GenF1.cctx) (n : nat) (es : list expr) (s : astate) : list pa :=
    match es with
    | [] => [(0, s)]
    | [e] => A c n e s
    | e :: r => let L := glen c n e in
                A c n e s ++ [(L, pushv s)] ++ sh (S L) (ann_begin c (n + nl e) r s)
    end.

  Fixpoint ann_scope_body (c : GenF1.cctx) (n : nat) (es : list expr) (s : astate) : list pa :=
    match es with
    | [] => []
    | [e] => A c n e s
    | e :: r => let L := glen c n e in
                A c n e s ++ [(L, pushv s)] ++ sh (S L) (ann_scope_body c (n + nl e) r s)
    end.

  (* GenerateCond: pred; brn; body; jump; rest *)
  Fixpoint ann_cond (c : GenF1.cctx) (n : nat) (arms : list (expr * expr)) (dann : nat -> list pa) (s : astate) : list pa :=
    match arms with
    | [] => dann n
    | (t, b) :: r =>
      let Lt := glen c n t in
      let Lb := glen c (n + nl t) b in
      A c n t s ++ [(Lt, pushv s)] ++ sh (S Lt) (A c (n + nl t) b s) ++ [(S Lt + Lb, pushv s)] ++
      sh (S (S Lt) + Lb) (ann_cond c (n + nl t + nl b) r dann s)
    end.

  (* GenerateShortCircuit: arg; dup; br; pop; rest *)
  Fixpoint ann_sc (c : GenF1.cctx) (n : nat) (es : list expr) (s : astate) : list pa :=
    match es with
    | [] => []
    | [e] => A c n e s
    | e :: r => let L := glen c n e in
                A c n e s ++ [(L, pushv s); (S L, pushv (pushv s)); (S (S L), pushv s)] ++
                sh (S (S (S L))) (ann_sc c (n + nl e) r s)
    end.

  (* let: the initialisers pile up their values *)
  Fixpoint ann_inits (c : GenF1.cctx) (n : nat) (bs : list (ident * expr)) (s : astate) : list pa :=
    match bs with
    | [] => []
    | (_, e) :: r => A c n e s ++ sh (glen c n e) (ann_inits c (n + nl e) r (pushv s))
    end.

  (* letseq: initialiser; PopStackPutEnv *)
  Fixpoint ann_letseq (c : GenF1.cctx) (n : nat) (bs : list (ident * expr)) (s : astate) : list pa :=
    match bs with
    | [] => []
    | (_, e) :: r => let L := glen c n e in
                     A c n e s ++ [(L, pushv s)] ++ sh (S L) (ann_letseq c (n + nl e) r s)
    end.
End Ann.

(* the PopStackPutEnv run after the initialisers of a let: k values, one popped per instruction *)
Fixpoint ann_puts (k : nat) (s : astate) : list pa :=
  match k with
  | 0 => []
  | S j => (0, pushn (S j) s) :: sh 1 (ann_puts j s)
  end.

Definition c_in (c : GenF1.cctx) : GenF1.cctx := GenF1.mkCctx (S (GenF1.c_scopes c)) (GenF1.c_loops c).

(* the annotation of the code of one expression entered in state s; the state after it is pushv s.
   (0, s) is always present; entries may repeat. *)
Fixpoint ann (c : GenF1.cctx) (n : nat) (e : expr) (s : astate) {struct e} : list pa :=
  (0, s) ::
  match e with
  | EBegin es => ann_begin ann c n es s
  | ECond arms d => ann_cond ann c n arms (fun n' => clip (glen c n' d) (ann c n' d s)) s
  | EAnd es | EOr es => ann_sc ann c n es s
  | EDef _ e1 | ESet _ e1 =>
    let L := glen c n e1 in clip L (ann c n e1 s) ++ [(L, pushv s); (S L, pushv (pushv s))]
  | ELet false bs body =>
    let c1 := c_in c in
    let s1 := scup s in
    let Li := length (GenF1.gen_inits GenF1.gen GenF1.nloops c1 n bs) in
    let k := length bs in
    let Lb := length (GenF1.gen_begin GenF1.gen GenF1.nloops c1 (n + GenF1.nl_binds GenF1.nloops bs) body) in
    sh 1 (clip Li (ann_inits ann c1 n bs s1)) ++ sh (S Li) (clip k (ann_puts k s1)) ++
    sh (S Li + k) (clip Lb (ann_begin ann c1 (n + GenF1.nl_binds GenF1.nloops bs) body s1)) ++
    [(S Li + k + Lb, pushv s1)]
  | ELet true bs body =>
    let c1 := c_in c in
    let s1 := scup s in
    let Li := length (GenF1.gen_letseq GenF1.gen GenF1.nloops c1 n bs) in
    let Lb := length (GenF1.gen_begin GenF1.gen GenF1.nloops c1 (n + GenF1.nl_binds GenF1.nloops bs) body) in
    sh 1 (clip Li (ann_letseq ann c1 n bs s1)) ++
    sh (S Li) (clip Lb (ann_begin ann c1 (n + GenF1.nl_binds GenF1.nloops bs) body s1)) ++
    [(S Li + Lb, pushv s1)]
  | EScope es =>
    let c1 := c_in c in
    let s1 := scup s in
    let Lb := length (GenF1.gen_scope_body GenF1.gen GenF1.nloops c1 n es) in
    sh 1 (clip Lb (ann_scope_body ann c1 n es s1)) ++ [(S Lb, pushv s1)]
  | _ => []
  end.

(* the annotation as check_fn wants it: for every pc the list of its states *)
Definition build (len : nat) (l : list pa) : annot :=
  map (fun p => map snd (filter (fun x => Nat.eqb (fst x) p) l)) (seq 0 len).

Definition annot_of (e : expr) : annot :=
  build (length (GenF1.gen GenF1.top 0 e)) (ann GenF1.top 0 e ([], 0)).

(* loop-free expressions: the fragment F0 (no for / break / continue) *)
Fixpoint lf (e : expr) : bool :=
  match e with
  | EFor _ _ _ _ _ | EBreak _ | ECont _ => false
  | EBegin es | EAnd es | EOr es | EScope es => forallb lf es
  | ECond arms d => forallb (fun cb => lf (fst cb) && lf (snd cb)) arms && lf d
  | EDef _ e1 | ESet _ e1 => lf e1
  | ELet _ bs body => forallb (fun xb => lf (snd xb)) bs && forallb lf body
  | _ => true
  end.
