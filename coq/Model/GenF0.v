(* GenF0: a Gallina model of the real code generator (zygo/generator.go) and of the VM step
   (zygo/vm.go) for the statically compiled, closure-free fragment F0 of the core language:
   literals, variables, begin, cond, and/or, def/set, let/letseq, newScope, and calls as ONE
   instruction (vm.go:CallExprInstr generates and runs callee and arguments when it executes;
   here it is delegated to RefSem.call_expr -- that is the boundary of the fragment).
   The point of this model: the relative jump offsets of GenerateCond / GenerateShortCircuit,
   the pops of GenerateBegin / GenerateNewScope, the Dup of GenerateDef and the scope
   instructions of GenerateLet are written exactly as in generator.go, and
   Proofs/GenF0Proofs.v proves  run (gen e) = eval e  for all nestings.
   Executable definitions only.  The listing printed by `show` in ocaml/refsem/run.ml is compared
   with the InstrString() listing of the real generator by the C02 check. *)
From Coq Require Import ZArith Bool List.
Require Import ZV.Model.Num ZV.Model.RefSem.
Import ListNotations.
Open Scope Z_scope.

Inductive instr :=
| IPush (e : expr)              (* vm.go:PushInstr of a literal (EInt / EBool / ENil / EStr) *)
| IEnvToStack (x : ident)       (* EnvToStackInstr *)
| IPop                          (* PopInstr *)
| IDup                          (* DupInstr *)
| IBranch (dir : bool) (off : nat)   (* BranchInstr{direction, location}: pops, jumps by off when truthy = dir *)
| IJump (off : nat)             (* JumpInstr{addpc} (forward only in this fragment) *)
| IPutEnv (x : ident)           (* PopStackPutEnvInstr *)
| IUpdate (x : ident)           (* UpdateInstr *)
| IAddScope                     (* AddScopeInstr *)
| IRemoveScope                  (* RemoveScopeInstr *)
| ICallExpr (f : expr) (args : list expr).   (* CallExprInstr{callee, args} *)

Section Gen.
  Variable gen : expr -> list instr.

  (* generator.go:GenerateBegin: a pop after every form but the last, when the form produced code *)
  Fixpoint gen_begin (es : list expr) : list instr :=
    match es with
    | [] => [IPush ENil]      (* an empty body still has a value *)
    | [e] => gen e
    | e :: r => let c := gen e in (match c with [] => [] | _ => c ++ [IPop] end) ++ gen_begin r
    end.

  (* generator.go:GenerateNewScope body: an unconditional pop after every form but the last *)
  Fixpoint gen_scope_body (es : list expr) : list instr :=
    match es with
    | [] => []
    | [e] => gen e
    | e :: r => gen e ++ [IPop] ++ gen_scope_body r
    end.

  (* generator.go:GenerateCond, bottom up: pred; brn |body|+2; body; jump |rest|+1; rest *)
  Fixpoint gen_cond (arms : list (expr * expr)) (dcode : list instr) : list instr :=
    match arms with
    | [] => dcode
    | (c, b) :: r =>
      let rest := gen_cond r dcode in
      let body := gen b in
      gen c ++ [IBranch false (length body + 2)] ++ body ++ [IJump (length rest + 1)] ++ rest
    end.

  (* generator.go:GenerateShortCircuit: arg; dup; br(or) |rest|+2; pop; rest *)
  Fixpoint gen_sc (or : bool) (es : list expr) : list instr :=
    match es with
    | [] => []
    | [e] => gen e
    | e :: r => let rest := gen_sc or r in gen e ++ [IDup; IBranch or (length rest + 2); IPop] ++ rest
    end.

  Fixpoint gen_inits (bs : list (ident * expr)) : list instr :=
    match bs with [] => [] | (_, e) :: r => gen e ++ gen_inits r end.

  Fixpoint gen_letseq (bs : list (ident * expr)) : list instr :=
    match bs with [] => [] | (x, e) :: r => gen e ++ [IPutEnv x] ++ gen_letseq r end.
End Gen.

(* generator.go:Generate restricted to F0 (anything else: no code; excluded by f0) *)
Fixpoint gen (e : expr) : list instr :=
  match e with
  | EInt _ | EBool _ | ENil | EStr _ => [IPush e]
  | EVar x => [IEnvToStack x]
  | ECall f args => [ICallExpr f args]
  | EBegin es => gen_begin gen es
  | ECond arms d => gen_cond gen arms (gen d)
  | EAnd es => gen_sc gen false es
  | EOr es => gen_sc gen true es
  | EDef x e1 => gen e1 ++ [IDup; IPutEnv x]
  | ESet x e1 => gen e1 ++ [IDup; IUpdate x]
  | ELet false bs body =>
    [IAddScope] ++ gen_inits gen bs ++ map IPutEnv (rev (map fst bs)) ++
    gen_begin gen body ++ [IRemoveScope]
  | ELet true bs body =>
    [IAddScope] ++ gen_letseq gen bs ++ gen_begin gen body ++ [IRemoveScope]
  | EScope es => [IAddScope] ++ gen_scope_body gen es ++ [IRemoveScope]
  | _ => []
  end.

(* the fragment.  has_code: GenerateBegin emits the pop only after a form that produced
   instructions; every F0 form does, the side condition keeps that fact syntactic. *)
Definition has_code (e : expr) : bool := match gen e with [] => false | _ => true end.

Fixpoint f0 (e : expr) : bool :=
  match e with
  | EInt _ | EBool _ | ENil | EStr _ | EVar _ => true
  | ECall _ _ => true
  | EBegin es => negb (match es with [] => true | _ => false end) && forallb (fun x => f0 x && has_code x) es
  | EScope es => negb (match es with [] => true | _ => false end) && forallb f0 es
  | EAnd es | EOr es => negb (match es with [] => true | _ => false end) && forallb f0 es
  | ECond arms d => forallb (fun cb => f0 (fst cb) && f0 (snd cb)) arms && f0 d
  | EDef _ e1 | ESet _ e1 => f0 e1
  | ELet _ bs body => forallb (fun xb => f0 (snd xb)) bs &&
                      negb (match body with [] => true | _ => false end) &&
                      forallb (fun x => f0 x && has_code x) body
  | _ => false
  end.

(* ---- the VM on this instruction set (vm.go: Execute methods; environment.go:Run) ---- *)

Record vmstate := mkVm {
  pc : nat;
  stk : list value;          (* data stack, top first *)
  scopes : list nat;         (* scope stack as a static chain of frame ids, innermost first *)
  st : store
}.

Inductive stepres :=
| Next (s : vmstate)
| Halt                        (* pc beyond the code: Run returns the top of the stack *)
| Abort (g : sig) (s : store) (* an instruction returned an error: Run returns it *)
| Stuck                       (* stack underflow / empty scope stack: cannot happen for gen output *)
| NoFuel (s : store).         (* the delegated call ran out of fuel *)

Definition lit_value (e : expr) : value :=
  match e with
  | EInt z => VInt z | EBool b => VBool b | EStr s => VStr s | _ => VNil
  end.

(* one instruction; n is the fuel given to delegated calls *)
Definition step (n : nat) (code : list instr) (s : vmstate) : stepres :=
  match nth_error code (pc s) with
  | None => Halt
  | Some i =>
    let next st' stk' := Next (mkVm (S (pc s)) stk' (scopes s) st') in
    match i with
    | IPush e => next (st s) (lit_value e :: stk s)
    | IEnvToStack x =>
      match lookup_chain (frames (st s)) (scopes s) x with
      | Some (_, v) => next (st s) (v :: stk s)
      | None => Abort (SErr EUnbound) (st s)
      end
    | IPop => match stk s with _ :: r => next (st s) r | [] => next (st s) [] end
    | IDup => match stk s with v :: r => next (st s) (v :: v :: r) | [] => Stuck end
    | IBranch dir off =>
      match stk s with
      | v :: r => if Bool.eqb dir (truthy v)
                  then Next (mkVm (pc s + off) r (scopes s) (st s))
                  else next (st s) r
      | [] => Stuck
      end
    | IJump off => Next (mkVm (pc s + off) (stk s) (scopes s) (st s))
    | IPutEnv x =>
      match stk s with
      | v :: r => match bind (hd O (scopes s)) x v (st s) with
                  | (Done _, st') => next st' r
                  | (Sig g, st') => Abort g st'
                  | (Fuel, st') => NoFuel st'
                  end
      | [] => Stuck
      end
    | IUpdate x =>
      match stk s with
      | v :: r =>
        match lookup_chain (frames (st s)) (scopes s) x with
        | Some (f, _) => next (upd_frame f x v (st s)) r
        | None => match bind (hd O (scopes s)) x v (st s) with
                  | (Done _, st') => next st' r
                  | (Sig g, st') => Abort g st'
                  | (Fuel, st') => NoFuel st'
                  end
        end
      | [] => Stuck
      end
    | IAddScope =>
      let '(f, st') := push_frame (st s) in Next (mkVm (S (pc s)) (stk s) (f :: scopes s) st')
    | IRemoveScope =>
      match scopes s with
      | _ :: r => Next (mkVm (S (pc s)) (stk s) r (st s))
      | [] => Stuck
      end
    | ICallExpr f args =>
      match call_expr (eval n) (apply n) (scopes s) f args (st s) with
      | (Done v, st') => next st' (v :: stk s)
      | (Sig g, st') => Abort g st'
      | (Fuel, st') => NoFuel st'
      end
    end
  end.

(* environment.go:Run for at most k instructions *)
Fixpoint run (n : nat) (code : list instr) (k : nat) (s : vmstate) : res value * store :=
  match k with
  | O => (Fuel, st s)
  | S k' =>
    match step n code s with
    | Next s' => run n code k' s'
    | Halt => (Done (hd VNil (stk s)), st s)
    | Abort g st' => (Sig g, st')
    | Stuck => (Sig (SErr EUnspec), st s)
    | NoFuel st' => (Fuel, st')
    end
  end.
