(* GenF1: the Gallina model of the real code generator (zygo/generator.go) and VM step (zygo/vm.go)
   of Model/GenF0.v, extended with `for` loops and plain / labelled `break` / `continue`:
   generator.go:GenerateForLoop (LoopStart, AddScope, PushStackmark, the init / increment / test /
   body layout with its jump offsets, ClearStackmark, RemoveScope, Push nil), GenerateBreak /
   GenerateContinue (innermost loop or innermost loop with the label; scopesToPop =
   gen.scopes - (loop.scopeDepth+1)), and vm.go: LoopStartInstr, LabelInstr, PushStackmarkInstr,
   PopUntilStackmarkInstr, ClearStackmarkInstr, BreakInstr / ContinueInstr (environment.go:FindLoop:
   position of the loop's LoopStart in the running code + the loop record's break / continue offset).
   Fragment F1 = F0 + for / break / continue; calls stay ONE delegated instruction.
   Loop records are identified by a number (the real code uses the pointer of the Loop record and a
   gensym name); the record's breakOffset / continueOffset are carried by ILoopStart.
   Executable definitions only; Proofs/GenF1Proofs.v proves run (gen e) = eval e for all nestings. *)
From Coq Require Import ZArith Bool List.
Require Import ZV.Model.Num ZV.Model.RefSem.
Import ListNotations.
Open Scope Z_scope.

Inductive instr :=
| IPush (e : expr)
| IEnvToStack (x : ident)
| IPop
| IDup
| IBranch (dir : bool) (off : nat)
| IJump (off : nat)                    (* JumpInstr with addpc >= 0 *)
| IJumpBack (off : nat)                (* JumpInstr with addpc = -off *)
| IPutEnv (x : ident)
| IUpdate (x : ident)
| IAddScope
| IRemoveScope
| ICallExpr (f : expr) (args : list expr)
| ILoopStart (id bo co : nat)          (* LoopStartInstr{loop}; loop.breakOffset, loop.continueOffset *)
| ILabel                               (* LabelInstr *)
| IPushMark (id : nat)                 (* PushStackmarkInstr *)
| IPopUntilMark (id : nat)             (* PopUntilStackmarkInstr *)
| IClearMark (id : nat)                (* ClearStackmarkInstr *)
| IBreak (id k : nat)                  (* BreakInstr{loop, scopesToPop} *)
| ICont (id k : nat)                   (* ContinueInstr{loop, scopesToPop} *)
| IAddFuncScope                        (* AddFuncScopeInstr (function entry) *)
| IReturn.                             (* ReturnInstr{nil} *)

(* what the generator knows while compiling: gen.scopes and the loop stack of the compile unit
   (label, loop number, scopeDepth+1) *)
Definition cloop := (option ident * nat * nat)%type.
Record cctx := mkCctx { c_scopes : nat; c_loops : list cloop }.

Definition cl_hits (lb : option ident) (l : cloop) : bool := hits lb (fst (fst l)).

Section Gen.
  Variable gen : cctx -> nat -> expr -> list instr.
  Variable nl : expr -> nat.            (* number of loop records an expression allocates *)

  Fixpoint gen_begin (c : cctx) (n : nat) (es : list expr) : list instr :=
    match es with
    | [] => [IPush ENil]      (* an empty body still has a value *)
    | [e] => gen c n e
    | e :: r => let code := gen c n e in
                (match code with [] => [] | _ => code ++ [IPop] end) ++ gen_begin c (n + nl e) r
    end.

  Fixpoint gen_scope_body (c : cctx) (n : nat) (es : list expr) : list instr :=
    match es with
    | [] => []
    | [e] => gen c n e
    | e :: r => gen c n e ++ [IPop] ++ gen_scope_body c (n + nl e) r
    end.

  Fixpoint gen_cond (c : cctx) (n : nat) (arms : list (expr * expr)) (dcode : nat -> list instr) : list instr :=
    match arms with
    | [] => dcode n
    | (t, b) :: r =>
      let rest := gen_cond c (n + nl t + nl b) r dcode in
      let body := gen c (n + nl t) b in
      gen c n t ++ [IBranch false (length body + 2)] ++ body ++ [IJump (length rest + 1)] ++ rest
    end.

  Fixpoint gen_sc (c : cctx) (n : nat) (or : bool) (es : list expr) : list instr :=
    match es with
    | [] => []
    | [e] => gen c n e
    | e :: r => let rest := gen_sc c (n + nl e) or r in
                gen c n e ++ [IDup; IBranch or (length rest + 2); IPop] ++ rest
    end.

  Fixpoint gen_inits (c : cctx) (n : nat) (bs : list (ident * expr)) : list instr :=
    match bs with [] => [] | (_, e) :: r => gen c n e ++ gen_inits c (n + nl e) r end.

  Fixpoint gen_letseq (c : cctx) (n : nat) (bs : list (ident * expr)) : list instr :=
    match bs with [] => [] | (x, e) :: r => gen c n e ++ [IPutEnv x] ++ gen_letseq c (n + nl e) r end.

  Fixpoint nl_list (es : list expr) : nat :=
    match es with [] => O | e :: r => (nl e + nl_list r)%nat end.
  Fixpoint nl_binds (bs : list (ident * expr)) : nat :=
    match bs with [] => O | (_, e) :: r => (nl e + nl_binds r)%nat end.
  Fixpoint nl_arms (arms : list (expr * expr)) : nat :=
    match arms with [] => O | (t, b) :: r => (nl t + nl b + nl_arms r)%nat end.
End Gen.

(* loop records allocated by the statically compiled part of an expression *)
Fixpoint nloops (e : expr) : nat :=
  match e with
  | EBegin es | EAnd es | EOr es | EScope es => nl_list nloops es
  | ECond arms d => (nl_arms nloops arms + nloops d)%nat
  | EDef _ e1 | ESet _ e1 => nloops e1
  | ELet _ bs body => (nl_binds nloops bs + nl_list nloops body)%nat
  | EFor _ i t st body => S (nloops i + nloops st + nloops t + nl_list nloops body)
  | _ => O
  end.

Definition inner (c : cctx) (lbl : option ident) (id : nat) : cctx :=
  mkCctx (S (c_scopes c)) ((lbl, id, S (c_scopes c)) :: c_loops c).

(* generator.go:Generate restricted to F1; n = first free loop number *)
Fixpoint gen (c : cctx) (n : nat) (e : expr) : list instr :=
  match e with
  | EInt _ | EBool _ | ENil | EStr _ => [IPush e]
  | EVar x => [IEnvToStack x]
  | ECall f args => [ICallExpr f args]
  | EBegin es => gen_begin gen nloops c n es
  | ECond arms d => gen_cond gen nloops c n arms (fun n' => gen c n' d)
  | EAnd es => gen_sc gen nloops c n false es
  | EOr es => gen_sc gen nloops c n true es
  | EDef x e1 => gen c n e1 ++ [IDup; IPutEnv x]
  | ESet x e1 => gen c n e1 ++ [IDup; IUpdate x]
  | ELet false bs body =>
    let c1 := mkCctx (S (c_scopes c)) (c_loops c) in
    [IAddScope] ++ gen_inits gen nloops c1 n bs ++ map IPutEnv (rev (map fst bs)) ++
    gen_begin gen nloops c1 (n + nl_binds nloops bs) body ++ [IRemoveScope]
  | ELet true bs body =>
    let c1 := mkCctx (S (c_scopes c)) (c_loops c) in
    [IAddScope] ++ gen_letseq gen nloops c1 n bs ++
    gen_begin gen nloops c1 (n + nl_binds nloops bs) body ++ [IRemoveScope]
  | EScope es =>
    [IAddScope] ++ gen_scope_body gen nloops (mkCctx (S (c_scopes c)) (c_loops c)) n es ++ [IRemoveScope]
  | EFor lbl i t st body =>
    (* generator.go:GenerateForLoop *)
    let c1 := inner c lbl n in
    let init_code := gen c1 (S n) i ++ [IPopUntilMark n] in
    let incr_code := gen c1 (S n + nloops i) st ++ [IPopUntilMark n] in
    let test_code := gen c1 (S n + nloops i + nloops st) t in
    let body_code := gen_begin gen nloops c1 (S n + nloops i + nloops st + nloops t) body ++ [IPopUntilMark n] in
    let co := (length init_code + 5)%nat in
    let back := (length incr_code + length test_code + length body_code + 4)%nat in
    let bo := (co + back + 2)%nat in
    [ILoopStart n bo co; IAddScope; IPushMark n; ILabel] ++ init_code ++
    [IJump (length incr_code + 2)] ++ [ILabel] ++ incr_code ++ [ILabel] ++ test_code ++
    [IBranch false (length body_code + 3)] ++ [ILabel] ++ body_code ++ [IJumpBack back] ++ [ILabel] ++
    [IClearMark n; IRemoveScope; IPush ENil]
  | EBreak lb =>
    match find (cl_hits lb) (c_loops c) with
    | Some (_, id, depth) => [IBreak id (c_scopes c - depth)]
    | None => []
    end
  | ECont lb =>
    match find (cl_hits lb) (c_loops c) with
    | Some (_, id, depth) => [ICont id (c_scopes c - depth)]
    | None => []
    end
  | _ => []
  end.

(* forms whose code is non-empty by construction (GenerateBegin emits its pop only after a form that
   produced instructions): everything except a bare break/continue (empty when it finds no loop), a
   nested begin, a default-only cond and a one-operand and/or, whose code is that of a sub-form *)
Definition ne (e : expr) : bool :=
  match e with
  | EInt _ | EBool _ | ENil | EStr _ | EVar _ | ECall _ _ => true
  | EDef _ _ | ESet _ _ | ELet _ _ _ | EScope _ | EFor _ _ _ _ _ => true
  | ECond (_ :: _) _ => true
  | EAnd (_ :: _ :: _) | EOr (_ :: _ :: _) => true
  | _ => false
  end.

Fixpoint init_ne (es : list expr) : bool :=
  match es with
  | [] | [_] => true
  | e :: r => ne e && init_ne r
  end.

(* the fragment: F0 forms + for / break / continue.  init / test / step of a for must not contain a
   break/continue that escapes them (cc []); the forms of a body before the last are `ne` forms. *)
Fixpoint f1 (e : expr) : bool :=
  match e with
  | EInt _ | EBool _ | ENil | EStr _ | EVar _ => true
  | ECall _ _ => true
  | EBreak _ | ECont _ => true
  | EBegin es => negb (match es with [] => true | _ => false end) && forallb f1 es && init_ne es
  | EScope es | EAnd es | EOr es =>
    negb (match es with [] => true | _ => false end) && forallb f1 es
  | ECond arms d => forallb (fun cb => f1 (fst cb) && f1 (snd cb)) arms && f1 d
  | EDef _ e1 | ESet _ e1 => f1 e1
  | ELet _ bs body => forallb (fun xb => f1 (snd xb)) bs &&
                      negb (match body with [] => true | _ => false end) && forallb f1 body && init_ne body
  | EFor _ i t st body => f1 i && f1 t && f1 st && cc [] i && cc [] t && cc [] st &&
                          forallb f1 body && init_ne body
  | _ => false
  end.

(* ---- the VM ---- *)

Inductive selem := SV (v : value) | SM (id : nat).   (* data stack: values and stack marks *)

Record vmstate := mkVm { pc : nat; stk : list selem; scopes : list nat; st : store }.

Inductive stepres :=
| Next (s : vmstate)
| Halt
| Abort (g : sig) (s : store)
| Stuck
| NoFuel (s : store).

Definition lit_value (e : expr) : value :=
  match e with EInt z => VInt z | EBool b => VBool b | EStr s => VStr s | _ => VNil end.

(* environment.go:FindLoop: the first LoopStart of that loop record in the running code *)
Fixpoint find_loop (code : list instr) (id : nat) (pos : nat) : option (nat * nat * nat) :=
  match code with
  | [] => None
  | ILoopStart id' bo co :: r => if Nat.eqb id id' then Some (pos, bo, co) else find_loop r id (S pos)
  | _ :: r => find_loop r id (S pos)
  end.

(* PopUntilStackmark: drop until the mark, which stays *)
Fixpoint pop_until (id : nat) (s : list selem) : option (list selem) :=
  match s with
  | [] => None
  | SM id' :: r => if Nat.eqb id id' then Some s else pop_until id r
  | SV _ :: r => pop_until id r
  end.

(* ClearStackmark: drop up to and including the mark *)
Definition clear_mark (id : nat) (s : list selem) : option (list selem) :=
  match pop_until id s with Some (_ :: r) => Some r | _ => None end.

Definition step (n : nat) (code : list instr) (s : vmstate) : stepres :=
  match nth_error code (pc s) with
  | None => Halt
  | Some i =>
    let next st' stk' := Next (mkVm (S (pc s)) stk' (scopes s) st') in
    match i with
    | IPush e => next (st s) (SV (lit_value e) :: stk s)
    | IEnvToStack x =>
      match lookup_chain (frames (st s)) (scopes s) x with
      | Some (_, v) => next (st s) (SV v :: stk s)
      | None => Abort (SErr EUnbound) (st s)
      end
    | IPop => match stk s with _ :: r => next (st s) r | [] => next (st s) [] end
    | IDup => match stk s with v :: r => next (st s) (v :: v :: r) | [] => Stuck end
    | IBranch dir off =>
      match stk s with
      | SV v :: r => if Bool.eqb dir (truthy v)
                     then Next (mkVm (pc s + off) r (scopes s) (st s))
                     else next (st s) r
      | _ => Stuck
      end
    | IJump off => Next (mkVm (pc s + off) (stk s) (scopes s) (st s))
    | IJumpBack off => Next (mkVm (pc s - off) (stk s) (scopes s) (st s))
    | IPutEnv x =>
      match stk s with
      | SV v :: r => match bind (hd O (scopes s)) x v (st s) with
                     | (Done _, st') => next st' r
                     | (Sig g, st') => Abort g st'
                     | (Fuel, st') => NoFuel st'
                     end
      | _ => Stuck
      end
    | IUpdate x =>
      match stk s with
      | SV v :: r =>
        match lookup_chain (frames (st s)) (scopes s) x with
        | Some (f, _) => next (upd_frame f x v (st s)) r
        | None => match bind (hd O (scopes s)) x v (st s) with
                  | (Done _, st') => next st' r
                  | (Sig g, st') => Abort g st'
                  | (Fuel, st') => NoFuel st'
                  end
        end
      | _ => Stuck
      end
    | IAddScope =>
      let '(f, st') := push_frame (st s) in Next (mkVm (S (pc s)) (stk s) (f :: scopes s) st')
    | IRemoveScope =>
      match scopes s with
      | _ :: r => Next (mkVm (S (pc s)) (stk s) r (st s))
      | [] => Stuck
      end
    | ICallExpr f args =>
      match call_expr (eval n) (apply n) (scopes s) f args (st s) with
      | (Done v, st') => next st' (SV v :: stk s)
      | (Sig g, st') => Abort g st'
      | (Fuel, st') => NoFuel st'
      end
    | ILoopStart _ _ _ | ILabel => next (st s) (stk s)
    | IPushMark id => next (st s) (SM id :: stk s)
    | IPopUntilMark id =>
      match pop_until id (stk s) with Some r => next (st s) r | None => Stuck end
    | IClearMark id =>
      match clear_mark id (stk s) with Some r => next (st s) r | None => Stuck end
    | IBreak id k =>
      match find_loop code id O with
      | Some (pos, bo, _) =>
        if Nat.leb k (length (scopes s))
        then Next (mkVm (pos + bo) (stk s) (skipn k (scopes s)) (st s))
        else Stuck
      | None => Abort (SErr ELoop) (st s)
      end
    | IAddFuncScope =>
      let '(f, st') := push_frame (st s) in Next (mkVm (S (pc s)) (stk s) (f :: scopes s) st')
    | IReturn => Halt
    | ICont id k =>
      match find_loop code id O with
      | Some (pos, _, co) =>
        if Nat.leb k (length (scopes s))
        then Next (mkVm (pos + co) (stk s) (skipn k (scopes s)) (st s))
        else Stuck
      | None => Abort (SErr ELoop) (st s)
      end
    end
  end.

Fixpoint run (n : nat) (code : list instr) (k : nat) (s : vmstate) : res value * store :=
  match k with
  | O => (Fuel, st s)
  | S k' =>
    match step n code s with
    | Next s' => run n code k' s'
    | Halt => (Done (match stk s with SV v :: _ => v | _ => VNil end), st s)
    | Abort g st' => (Sig g, st')
    | Stuck => (Sig (SErr EUnspec), st s)
    | NoFuel st' => (Fuel, st')
    end
  end.

Definition top : cctx := mkCctx O [].

(* generator.go:buildSexpFun for a function without `& rest`, whose body has no self tail call:
   AddFuncScope; PopStackPutEnv for the last formal first; the body; RemoveScope; Return.
   Inside the body gen.scopes starts at 0 and the loop stack of the compile unit is empty
   (F2 bodies do not sit inside a loop). *)
Definition fun_code (ps : list ident) (body : list expr) : list instr :=
  [IAddFuncScope] ++ map IPutEnv (rev ps) ++ gen_begin gen nloops top O body ++ [IRemoveScope; IReturn].

