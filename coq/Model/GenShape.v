(* Model of the argument handling of the code generator, zygo/generator.go.

   For every special form, builder head and the generic paths of Generate, the model performs
   the same sequence of length checks, type switches/assertions, index and slice expressions
   on the argument list as the Go function it mirrors (named in the comments), over an abstract
   argument SHAPE.  What the model computes is only the OUTCOME CLASS of the generation:

     ROk macs latent   code was generated (macs: macros defined so far at compile time;
                       latent: an emitted instruction holds a nil symbol and panics when run)
     RErr              the generator returned an error
     RCrash site       a Go panic at `site` (index/slice out of range, failed unchecked type
                       assertion, explicit panic) - nothing recovers it before EvalString
     RDefer            the outcome depends on something outside the model (the oracle said so)
     RFuel             recursion budget of the model exhausted (never for fuel > size of input)

   External behaviour enters through three oracles: the result of running a macro at compile
   time, the result of the infix (Pratt) expansion, the expressions parsed from an included file.
   Executable definitions only; proofs are in Proofs/GenShapeProofs.v. *)
From Coq Require Import List Bool Arith.
Import ListNotations.

(* names with a case in GenerateCallBySymbol's switch *)
Inductive form :=
| FAnd | FOr | FCond | FQuote | FDef | FMdef | FFn | FDefn | FBegin | FLet | FLetseq | FAssert
| FDefmac | FMacexpand | FSyntaxQuote | FInclude | FFor | FSet | FBreak | FContinue | FNewScope
| FPackage | FReturn | FLs.

Inductive nameclass :=
| NForm (f : form)
| NUnquote | NUnquoteSplicing
| NAssign            (* the symbols = and := *)
| NOther.

(* what LexicalLookupSymbol finds for the symbol at compile time *)
Inductive binding := BNone | BBuilder | BInfix | BOther.

Record sym := mkSym {
  s_class   : nameclass;
  s_builtin : bool;    (* env.IsBuiltinSym: builtins, macros, reserved words *)
  s_table   : bool;    (* present in env.builtins *)
  s_macro   : bool;    (* env.HasMacro before this text *)
  s_dot     : bool;    (* sym.isDot *)
  s_self    : bool;    (* isDot || colonTail || ?-sigil: LexicalLookupSymbol returns the symbol itself *)
  s_bind    : binding;
  s_num     : nat      (* sym.number *)
}.

Inductive shape :=
| SNull                         (* SexpNull, the empty list (a *SexpSentinel, not a *SexpPair) *)
| SPair (h t : shape)
| SArr (l : list shape)
| SSym (s : sym)
| SStr | SInt | SHash | SComment | SOther.

Inductive site :=
| SiteIncludeTail        (* generator.go GenerateInclude.sourceItem: the tail of a list that is no pair (now checked: unreachable) *)
| SiteMdefNilSym         (* latent: a nil symbol in BindlistInstr (GenerateMultiDef now rejects the target: unreachable) *)
| SiteIndex (f : form)   (* an index or slice expression of the form's generator past the length *)
| SiteBeginLast | SiteAssignIndex | SiteAssignPanicOn | SiteGetLHSAssert | SiteMdefAssert
| SiteQuotedTailAssert | SiteForControlNil | SiteSQIndex | SiteDefOpname.

Inductive res :=
| ROk (macs : list nat) (latent : bool)
| RErr
| RCrash (s : site)
| RDefer
| RFuel.

Inductive oexp := OErr | OExp (e : shape) | ODefer.
Inductive oexps := OsErr | OsExps (l : list shape) | OsDefer.

(* generator-level state that is passed down: gen.funcname and env.loopstack (labels) *)
Record genv := mkGenv { g_fname : option nat; g_loops : list (option nat) }.

Inductive mode :=
| MGen        (* Generator.Generate(e) *)
| MSQ         (* Generator.GenerateSyntaxQuote([e]) *)
| MInc.       (* GenerateInclude's sourceItem(e) *)

(* sequencing: errors and crashes abort; after a deferred step only a later crash is still reported *)
Definition bind (m : list nat) (r : res) (k : list nat -> res) : res :=
  match r with
  | ROk m' l => match k m' with ROk m'' l' => ROk m'' (l || l') | x => x end
  | RDefer => match k m with RCrash s => RCrash s | RFuel => RFuel | _ => RDefer end
  | x => x
  end.

Definition taint (r : res) : res :=
  match r with RCrash s => RCrash s | RFuel => RFuel | _ => RDefer end.

Definition ok (m : list nat) : res := ROk m false.

(* ---- listutils.go ---- *)
Fixpoint is_list (e : shape) : bool :=                    (* IsList *)
  match e with SNull => true | SPair _ t => is_list t | _ => false end.

Fixpoint list_to_array (e : shape) : option (list shape) := (* ListToArray; None = NotAList *)
  match e with
  | SNull => Some []
  | SPair h t => match list_to_array t with Some l => Some (h :: l) | None => None end
  | _ => None
  end.

Fixpoint list_len (e : shape) : option nat :=             (* ListLen; None = error *)
  match e with
  | SNull => Some 0
  | SPair _ t => match list_len t with Some n => Some (S n) | None => None end
  | _ => None
  end.

(* typeutils.go IsAssignmentList(expr, pos) *)
Fixpoint is_assignment_list (e : shape) (pos : nat) : option nat :=
  match e with
  | SPair (SSym s) t =>
      match s_class s with NAssign => Some pos | _ => is_assignment_list t (S pos) end
  | SPair _ t => is_assignment_list t (S pos)
  | _ => None
  end.

Definition is_quote (s : sym) : bool :=
  match s_class s with NForm FQuote => true | _ => false end.

(* generator.go isQuotedSymbol: note that a head that is not a symbol at all is accepted *)
Definition is_quoted_symbol (h t : shape) : shape * bool :=
  let continue :=
    match t with
    | SPair (SSym s) _ => (SSym s, true)
    | _ => (SNull, false)
    end in
  match h with
  | SSym s => if is_quote s then continue else (SNull, false)
  | _ => continue
  end.

(* generator.go getQuotedSymbol; inl sym | inr true = error | inr false = crash (failed assertion) *)
Definition get_quoted_symbol (e : shape) : sym + bool :=
  match list_len e with
  | None => inr true
  | Some n =>
      if negb (n =? 2) then inr true else
      match e with
      | SPair (SSym q) t =>
          if negb (is_quote q) then inr true else
          match t with
          | SPair (SSym l) _ => inl l
          | SPair _ _ => inr true
          | _ => inr false          (* expr.Tail.( *SexpPair) *)
          end
      | _ => inr true
      end
  end.

Definition has_macro (m : list nat) (s : sym) : bool :=
  s_macro s || existsb (Nat.eqb (s_num s)) m.

Inductive chk := COk | CErr | CCrash (c : site).

Inductive lhs := LErr | LSym (s : sym) | LCrash (c : site).

(* generator.go GetLHS *)
Definition get_lhs (m : list nat) (arg : shape) : lhs :=
  let check (s : sym) :=
    if s_builtin s || existsb (Nat.eqb (s_num s)) m then LErr
    else if has_macro m s then LErr else LSym s in
  match arg with
  | SSym s => check s
  | SPair h t =>
      match is_quoted_symbol h t with
      | (u, true) => match u with SSym s => check s | _ => LCrash SiteGetLHSAssert end
      | (_, false) => LErr
      end
  | _ => LErr
  end.

Definition idx (l : list shape) (i : nat) (c : site) (k : shape -> res) : res :=
  match nth_error l i with Some x => k x | None => RCrash c end.

(* l[n:] - Go panics when n > len(l) *)
Definition slice_from (l : list shape) (n : nat) (c : site) (k : list shape -> res) : res :=
  if length l <? n then RCrash c else k (skipn n l).

Section Gen.
  Variable omacro : sym -> list shape -> oexp.
  Variable oinfix : list shape -> oexps.
  Variable ofile  : oexps.
  (* the three recursive entry points with less fuel *)
  Variable rec : mode -> genv -> list nat -> shape -> res.

  Definition gen := rec MGen.

  (* generate the expressions in order *)
  Fixpoint gen_all (g : genv) (m : list nat) (l : list shape) : res :=      (* GenerateAll *)
    match l with
    | [] => ok m
    | e :: r => bind m (gen g m e) (fun m' => gen_all g m' r)
    end.

  (* GenerateBegin: expressions[:size-1] in order, then expressions[size-1] *)
  Definition gen_begin (g : genv) (m : list nat) (l : list shape) : res :=
    let size := length l in
    if size =? 0 then ok m else
    bind m (gen_all g m (firstn (size - 1) l))
         (fun m' => idx l (size - 1) SiteBeginLast (fun e => gen g m' e)).

  Definition sub (g : genv) : genv := mkGenv (g_fname g) (g_loops g).   (* NewSubGenerator copies funcname (and scopes) *)

  (* GenerateShortCircuit *)
  Fixpoint sc_loop (g0 : genv) (args : list shape) (n : nat) (m : list nat) : res :=
    match n with
    | 0 => ok m
    | S i => idx args i (SiteIndex FAnd) (fun a => bind m (gen g0 m a) (fun m' => sc_loop g0 args i m'))
    end.

  Definition gen_short_circuit (g : genv) (m : list nat) (args : list shape) : res :=
    let size := length args in
    if size =? 0 then RErr else
    idx args (size - 1) (SiteIndex FAnd) (fun last =>
      bind m (gen g m last) (fun m' => sc_loop (sub g) args (size - 1) m')).

  (* GenerateQuote: exactly one argument *)
  Definition gen_quote (m : list nat) (args : list shape) : res :=
    if negb (length args =? 1) then RErr else idx args 0 (SiteIndex FQuote) (fun _ => ok m).

  (* GenerateCond *)
  Fixpoint cond_loop (g : genv) (args : list shape) (n : nat) (m : list nat) : res :=
    match n with
    | 0 => ok m
    | S i =>
        idx args (2 * i) (SiteIndex FCond) (fun p =>
          bind m (gen g m p) (fun m1 =>
            idx args (2 * i + 1) (SiteIndex FCond) (fun b =>
              bind m1 (gen g m1 b) (fun m2 => cond_loop g args i m2))))
    end.

  Definition gen_cond (g : genv) (m : list nat) (args : list shape) : res :=
    let n := length args in
    if Nat.even n then RErr else
    idx args (n - 1) (SiteIndex FCond) (fun last =>
      bind m (gen g m last) (fun m' => cond_loop g args (n / 2) m')).

  (* GenerateDef (def and set) *)
  Definition gen_def (f : form) (g : genv) (m : list nat) (args : list shape) : res :=
    if negb (length args =? 2) then RErr else
    idx args 0 (SiteIndex f) (fun a0 =>
      let first :=
        match a0 with
        | SPair _ _ => gen g m a0
        | _ => match get_lhs m a0 with
               | LErr => RErr
               | LCrash c => RCrash c
               | LSym _ => match f with FDef => ok m | FSet => ok m | _ => RCrash SiteDefOpname end
               end
        end in
      bind m first (fun m' => idx args 1 (SiteIndex f) (fun a1 => gen g m' a1))).

  (* GenerateMultiDef: a target that is a list must be (quote sym) *)
  Fixpoint mdef_targets (m : list nat) (args : list shape) (i nsym : nat) (latent : bool) : res :=
    match nsym with
    | 0 => ROk m latent
    | S k =>
        idx args i (SiteIndex FMdef) (fun a =>
          match a with
          | SSym s => if has_macro m s then RErr else mdef_targets m args (S i) k latent
          | SPair h t =>
              match is_quoted_symbol h t with
              | (u, true) => match u with
                             | SSym _ => mdef_targets m args (S i) k latent
                             | _ => RCrash SiteMdefAssert
                             end
              | (_, false) => RErr      (* "All mdef targets must be symbols" (was: syms[i] stayed nil) *)
              end
          | _ => RErr
          end)
    end.

  Definition gen_mdef (g : genv) (m : list nat) (args : list shape) : res :=
    let n := length args in
    if n <? 2 then RErr else
    bind m (mdef_targets m args 0 (n - 1) false)
         (fun m' => idx args (n - 1) (SiteIndex FMdef) (fun last => gen g m' last)).

  (* buildSexpFun: formals must be symbols; the body is a GenerateBegin in a new generator *)
  Definition all_syms (l : list shape) : bool :=
    forallb (fun e => match e with SSym _ => true | _ => false end) l.

  Definition build_fun (g : genv) (m : list nat) (name : option nat) (formals body : list shape) : res :=
    if negb (all_syms formals) then RErr else
    gen_begin (mkGenv name (g_loops g)) m body.

  (* GenerateFn *)
  Definition gen_fn (g : genv) (m : list nat) (args : list shape) : res :=
    if length args <? 2 then RErr else
    idx args 0 (SiteIndex FFn) (fun a0 =>
      match a0 with
      | SArr formals => slice_from args 1 (SiteIndex FFn) (fun body => build_fun g m None formals body)
      | _ => RErr
      end).

  (* GenerateDefn *)
  Definition gen_defn (g : genv) (m : list nat) (args : list shape) : res :=
    if length args <? 3 then RErr else
    idx args 1 (SiteIndex FDefn) (fun a1 =>
      match a1 with
      | SArr formals =>
          idx args 0 (SiteIndex FDefn) (fun a0 =>
            match a0 with
            | SSym s =>
                if s_builtin s || existsb (Nat.eqb (s_num s)) m then RErr
                else if has_macro m s then RErr
                else slice_from args 2 (SiteIndex FDefn)
                       (fun body => build_fun g m (Some (s_num s)) formals body)
            | _ => RErr
            end)
      | _ => RErr
      end).

  (* GenerateDefmac: on success the macro table grows at compile time *)
  Definition gen_defmac (g : genv) (m : list nat) (args : list shape) : res :=
    if length args <? 3 then RErr else
    idx args 1 (SiteIndex FDefmac) (fun a1 =>
      match a1 with
      | SArr formals =>
          idx args 0 (SiteIndex FDefmac) (fun a0 =>
            match a0 with
            | SSym s =>
                if s_table s then RErr
                else if s_self s then RErr
                else match s_bind s with
                     | BNone =>
                         slice_from args 2 (SiteIndex FDefmac) (fun body =>
                           match build_fun g m (Some (s_num s)) formals body with
                           | ROk m' l => ROk (s_num s :: m') l
                           | x => x
                           end)
                     | _ => RErr
                     end
            | _ => RErr
            end)
      | _ => RErr
      end).

  (* GenerateLet (let and letseq) *)
  Fixpoint let_lhs (b : list shape) (i n : nat) : chk :=     (* the loop over bindings[2*i], bindings[2*i+1] *)
    match n with
    | 0 => COk
    | S k =>
        match nth_error b (2 * i) with
        | None => CCrash (SiteIndex FLet)
        | Some (SSym _) =>
            match nth_error b (2 * i + 1) with
            | None => CCrash (SiteIndex FLet)
            | Some _ => let_lhs b (S i) k
            end
        | Some _ => CErr                         (* cannot bind to non-symbol *)
        end
    end.

  Fixpoint let_rhs (g : genv) (m : list nat) (b : list shape) (i n : nat) : res :=
    match n with
    | 0 => ok m
    | S k => idx b (2 * i + 1) (SiteIndex FLet) (fun r => bind m (gen g m r) (fun m' => let_rhs g m' b (S i) k))
    end.

  Definition gen_let (g : genv) (m : list nat) (args : list shape) : res :=
    if length args <? 2 then RErr else
    idx args 0 (SiteIndex FLet) (fun a0 =>
      match a0 with
      | SArr b =>
          if negb (Nat.even (length b)) then RErr else
          let n := length b / 2 in
          match let_lhs b 0 n with
          | CCrash c => RCrash c
          | CErr => RErr
          | COk =>
              bind m (let_rhs g m b 0 n) (fun m' =>
                slice_from args 1 (SiteIndex FLet) (fun body => gen_begin g m' body))
          end
      | _ => RErr
      end).

  (* GenerateAssert *)
  Definition gen_assert (g : genv) (m : list nat) (args : list shape) : res :=
    if negb (length args =? 1) then RErr else idx args 0 (SiteIndex FAssert) (fun a => gen g m a).

  (* GenerateMacexpand *)
  Definition gen_macexpand (g : genv) (m : list nat) (args : list shape) : res :=
    if negb (length args =? 1) then RErr else
    idx args 0 (SiteIndex FMacexpand) (fun a =>
      match a with
      | SPair (SSym s) t =>
          if is_list t && has_macro m s then
            match list_to_array t with
            | None => RErr
            | Some margs => match omacro s margs with OErr => RErr | OExp _ => ok m | ODefer => RDefer end
            end
          else ok m
      | _ => ok m
      end).

  (* GenerateSyntaxQuote / generateSyntaxQuoteList / generateSyntaxQuoteArray *)
  Fixpoint sq_all (g : genv) (m : list nat) (l : list shape) : res :=
    match l with
    | [] => ok m
    | e :: r => bind m (rec MSQ g m e) (fun m' => sq_all g m' r)
    end.

  Definition sq_one (g : genv) (m : list nat) (arg : shape) : res :=
    match arg with
    | SArr l => sq_all g m l
    | SPair _ _ =>
        if negb (is_list arg) then ok m else
        match list_to_array arg with
        | None => ok m                                      (* quotebody, _ := ListToArray(arg) *)
        | Some qb =>
            let general := sq_all g m qb in
            if length qb =? 2 then
              idx qb 0 SiteSQIndex (fun q0 =>
                match q0 with
                | SSym s =>
                    match s_class s with
                    | NUnquote => idx qb 1 SiteSQIndex (fun q1 => gen g m q1)
                    | NUnquoteSplicing => idx qb 1 SiteSQIndex (fun q1 => gen g m q1)
                    | _ => general
                    end
                | _ => general
                end)
            else general
        end
    | SHash => RDefer          (* generateSyntaxQuoteHash walks the hash table: not modelled here *)
    | _ => ok m
    end.

  Definition gen_syntax_quote (g : genv) (m : list nat) (args : list shape) : res :=
    if negb (length args =? 1) then RErr else idx args 0 (SiteIndex FSyntaxQuote) (fun a => sq_one g m a).

  (* GenerateInclude: sourceItem *)
  Fixpoint inc_all (g : genv) (m : list nat) (l : list shape) : res :=
    match l with
    | [] => ok m
    | e :: r => bind m (rec MInc g m e) (fun m' => inc_all g m' r)
    end.

  (* for expr != SexpNull { list, isPair := expr.( *SexpPair); ...; sourceItem(list.Head); expr = list.Tail } *)
  Fixpoint inc_walk (g : genv) (m : list nat) (e : shape) : res :=
    match e with
    | SNull => ok m
    | SPair h t => bind m (rec MInc g m h) (fun m' => inc_walk g m' t)
    | _ => RErr                    (* list, isPair := expr.( *SexpPair); !isPair: "include: improper list" *)
    end.

  Definition inc_item (g : genv) (m : list nat) (item : shape) : res :=
    match item with
    | SArr l => inc_all g m l
    | SPair _ _ => inc_walk g m item
    | SStr => match ofile with
              | OsErr => RErr
              | OsExps xs => gen_begin g m xs
              | OsDefer => RDefer
              end
    | _ => RErr
    end.

  Definition gen_include (g : genv) (m : list nat) (args : list shape) : res :=
    if length args <? 1 then RErr else inc_all g m args.

  (* GenerateForLoop *)
  Definition gen_for (g : genv) (m : list nat) (args : list shape) : res :=
    let narg := length args in
    if narg <? 1 then RErr else
    idx args 0 (SiteIndex FFor) (fun a0 =>
      let k (label : option nat) (startgen : nat) (control : option (list shape)) :=
        match control with
        | None => RCrash SiteForControlNil
        | Some c =>
            if negb (length c =? 3) then RErr else
            let g' := mkGenv (g_fname g) (label :: g_loops g) in
            slice_from args startgen (SiteIndex FFor) (fun body =>
              bind m (gen_begin g' m body) (fun m1 =>
                idx c 0 (SiteIndex FFor) (fun c0 => bind m1 (gen g' m1 c0) (fun m2 =>
                  idx c 1 (SiteIndex FFor) (fun c1 => bind m2 (gen g' m2 c1) (fun m3 =>
                    idx c 2 (SiteIndex FFor) (fun c2 => gen g' m3 c2)))))))
        end in
      let labelled (l : sym) :=
        if narg <? 2 then RErr else
        idx args 1 (SiteIndex FFor) (fun a1 =>
          match a1 with
          | SArr c => k (Some (s_num l)) 2 (Some c)
          | _ => RErr
          end) in
      match a0 with
      | SSym l => labelled l
      | SPair _ _ => match get_quoted_symbol a0 with
                     | inl l => labelled l
                     | inr true => RErr
                     | inr false => RCrash SiteQuotedTailAssert
                     end
      | SArr c => k None 1 (Some c)
      | _ => RErr
      end).

  (* GenerateBreak / GenerateContinue *)
  Definition gen_break (f : form) (g : genv) (m : list nat) (args : list shape) : res :=
    if 1 <? length args then RErr else
    let k (label : option nat) :=
      match g_loops g with
      | [] => RErr
      | _ => match label with
             | None => ok m
             | Some n => if existsb (fun l => match l with Some x => x =? n | None => false end) (g_loops g)
                         then ok m else RErr
             end
      end in
    if length args =? 1 then
      idx args 0 (SiteIndex f) (fun a =>
        match a with
        | SSym l => k (Some (s_num l))
        | SPair _ _ => match get_quoted_symbol a with
                       | inl l => k (Some (s_num l))
                       | inr true => RErr
                       | inr false => RCrash SiteQuotedTailAssert
                       end
        | _ => RErr
        end)
    else k None.

  (* GenerateNewScope *)
  Definition gen_new_scope (g : genv) (m : list nat) (l : list shape) : res :=
    let size := length l in
    if size =? 0 then ok m else
    bind m (gen_all g m (firstn (size - 1) l))
         (fun m' => idx l (size - 1) (SiteIndex FNewScope) (fun e => gen g m' e)).

  (* GeneratePackage *)
  Definition gen_package (g : genv) (m : list nat) (l : list shape) : res :=
    let size := length l in
    if size <? 1 then RErr else
    idx l 0 (SiteIndex FPackage) (fun e0 =>
      match e0 with
      | SSym _ | SStr =>
          let middle := if 1 <? size then firstn (size - 1 - 1) (skipn 1 l) else [] in
          bind m (gen_all g m middle)
               (fun m' => idx l (size - 1) (SiteIndex FPackage) (fun e => gen g m' e))
      | _ => RErr
      end).

  (* GenerateCallArgsForFunction on a self tail call: whether it runs (gen.Tail) and which
     arguments are lazy is not modelled, so anything but "every argument generates" is deferred *)
  Fixpoint scan_args (g : genv) (m : list nat) (args : list shape) : res :=
    match args with
    | [] => ok m
    | a :: r =>
        match gen g m a with
        | RCrash s => RCrash s
        | RFuel => RFuel
        | ROk m' false => if length m' =? length m then scan_args g m r else taint (scan_args g m r)
        | _ => taint (scan_args g m r)
        end
    end.

  (* GenerateCallBySymbol *)
  Definition gen_call_by_symbol (g : genv) (m : list nat) (s : sym) (args : list shape) : res :=
    match s_class s with
    | NForm f =>
        match f with
        | FAnd | FOr => gen_short_circuit g m args
        | FCond => gen_cond g m args
        | FQuote => gen_quote m args
        | FDef => gen_def FDef g m args
        | FSet => gen_def FSet g m args
        | FMdef => gen_mdef g m args
        | FFn => gen_fn g m args
        | FDefn => gen_defn g m args
        | FBegin => gen_begin g m args
        | FLet | FLetseq => gen_let g m args
        | FAssert => gen_assert g m args
        | FDefmac => gen_defmac g m args
        | FMacexpand => gen_macexpand g m args
        | FSyntaxQuote => gen_syntax_quote g m args
        | FInclude => gen_include g m args
        | FFor => gen_for g m args
        | FBreak => gen_break FBreak g m args
        | FContinue => gen_break FContinue g m args
        | FNewScope => gen_new_scope g m args
        | FPackage => gen_package g m args
        | FReturn => gen_all g m args
        | FLs => ok m
        end
    | _ =>
        if has_macro m s then
          match omacro s args with
          | OErr => RErr
          | OExp e => gen g m e
          | ODefer => RDefer
          end
        else
          match g_fname g with
          | Some n => if n =? s_num s then scan_args g m args else ok m
          | None => ok m
          end
    end.

  (* GenerateCall *)
  Definition gen_call (g : genv) (m : list nat) (h t : shape) : res :=
    let arr := match list_to_array t with Some l => l | None => [] end in
    match h with
    | SSym s =>
        if s_self s then gen_call_by_symbol g m s arr else
        match s_bind s with
        | BBuilder => ok m                                   (* GenerateBuilder: pushes the raw arguments *)
        | BInfix =>                                          (* GenerateInfix *)
            match oinfix arr with
            | OsErr => RErr
            | OsExps xs => if length xs =? 0 then ok m else gen_begin g m xs
            | OsDefer => RDefer
            end
        | _ => gen_call_by_symbol g m s arr
        end
    | _ => ok m                                              (* GenerateDispatch *)
    end.

  (* GenerateAssignment(expr, pos) with pos > 0 *)
  Fixpoint assign_loop (g : genv) (m : list nat) (lhs rhs : list shape) (i n : nat) : res :=
    match n with
    | 0 => ok m
    | S k =>
        idx lhs i SiteAssignIndex (fun l =>
          idx rhs i SiteAssignIndex (fun r =>
            bind m (gen_def FDef g m [l; r]) (fun m' => assign_loop g m' lhs rhs (S i) k)))
    end.

  Definition gen_assignment (g : genv) (m : list nat) (e : shape) (pos : nat) : res :=
    match list_to_array e with
    | None => RCrash SiteAssignPanicOn
    | Some arr =>
        if (length arr <=? 1) || (pos =? length arr - 1) then RErr else
        if length arr <? pos + 1 then RCrash SiteAssignIndex else
        let lhs := firstn pos arr in
        let rhs := skipn (pos + 1) arr in
        if negb (length lhs =? length rhs) then RErr else
        assign_loop g m lhs rhs 0 (length rhs)
    end.

  (* Generate *)
  Definition generate (g : genv) (m : list nat) (e : shape) : res :=
    match e with
    | SComment => ok m
    | SSym _ => ok m
    | SPair h t =>
        if is_list e then
          match is_assignment_list e 0 with
          | Some (S p) =>
              let legal :=
                match get_lhs m h with
                | LErr => inl false
                | LCrash c => inr c
                | LSym s => inl (negb (s_dot s))
                end in
              match legal with
              | inr c => RCrash c
              | inl true => gen_assignment g m e (S p)
              | inl false => gen_call g m h t
              end
          | _ => gen_call g m h t
          end
        else ok m
    | SArr l => gen_all g m l                                (* GenerateArray *)
    | _ => ok m
    end.

  Definition step (md : mode) (g : genv) (m : list nat) (e : shape) : res :=
    match md with
    | MGen => generate g m e
    | MSQ => sq_one g m e
    | MInc => inc_item g m e
    end.
End Gen.

Fixpoint run (omacro : sym -> list shape -> oexp) (oinfix : list shape -> oexps) (ofile : oexps)
         (fuel : nat) (md : mode) (g : genv) (m : list nat) (e : shape) : res :=
  match fuel with
  | 0 => RFuel
  | S f => step omacro oinfix ofile (run omacro oinfix ofile f) md g m e
  end.

(* environment.go LoadExpressions after the filters: GenerateBegin on the top-level expressions *)
Definition g0 : genv := mkGenv None [].

Definition load (omacro : sym -> list shape -> oexp) (oinfix : list shape -> oexps) (ofile : oexps)
           (fuel : nat) (xs : list shape) : res :=
  gen_begin (run omacro oinfix ofile fuel) g0 [] xs.

(* oracles of the correspondence run: nothing outside the model is guessed *)
Definition defer_macro (_ : sym) (_ : list shape) : oexp := ODefer.
Definition defer_infix (_ : list shape) : oexps := OsDefer.

Definition load_deferred (fuel : nat) (xs : list shape) : res :=
  load defer_macro defer_infix OsDefer fuel xs.

(* size of a shape: enough fuel for any input when the oracles defer *)
Fixpoint size (e : shape) : nat :=
  match e with
  | SPair h t => S (size h + size t)
  | SArr l => S (fold_right (fun x n => size x + n) 0 l)
  | _ => 1
  end.
