(* C10 model: records <-> Go structs.  Executable Gallina only.
   Mirrors zygo/jsonmsgp.go:SexpToGoStructs (to_go / conv), zygo/hashutils.go:fillJsonMap (jsonmap),
   zygo/hashutils.go:FillHashFromShadow + fillHashHelper and the result conversion of
   zygo/callgo.go:CallGoMethodFunction (from_val / from_ptr / echo).
   Reflection itself (reflect.Set assignability, Field(i), unsafe access) is MODELLED by the
   case tables below, not verified.  Every Go panic on these paths is recovered by a caller
   (CallUserFunction, CallGoMethodFunction) and reaches the script as an error: outcome Err. *)
From Coq Require Import ZArith List Bool.
Import ListNotations.
Open Scope Z_scope.

Definition str := list Z.   (* bytes *)

Fixpoint str_eqb (a b : str) : bool :=
  match a, b with
  | [], [] => true
  | x :: a', y :: b' => (x =? y) && str_eqb a' b'
  | _, _ => false
  end.

(* jsonmsgp.go: upperKey := strings.ToUpper(recordKey[:1]) + recordKey[1:]  (ASCII keys; an empty key panics) *)
Definition upper_first (s : str) : option str :=
  match s with
  | [] => None
  | c :: r => Some ((if (97 <=? c) && (c <=? 122) then c - 32 else c) :: r)
  end.

Inductive gotype :=
| TInt | TGoInt | TFloat | TString | TBool | TBytes | TTime   (* TInt = int64, TGoInt = int *)
| TSlice (t : gotype)
| TPtr (s : str)          (* *S *)
| TStruct (s : str)       (* S by value (embedded or plain struct-typed field) *)
| TIface (i : str)        (* interface with methods; holds pointers to registered structs *)
| TMap (t : gotype)       (* map[string]T *)
| TUnsupported.

Fixpoint gotype_eqb (a b : gotype) : bool :=
  match a, b with
  | TInt, TInt | TGoInt, TGoInt | TFloat, TFloat | TString, TString | TBool, TBool | TBytes, TBytes | TTime, TTime => true
  | TSlice x, TSlice y => gotype_eqb x y
  | TPtr x, TPtr y => str_eqb x y
  | TStruct x, TStruct y => str_eqb x y
  | TIface x, TIface y => str_eqb x y
  | TMap x, TMap y => gotype_eqb x y
  | TUnsupported, TUnsupported => true
  | _, _ => false
  end.

Record field := mkField { f_name : str; f_tag : option str; f_emb : bool; f_type : gotype }.
Record sdecl := mkS { s_name : str; s_reg : option str; s_fields : list field }.
Record tenv := mkT { t_structs : list sdecl; t_ifaces : list (str * list str) }.

Definition find_struct (te : tenv) (s : str) : option sdecl :=
  find (fun d => str_eqb (s_name d) s) (t_structs te).

(* GoStructRegistry.Registry[tn]: both the registered name and the Go type name are keys *)
Definition find_reg (te : tenv) (tn : str) : option sdecl :=
  find (fun d => match s_reg d with
                 | Some r => str_eqb r tn || str_eqb (s_name d) tn
                 | None => false end) (t_structs te).

Definition implements (te : tenv) (s i : str) : bool :=
  match find (fun p => str_eqb (fst p) i) (t_ifaces te) with
  | Some p => existsb (str_eqb s) (snd p)
  | None => false
  end.

(* hashutils.go:fillJsonMap — key = json tag if present, else the Go field name *)
Definition key_of (f : field) : str := match f_tag f with Some t => t | None => f_name f end.

(* values of the script side *)
Inductive sx :=
| SInt (z : Z) | SFloat (bits : Z) | SStr (s : str) | SSym (s : str) | SBool (b : bool)
| SRaw (b : str) | STime (n : Z) | SNil | SUint (z : Z) | SChar (z : Z)
| SArr (l : list sx)
| SRec (id : Z) (tn : str) (fs : list (str * sx))     (* record of a registered type; id = object identity *)
| SHash (id : Z) (fs : list (str * sx)).              (* plain hash, TypeName "hash" *)

(* Go values; struct objects reached through pointers live in the heap *)
Inductive goval :=
| GInt (z : Z) | GFloat (bits : Z) | GStr (s : str) | GBool (b : bool) | GBytes (b : str)
| GTime (n : option Z)
| GSlice (l : list goval)
| GPtr (p : option nat)
| GStruct (s : str) (fs : list goval)
| GIface (p : option (str * nat))
| GMap (l : list (str * goval))
| GUnsupported.

Record state := mkSt { heap : list goval; cache : list (Z * (gotype * goval)) }.
Definition empty_state := mkSt [] [].

(* Err: an error reported to the caller (returned error, or a panic recovered by CallUserFunction /
   CallGoMethodFunction).  Crash c: the same class of outcome, at a site where the conversion cannot
   handle a legitimate Go value (1: nil struct pointer, 2: nil interface, 3: field index out of range). *)
Inductive res (A : Type) :=
| Ok (a : A) | Err | Crash (c : Z) | OutOfFuel | OutOfModel.
Arguments Ok {A} a. Arguments Err {A}. Arguments Crash {A} c. Arguments OutOfFuel {A}. Arguments OutOfModel {A}.

Definition bind {A B} (r : res A) (f : A -> res B) : res B :=
  match r with Ok a => f a | Err => Err | Crash c => Crash c | OutOfFuel => OutOfFuel | OutOfModel => OutOfModel end.
Notation "'do' x <- r ; k" := (bind r (fun x => k)) (at level 200, x pattern, r at level 100, k at level 200).

Definition of_opt {A} (o : option A) : res A := match o with Some a => Ok a | None => Err end.
Definition of_opt_crash {A} (c : Z) (o : option A) : res A := match o with Some a => Ok a | None => Crash c end.

Fixpoint map_opt {A B} (f : A -> option B) (l : list A) : option (list B) :=
  match l with
  | [] => Some []
  | a :: r => match f a, map_opt f r with Some b, Some bs => Some (b :: bs) | _, _ => None end
  end.

(* the zero value a factory (&T{}) / reflect.New / reflect.Zero produces *)
Fixpoint zero_of (fuel : nat) (te : tenv) (ty : gotype) : option goval :=
  match ty with
  | TInt | TGoInt => Some (GInt 0) | TFloat => Some (GFloat 0) | TString => Some (GStr []) | TBool => Some (GBool false)
  | TBytes => Some (GBytes []) | TTime => Some (GTime None) | TSlice _ => Some (GSlice [])
  | TPtr _ => Some (GPtr None) | TIface _ => Some (GIface None) | TMap _ => Some (GMap [])
  | TUnsupported => Some GUnsupported
  | TStruct s =>
    match fuel with
    | O => None
    | S f => match find_struct te s with
             | None => None
             | Some d => option_map (GStruct s) (map_opt (fun fld => zero_of f te (f_type fld)) (s_fields d))
             end
    end
  end.

(* hashutils.go:fillJsonMap — depth-first table (key, EmbedPath as field indices); DetOrder has the same order *)
Fixpoint jsonmap_fields (rec_ : str -> list nat -> list (str * list nat)) (prefix : list nat) (i : nat) (fl : list field)
  : list (str * list nat) :=
  match fl with
  | [] => []
  | fld :: r =>
    let p := prefix ++ [i] in
    ((key_of fld, p) ::
       (if f_emb fld then match f_type fld with TStruct s' => rec_ s' p | _ => [] end else []))
      ++ jsonmap_fields rec_ prefix (S i) r
  end.

Fixpoint jsonmap (fuel : nat) (te : tenv) (s : str) (prefix : list nat) : list (str * list nat) :=
  match fuel with
  | O => []
  | S f => match find_struct te s with
           | None => []
           | Some d => jsonmap_fields (jsonmap f te) prefix O (s_fields d)
           end
  end.

(* json2ptr[key] = det : a later entry with the same key overwrites an earlier one *)
Definition lookup_last {A} (k : str) (m : list (str * A)) : option A :=
  match find (fun p => str_eqb (fst p) k) (rev m) with Some p => Some (snd p) | None => None end.

(* SexpToGoStructs: det, found := src.JsonTagMap[recordKey]; if !found retry with the first letter upper-cased *)
Definition resolve (fuel : nat) (te : tenv) (s : str) (key : str) : option (list nat) :=
  let m := jsonmap fuel te s [] in
  match lookup_last key m with
  | Some p => Some p
  | None => match upper_first key with
            | Some k' => lookup_last k' m
            | None => None
            end
  end.

(* The key of a record entry need not be a symbol or a string: anything hashable (int, char, array, list) can be
   put into a record with hset.  Such keys are encoded as byte lists starting with 0 (no Go field name or json tag
   does: wf_tenv).  SexpToGoStructs: switch k := pair.Head.(type) { case *SexpStr, *SexpSymbol: .. default: panic
   "unknown fields disallowed" } — the entry names no field. *)
Definition nonname_key (k : str) : bool := match k with 0 :: _ => true | _ => false end.

Definition resolve_key (fuel : nat) (te : tenv) (s : str) (key : str) : option (list nat) :=
  if nonname_key key then None else resolve fuel te s key.

(* fld = fld.Field(p.ChildFieldNum) along the EmbedPath, on the ACTUAL target value *)
Fixpoint type_at (te : tenv) (ty : gotype) (path : list nat) : option gotype :=
  match path with
  | [] => Some ty
  | i :: r => match ty with
              | TStruct s => match find_struct te s with
                             | Some d => match nth_error (s_fields d) i with
                                         | Some fld => type_at te (f_type fld) r
                                         | None => None end
                             | None => None end
              | _ => None
              end
  end.

Fixpoint get_path (v : goval) (path : list nat) : option goval :=
  match path with
  | [] => Some v
  | i :: r => match v with
              | GStruct _ fs => match nth_error fs i with Some x => get_path x r | None => None end
              | _ => None
              end
  end.

Fixpoint set_nth {A} (l : list A) (i : nat) (x : A) : option (list A) :=
  match l, i with
  | [], _ => None
  | _ :: r, O => Some (x :: r)
  | a :: r, S j => option_map (cons a) (set_nth r j x)
  end.

Fixpoint set_path (v : goval) (path : list nat) (nv : goval) : option goval :=
  match path with
  | [] => Some nv
  | i :: r => match v with
              | GStruct s fs => match nth_error fs i with
                                | Some x => match set_path x r nv with
                                            | Some x' => option_map (GStruct s) (set_nth fs i x')
                                            | None => None end
                                | None => None end
              | _ => None
              end
  end.

Definition cache_find (id : Z) (st : state) : option (gotype * goval) :=
  match find (fun p => fst p =? id) (cache st) with Some p => Some (snd p) | None => None end.
Definition cache_add (id : Z) (ty : gotype) (v : goval) (st : state) : state :=
  mkSt (heap st) ((id, (ty, v)) :: cache st).
Definition alloc (v : goval) (st : state) : nat * state :=
  (length (heap st), mkSt (heap st ++ [v]) (cache st)).

(* dedup cache hit: targVa.Elem().Set(reflect.ValueOf(alreadyGoStruct).Elem()) — reflect.Set assignability *)
Definition assign (te : tenv) (ty cty : gotype) (cv : goval) : res goval :=
  if gotype_eqb ty cty then Ok cv
  else match ty, cty, cv with
       | TIface i, TPtr s, GPtr (Some loc) => if implements te s i then Ok (GIface (Some (s, loc))) else Err
       | TIface _, TIface _, _ => OutOfModel
       | TUnsupported, _, _ => OutOfModel
       | _, _, _ => Err
       end.

(* float64(int64): bits of the nearest double (round to nearest even), exact when |z| <= 2^53 *)
Definition float_bits_of_int (z : Z) : option Z :=
  if z =? 0 then Some 0
  else let a := Z.abs z in
       let e := Z.log2 a in
       let sgn := if z <? 0 then 9223372036854775808 else 0 in
       if e <=? 52 then
         Some (sgn + (e + 1023) * 4503599627370496 + (a * 2 ^ (52 - e) - 4503599627370496))
       else
         let sh := e - 52 in
         let q := a / 2 ^ sh in
         let r := a mod 2 ^ sh in
         let half := 2 ^ (sh - 1) in
         let q' := if (half <? r) || ((r =? half) && Z.odd q) then q + 1 else q in
         (* q' = 2^53 encodes correctly as exponent + 1, mantissa 0 by the carry of the addition *)
         Some (sgn + (e + 1023) * 4503599627370496 + (q' - 4503599627370496)).

Definition exactly_representable (z : Z) : bool := Z.abs z <=? 9007199254740992.

(* int64(float64): truncation toward zero; NaN, infinities and |x| >= 2^63 give the amd64 result
   0x8000000000000000 (CVTTSD2SQ "integer indefinite"; platform behaviour, trusted) *)
Definition trunc_float_bits (b : Z) : Z :=
  let sign := b / 9223372036854775808 in
  let e := (b / 4503599627370496) mod 2048 in
  let m := b mod 4503599627370496 in
  if e =? 2047 then -9223372036854775808
  else if e =? 0 then 0
  else let mant := m + 4503599627370496 in
       let sh := e - 1075 in
       let a := if 0 <=? sh then mant * 2 ^ sh else mant / 2 ^ (- sh) in
       if 9223372036854775808 <=? a then -9223372036854775808
       else if sign =? 1 then - a else a.

Definition is_struct_like (ty : gotype) : bool :=
  match ty with TIface _ | TStruct _ | TPtr _ => true | _ => false end.

(* fold over the elements of an array / the pairs of a hash, threading the state *)
Fixpoint conv_list {A B} (f : A -> state -> res (B * state)) (l : list A) (st : state) : res (list B * state) :=
  match l with
  | [] => Ok ([], st)
  | a :: r => do (b, st1) <- f a st; do (bs, st2) <- conv_list f r st1; Ok (b :: bs, st2)
  end.

(* does the path walk into a time.Time (a struct with unexported fields wall, ext, loc that reflection can
   reach)?  Only possible when the paths of another struct type are applied (top-level type not checked). *)
Fixpoint enters_time (te : tenv) (ty : gotype) (path : list nat) : bool :=
  match path with
  | [] => false
  | i :: r => match ty with
              | TTime => true
              | TStruct s => match find_struct te s with
                             | Some d => match nth_error (s_fields d) i with
                                         | Some fld => enters_time te (f_type fld) r
                                         | None => false end
                             | None => false end
              | _ => false
              end
  end.

Definition slot_type (te : tenv) (bty : str) (path : list nat) : res gotype :=
  match type_at te (TStruct bty) path with
  | Some t => Ok t
  | None => if enters_time te (TStruct bty) path then OutOfModel else Err
  end.

(* one iteration of the loop over the pairs of a record: resolve the key (res_), walk the EmbedPath on the
   target value of struct type bty, convert the value into that slot (cv), store it *)
Definition fill_step (res_ : str -> option (list nat)) (te : tenv) (bty : str)
           (cv : gotype -> goval -> sx -> state -> res (goval * state))
           (acc : res (goval * state)) (kv : str * sx) : res (goval * state) :=
  do (b, st1) <- acc;
  do path <- of_opt (res_ (fst kv));
  do sty <- slot_type te bty path;
  do curv <- of_opt (get_path b path);
  do (nv, st2) <- cv sty curv (snd kv) st1;
  do b' <- of_opt (set_path b path nv);
  Ok (b', st2).

(* SexpToGoStructs(sexp, target, env, dedup, calldepth, top): ty / cur = static type and current
   content of the slot target points to; top = (calldepth == 0). Returns the new content of the slot. *)
Fixpoint conv (fuel : nat) (te : tenv) (top : bool) (ty : gotype) (cur : goval) (s : sx) (st : state)
  : res (goval * state) :=
  match fuel with
  | O => OutOfFuel
  | S f =>
    match ty with
    | TUnsupported => OutOfModel
    | _ =>
    match s with
    | SRaw b => match ty with TBytes => Ok (GBytes b, st) | _ => Err end
    | SArr l =>
      match ty with
      | TSlice et =>
        match zero_of f te et with
        | None => OutOfModel
        | Some z => do (vs, st1) <- conv_list (fun e st0 => conv f te false et z e st0) l st; Ok (GSlice vs, st1)
        end
      | TBytes =>
        match l with
        | [] => Ok (GBytes [], st)
        | _ => if forallb (fun e => match e with SNil | SUint _ => true | _ => false end) l then OutOfModel else Err
        end
      | _ => Err
      end
    | SInt z =>
      match ty with
      | TInt | TGoInt => Ok (GInt z, st)
      | TFloat => match float_bits_of_int z with Some b => Ok (GFloat b, st) | None => OutOfModel end
      | _ => Err
      end
    | SFloat b =>
      match ty with
      | TFloat => Ok (GFloat b, st)
      | TInt => Ok (GInt (trunc_float_bits b), st)      (* case int64: SetInt(int64(src.Val)) *)
      | _ => Err                                        (* default: SetFloat panics on any other kind, Go int included *)
      end
    | SStr x | SSym x => match ty with TString => Ok (GStr x, st) | _ => Err end
    | SChar _ => Err
    | SBool b => match ty with TBool => Ok (GBool b, st) | _ => Err end
    | STime n => match ty with TTime => Ok (GTime (Some n), st) | _ => Err end
    | SNil => match zero_of f te ty with Some z => Ok (z, st) | None => OutOfModel end
    | SUint _ => Ok (cur, st)     (* default: branch: prints "unknown type", returns target, nil *)
    | SHash id fs =>
      match cache_find id st with
      | Some (cty, cv) => do v <- assign te ty cty cv; Ok (v, st)
      | None =>
        do (v, st1) <-
          match ty with
          | TMap TString =>
            do (kvs, st1) <- conv_list (fun kv st0 => match snd kv with
                                                        | SStr x | SSym x => Ok ((fst kv, GStr x), st0)
                                                        | _ => Err end) fs st;
            Ok (GMap kvs, st1)
          | TMap TFloat =>
            do (kvs, st1) <- conv_list (fun kv st0 => match snd kv with
                                                        | SFloat b => Ok ((fst kv, GFloat b), st0)
                                                        | SInt z => match float_bits_of_int z with
                                                                    | Some b => Ok ((fst kv, GFloat b), st0)
                                                                    | None => OutOfModel end
                                                        | _ => Err end) fs st;
            Ok (GMap kvs, st1)
          | TMap (TIface i) =>
            do (kvs, st1) <- conv_list (fun kv st0 => do (v, st2) <- conv f te false (TIface i) (GIface None) (snd kv) st0;
                                                      Ok ((fst kv, v), st2)) fs st;
            Ok (GMap kvs, st1)
          | _ => Err                          (* panic "not done here yet" *)
          end;
        Ok (v, cache_add id ty v st1)
      end
    | SRec id tn fs =>
      match cache_find id st with
      | Some (cty, cv) => do v <- assign te ty cty cv; Ok (v, st)
      | None =>
        if negb (is_struct_like ty) then (match ty with TString => OutOfModel | _ => Err end)
        else
        match find_reg te tn with
        | None => Err                         (* type not registered *)
        | Some d =>
          let sn := s_name d in
          (* fill: for every pair of the record, resolve the key in the RECORD type's JsonTagMap,
             walk the EmbedPath on the target value, recurse *)
          let fill (bty : str) (base : goval) (st0 : state) : res (goval * state) :=
              fold_left (fill_step (resolve_key f te sn) te bty (conv f te false)) fs (Ok (base, st0)) in
          match ty with
          | TStruct tname =>
            if top || str_eqb tname sn then         (* calldepth==0: checkPtrStruct = top, no check at all *)
              do (b, st1) <- fill tname cur st;
              Ok (b, if top then st1 else cache_add id ty b st1)
            else Err                                  (* "type checking failed" *)
          | TPtr tname =>
            if str_eqb tname sn then
              match zero_of f te (TStruct sn) with
              | None => OutOfModel
              | Some z => do (b, st1) <- fill sn z st;
                          let (loc, st2) := alloc b st1 in
                          Ok (GPtr (Some loc), cache_add id ty (GPtr (Some loc)) st2)
              end
            else Err
          | TIface i =>
            if implements te sn i then
              match zero_of f te (TStruct sn) with
              | None => OutOfModel
              | Some z => do (b, st1) <- fill sn z st;
                          let (loc, st2) := alloc b st1 in
                          Ok (GIface (Some (sn, loc)), cache_add id ty (GIface (Some (sn, loc))) st2)
              end
            else Err
          | _ => Err
          end
        end
      end
    end
    end
  end.

(* toGoHelper / CallGoMethodFunction argument: a fresh *T, SexpToGoStructs(r, t, env, nil, 0, t) *)
Definition to_go (fuel : nat) (te : tenv) (tname : str) (r : sx) : res (goval * state) :=
  match zero_of fuel te (TStruct tname) with
  | None => OutOfModel
  | Some z =>
    do (b, st1) <- conv fuel te true (TStruct tname) z r empty_state;
    let (loc, st2) := alloc b st1 in
    Ok (GPtr (Some loc), st2)
  end.

(* ---- Go -> record: hashutils.go FillHashFromShadow / fillHashHelper --------------------- *)

(* h.HashSet(key, val): an existing key keeps its position *)
Fixpoint hash_set (k : str) (v : sx) (fs : list (str * sx)) : list (str * sx) :=
  match fs with
  | [] => [(k, v)]
  | (k', v') :: r => if str_eqb k' k then (k, v) :: r else (k', v') :: hash_set k v r
  end.

Fixpoint last_nat (l : list nat) : option nat :=
  match l with [] => None | [x] => Some x | _ :: r => last_nat r end.

Fixpoint from_val (fuel : nat) (te : tenv) (h : list goval) (ty : gotype) (v : goval) : res sx :=
  match fuel with
  | O => OutOfFuel
  | S f =>
    let from_ptr (sn : str) (loc : nat) : res sx :=
        match find_struct te sn, nth_error h loc with
        | Some d, Some (GStruct _ vals) =>
          match s_reg d with
          | None => Ok SNil     (* no registry entry has this type: falls to the type switch default *)
          | Some reg =>
            (* FillHashFromShadow: for det in DetOrder: goField := vaSrc.Field(det.FieldNum) — the index of
               the field INSIDE ITS OWN struct applied to the top struct (EmbedPath is not followed) *)
            do fs <- fold_left (fun (acc : res (list (str * sx))) (kp : str * list nat) =>
                                  do fs0 <- acc;
                                  do i <- of_opt (last_nat (snd kp));
                                  do fv <- of_opt_crash 3 (nth_error vals i);
                                  do fld <- of_opt_crash 3 (nth_error (s_fields d) i);
                                  do x <- from_val f te h (f_type fld) fv;
                                  Ok (hash_set (fst kp) x fs0))
                               (jsonmap f te sn []) (Ok []);
            Ok (SRec 0 reg fs)
          end
        | _, _ => OutOfModel
        end in
    match v with
    | GInt z => Ok (SInt z)
    | GFloat b => Ok (SFloat b)
    | GStr x => Ok (SStr x)
    | GBool b => Ok (SBool b)
    | GBytes b => Ok (SRaw b)
    | GTime _ | GSlice _ | GMap _ | GStruct _ _ => Ok SNil      (* no case in the type switch: SexpNull *)
    | GPtr None =>
      match ty with
      | TPtr sn => match find_struct te sn with
                   | Some d => match s_reg d with
                               | Some _ => Crash 1   (* registry match, FillHashFromShadow on a nil pointer: panic *)
                               | None => Ok SNil end
                   | None => OutOfModel end
      | _ => OutOfModel
      end
    | GPtr (Some loc) => match ty with TPtr sn => from_ptr sn loc | _ => OutOfModel end
    | GIface None => Crash 2             (* reflect.ValueOf(nil).Type() panics in the registry scan *)
    | GIface (Some (sn, loc)) => from_ptr sn loc
    | GUnsupported => OutOfModel
    end
  end.

(* (_method obj EchoT: r) with func (o *Obj) EchoT(x *T) *T { return x } *)
Definition echo (fuel : nat) (te : tenv) (tname : str) (r : sx) : res sx :=
  do (v, st) <- to_go fuel te tname r;
  from_val fuel te (heap st) (TPtr tname) v.

(* ---- histories on one record: convert, change it with hset, convert again ------------------
   jsonmsgp.go:toGoHelper — a record that already has a shadow struct attached (from an earlier (togo r),
   or because it was converted as a pointer / interface field of a parent: src.GoShadowStruct = checkPtrStruct)
   is converted again INTO that same object (newStruct = asHash.GoShadowStruct), with a fresh dedup cache.
   callgo.go converts a method argument into a fresh object and does not attach it to the top record.
   shadows: record identity -> heap location of the attached object. *)
Definition shadows := list (Z * nat).

Definition shadow_find (id : Z) (sh : shadows) : option nat :=
  match find (fun p => fst p =? id) sh with Some p => Some (snd p) | None => None end.

(* src.ShadowSet for every record converted into a pointer or interface slot during the call = the cache *)
Definition nested_shadows (c : list (Z * (gotype * goval))) : shadows :=
  flat_map (fun e => match snd (snd e) with
                     | GPtr (Some l) => [(fst e, l)]
                     | GIface (Some (_, l)) => [(fst e, l)]
                     | _ => [] end) c.

Definition hist_convert (fuel : nat) (te : tenv) (attach : bool) (tname : str) (id : Z) (r : sx)
           (h : list goval) (sh : shadows) : res (goval * (list goval * shadows)) :=
  let old := if attach then match shadow_find id sh with
                             | Some loc => match nth_error h loc with Some v => Some (loc, v) | None => None end
                             | None => None end
             else None in
  match (match old with Some (_, v) => Some v | None => zero_of fuel te (TStruct tname) end) with
  | None => OutOfModel
  | Some cur =>
    do (b, st1) <- conv fuel te true (TStruct tname) cur r (mkSt h []);
    let nsh := nested_shadows (cache st1) in
    match old with
    | Some (loc, _) =>
      match set_nth (heap st1) loc b with
      | Some h' => Ok (GPtr (Some loc), (h', (id, loc) :: nsh ++ sh))
      | None => OutOfModel
      end
    | None =>
      let (loc, st2) := alloc b st1 in
      Ok (GPtr (Some loc), (heap st2, (if attach then [(id, loc)] else []) ++ nsh ++ sh))
    end
  end.

(* callgo.go:CallGoMethodFunction, the RECEIVER of (_method obj M: ..): converted by (togo obj) only when no
   shadow struct is attached yet (GoShadowStructVa invalid and !ShadowSet); otherwise the attached object is
   used as it is.  A failed conversion attaches nothing (toGoHelper sets the shadow after success). *)
Definition hist_receiver (fuel : nat) (te : tenv) (tname : str) (id : Z) (r : sx)
           (h : list goval) (sh : shadows) : res (goval * (list goval * shadows)) :=
  match shadow_find id sh with
  | Some loc => Ok (GPtr (Some loc), (h, sh))
  | None => hist_convert fuel te true tname id r h sh
  end.

(* a Go method called on record id that returns a pointer its Go object owns: the receiver itself (path []) or the
   struct pointer stored in one of its fields (path = field indices); callgo.go turns the result into a NEW record
   (registry scan, MakeHash, FillHashFromShadow).  The new record is a value of its own: FillHashFromShadow sets
   GoShadowStruct/ShadowSet but leaves GoShadowStructVa invalid, so a later (togo) of it builds a fresh struct. *)
Definition hist_return (fuel : nat) (te : tenv) (tname : str) (id : Z) (r : sx) (path : list nat)
           (h : list goval) (sh : shadows) : res (sx * (list goval * shadows)) :=
  do (v, hs) <- hist_receiver fuel te tname id r h sh;
  match v with
  | GPtr (Some loc) =>
    match path with
    | [] => do x <- from_val fuel te (fst hs) (TPtr tname) v; Ok (x, hs)
    | _ => match nth_error (fst hs) loc with
           | Some obj => match get_path obj path, type_at te (TStruct tname) path with
                         | Some pv, Some pty => do x <- from_val fuel te (fst hs) pty pv; Ok (x, hs)
                         | _, _ => OutOfModel
                         end
           | None => OutOfModel
           end
    end
  | _ => OutOfModel
  end.
