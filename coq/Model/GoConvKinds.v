(* C10: the (value kind x slot kind) table of jsonmsgp.go:SexpToGoStructs — one verdict for each of the
   13 x 13 pairs.  Executable Gallina only (extracted; the runner prints the verdict next to every conversion of a
   bare value into a bare slot).  Proofs/GoConvKinds.v proves that conv follows the table for ALL values, types,
   slot contents and states, and relates the table to the specification. *)
From Coq Require Import ZArith List Bool.
Import ListNotations.
Require Import ZV.Model.GoConv.
Open Scope Z_scope.

Inductive skind := KInt | KFloat | KStr | KSym | KBool | KRaw | KTime | KNil | KUint | KChar | KArr | KRec | KHash.
Inductive tkind := QInt | QGoInt | QFloat | QString | QBool | QBytes | QTime | QSlice | QPtr | QStruct | QIface | QMap | QUnsup.

Definition skind_of (s : sx) : skind :=
  match s with
  | SInt _ => KInt | SFloat _ => KFloat | SStr _ => KStr | SSym _ => KSym | SBool _ => KBool | SRaw _ => KRaw
  | STime _ => KTime | SNil => KNil | SUint _ => KUint | SChar _ => KChar | SArr _ => KArr | SRec _ _ _ => KRec
  | SHash _ _ => KHash
  end.

Definition tkind_of (t : gotype) : tkind :=
  match t with
  | TInt => QInt | TGoInt => QGoInt | TFloat => QFloat | TString => QString | TBool => QBool | TBytes => QBytes
  | TTime => QTime | TSlice _ => QSlice | TPtr _ => QPtr | TStruct _ => QStruct | TIface _ => QIface | TMap _ => QMap
  | TUnsupported => QUnsup
  end.

(* VAccept: succeeds, the slot receives a value determined by the value and the slot type alone, state unchanged
   VReject: an error reaches the script
   VKeeps:  succeeds WITHOUT touching the slot (the value is dropped: SexpToGoStructs' default branch)
   VZero:   succeeds, the slot receives its zero value (nil given)
   VDepends: decided by the contents (elements, fields, registered type) — the other theorems
   VSilent: outside the model *)
Inductive verdict := VAccept | VReject | VKeeps | VZero | VDepends | VSilent.

Definition kind_table (k : skind) (q : tkind) : verdict :=
  match q with
  | QUnsup => VSilent
  | _ =>
    match k, q with
    | KUint, _ => VKeeps
    | KNil, QStruct => VDepends          (* zero struct: needs the declaration *)
    | KNil, _ => VZero
    | KChar, _ => VReject
    | KInt, (QInt | QGoInt | QFloat) => VAccept
    | KFloat, (QFloat | QInt) => VAccept                 (* QInt: truncated, see the table of holes *)
    | (KStr | KSym), QString => VAccept
    | KBool, QBool => VAccept
    | KRaw, QBytes => VAccept
    | KTime, QTime => VAccept
    | KArr, (QSlice | QBytes) => VDepends
    | KHash, QMap => VDepends
    | KRec, (QPtr | QStruct | QIface) => VDepends
    | KRec, QString => VSilent
    | _, _ => VReject
    end
  end.

(* the pairs where the table says "succeeds" although the value does not fit the slot: the listed findings
   togo-uint-dropped and togo-float-truncated *)
Definition table_hole (k : skind) (q : tkind) : bool :=
  match k, q with
  | KUint, _ => true
  | KFloat, QInt => true
  | _, _ => false
  end.

Definition all_skinds := [KInt; KFloat; KStr; KSym; KBool; KRaw; KTime; KNil; KUint; KChar; KArr; KRec; KHash].
Definition all_tkinds := [QInt; QGoInt; QFloat; QString; QBool; QBytes; QTime; QSlice; QPtr; QStruct; QIface; QMap; QUnsup].
