(* C10 specification (independent of the model of the code): what the property text demands.
   - designates: which struct field a record key names (json tag, else Go field name, else the
     same with the first letter capitalised; searched through embedded structs) — a direct
     recursive search, not the flattened overwrite-map of the code.
   - denote: TYPE-DIRECTED ("pull") denotation of a record as a Go value: every field of the
     struct is looked up in the record; pointers carry the identity of the record they came from
     (one object per record identity); a key that names no field, or a value whose kind does not
     fit the field, is an error (never dropped).
   - spec_echo: the record a lossless Go -> record conversion returns for that Go value. *)
From Coq Require Import ZArith List Bool.
Import ListNotations.
Require Import ZV.Model.GoConv.
Open Scope Z_scope.

Inductive dval :=
| DInt (z : Z) | DFloat (bits : Z) | DStr (s : str) | DBool (b : bool) | DBytes (b : str) | DTime (n : option Z)
| DSlice (l : list dval)
| DNilPtr | DPtr (id : Z) (v : dval)
| DStruct (s : str) (fs : list dval)
| DNilIface | DIface (v : dval)
| DMap (l : list (str * dval))
| DUnsupported.

(* error causes: 1 unknown field, 2 value of the wrong kind, 3 uint64 value, 4 float64 with a fraction or out of
   range for an int64 field, 5 top-level record of another type, 6 record type unknown *)
Inductive sres (A : Type) := SOk (a : A) | SErr (cause : Z) | SSilent | SFuel.
Arguments SOk {A} a. Arguments SErr {A} cause. Arguments SSilent {A}. Arguments SFuel {A}.

Definition sbind {A B} (r : sres A) (f : A -> sres B) : sres B :=
  match r with SOk a => f a | SErr c => SErr c | SSilent => SSilent | SFuel => SFuel end.
Notation "'sdo' x <- r ; k" := (sbind r (fun x => k)) (at level 200, x pattern, r at level 100, k at level 200).

Fixpoint smap {A B} (f : A -> sres B) (l : list A) : sres (list B) :=
  match l with
  | [] => SOk []
  | a :: r => sdo b <- f a; sdo bs <- smap f r; SOk (b :: bs)
  end.

Fixpoint path_eqb (a b : list nat) : bool :=
  match a, b with
  | [], [] => true
  | x :: a', y :: b' => Nat.eqb x y && path_eqb a' b'
  | _, _ => false
  end.

(* Go's selector rule (and encoding/json's): a field of the struct itself wins over a field promoted from an
   embedded struct; among the embedded structs the first (in declaration order) that has it *)
Fixpoint spec_find_own (k : str) (i : nat) (fl : list field) : option (list nat) :=
  match fl with
  | [] => None
  | fld :: r => if str_eqb (key_of fld) k then Some [i] else spec_find_own k (S i) r
  end.

Fixpoint spec_find_fields (rec_ : str -> option (list nat)) (k : str) (i : nat) (fl : list field) : option (list nat) :=
  match fl with
  | [] => None
  | fld :: r =>
    match (if f_emb fld then match f_type fld with TStruct s' => rec_ s' | _ => None end else None) with
    | Some p => Some (i :: p)
    | None => spec_find_fields rec_ k (S i) r
    end
  end.

Fixpoint spec_find (fuel : nat) (te : tenv) (s : str) (k : str) : option (list nat) :=
  match fuel with
  | O => None
  | S f => match find_struct te s with
           | None => None
           | Some d => match spec_find_own k O (s_fields d) with
                       | Some p => Some p
                       | None => spec_find_fields (fun s' => spec_find f te s' k) k O (s_fields d)
                       end
           end
  end.

Definition designates (fuel : nat) (te : tenv) (s : str) (k : str) : option (list nat) :=
  if nonname_key k then None else     (* a key that is not a symbol or string names no field *)
  match spec_find fuel te s k with
  | Some p => Some p
  | None => match upper_first k with Some k' => spec_find fuel te s k' | None => None end
  end.

Fixpoint dzero (fuel : nat) (te : tenv) (ty : gotype) : sres dval :=
  match ty with
  | TInt | TGoInt => SOk (DInt 0) | TFloat => SOk (DFloat 0) | TString => SOk (DStr []) | TBool => SOk (DBool false)
  | TBytes => SOk (DBytes []) | TTime => SOk (DTime None) | TSlice _ => SOk (DSlice [])
  | TPtr _ => SOk DNilPtr | TIface _ => SOk DNilIface | TMap _ => SOk (DMap [])
  | TUnsupported => SOk DUnsupported
  | TStruct s =>
    match fuel with
    | O => SFuel
    | S f => match find_struct te s with
             | None => SSilent
             | Some d => sdo fs <- smap (fun fld => dzero f te (f_type fld)) (s_fields d); SOk (DStruct s fs)
             end
    end
  end.

(* the integer a float64 denotes exactly, if it is integral and fits int64 *)
Definition exact_int_of_float (b : Z) : option Z :=
  let sign := b / 9223372036854775808 in
  let e := (b / 4503599627370496) mod 2048 in
  let m := b mod 4503599627370496 in
  if e =? 2047 then None
  else if e =? 0 then (if m =? 0 then Some 0 else None)
  else let mant := m + 4503599627370496 in
       let sh := e - 1075 in
       if 0 <=? sh then
         let a := mant * 2 ^ sh in
         if sign =? 1 then (if a <=? 9223372036854775808 then Some (- a) else None)
         else (if a <? 9223372036854775808 then Some a else None)
       else if (mant mod 2 ^ (- sh)) =? 0 then Some (if sign =? 1 then - (mant / 2 ^ (- sh)) else mant / 2 ^ (- sh))
       else None.

Fixpoint mapi_aux {A B} (f : nat -> A -> B) (i : nat) (l : list A) : list B :=
  match l with [] => [] | a :: r => f i a :: mapi_aux f (S i) r end.

(* has any pair of equal paths / a path that is a proper prefix of another *)
Fixpoint is_prefix (a b : list nat) : bool :=
  match a, b with
  | [], _ => true
  | x :: a', y :: b' => Nat.eqb x y && is_prefix a' b'
  | _, [] => false
  end.
Fixpoint paths_independent (l : list (list nat)) : bool :=
  match l with
  | [] => true
  | p :: r => forallb (fun q => negb (is_prefix p q) && negb (is_prefix q p)) r && paths_independent r
  end.

Fixpoint denote (fuel : nat) (te : tenv) (ty : gotype) (s : sx) : sres dval :=
  match fuel with
  | O => SFuel
  | S f =>
    (* the struct value of type sn that record fields fs (of a record of type sn) denote *)
    (* the entries of a record of struct type sn as assignments (path, value); an entry that gives a struct-valued
       field (an embedded struct under its own key, or a plain struct field) a record of that struct's type is
       replaced by that record's own entries below the field: (snoopy id:3 plane:(plane speed:5)) assigns
       Plane.ID and Plane.Speed *)
    let expand :=
        (fix expand (g : nat) (sn : str) (base : list nat) (fs : list (str * sx)) {struct g}
           : sres (list (list nat * sx)) :=
           match g with
           | O => SFuel
           | S g' =>
             sdo parts <- smap (fun kv : str * sx =>
                 match designates f te sn (fst kv) with
                 | None => SErr 1
                 | Some q =>
                   match type_at te (TStruct sn) q, snd kv with
                   | Some (TStruct s'), SRec _ tn' fs' =>
                     match find_reg te tn' with
                     | Some d' => if str_eqb (s_name d') s' then expand g' s' (base ++ q) fs'
                                  else SOk [(base ++ q, snd kv)]
                     | None => SOk [(base ++ q, snd kv)]
                     end
                   | _, _ => SOk [(base ++ q, snd kv)]
                   end
                 end) fs;
             SOk (concat parts)
           end) in
    (* the struct value of type sn that record fields fs (of a record of type sn) denote *)
    let drecord (sn : str) (fs : list (str * sx)) : sres dval :=
        sdo leaves <- expand f sn [] fs;
        if negb (paths_independent (map fst leaves)) then SSilent    (* one field addressed twice: order dependent *)
        else
          (fix dstruct (g : nat) (cur : str) (prefix : list nat) {struct g} : sres dval :=
             match g with
             | O => SFuel
             | S g' =>
               match find_struct te cur with
               | None => SSilent
               | Some d =>
                 sdo vals <- smap (fun x => x)
                   (mapi_aux (fun i fld =>
                      let p := prefix ++ [i] in
                      match find (fun pv => path_eqb (fst pv) p) leaves with
                      | Some pv => denote f te (f_type fld) (snd pv)
                      | None => match f_type fld with
                                | TStruct s' => dstruct g' s' p
                                | t => dzero f te t end
                      end) O (s_fields d));
                 SOk (DStruct cur vals)
               end
             end) f sn [] in
    match ty, s with
    | TUnsupported, _ => SSilent
    | _, SUint _ => SErr 3
    | _, SChar _ => SErr 2
    | _, SNil => dzero f te ty
    | TInt, SInt z | TGoInt, SInt z => SOk (DInt z)
    (* a float64 for an integer field: silent when it is integral (accepting it exactly or refusing it both lose
       nothing), an error when it has a fraction or does not fit *)
    | TInt, SFloat b | TGoInt, SFloat b => match exact_int_of_float b with Some _ => SSilent | None => SErr 4 end
    | TFloat, SFloat b => SOk (DFloat b)
    | TFloat, SInt z => if exactly_representable z then
                          match float_bits_of_int z with Some b => SOk (DFloat b) | None => SSilent end
                        else SSilent
    | TString, SStr x | TString, SSym x => SOk (DStr x)
    | TString, SRec _ _ _ => SSilent          (* documented: a record given for a string field is stored as text *)
    | TBool, SBool b => SOk (DBool b)
    | TBytes, SRaw b => SOk (DBytes b)
    | TBytes, SArr [] => SOk (DBytes [])
    | TBytes, SArr l => if forallb (fun e => match e with SNil | SUint _ => true | _ => false end) l then SSilent else SErr 2
    | TTime, STime n => SOk (DTime (Some n))
    | TSlice et, SArr l => sdo vs <- smap (denote f te et) l; SOk (DSlice vs)
    | TPtr sn, SRec id tn fs =>
      match find_reg te tn with
      | None => SErr 6
      | Some d => if str_eqb (s_name d) sn then sdo v <- drecord sn fs; SOk (DPtr id v) else SErr 2
      end
    | TStruct sn, SRec id tn fs =>
      match find_reg te tn with
      | None => SErr 6
      | Some d => if str_eqb (s_name d) sn then drecord sn fs else SErr 2
      end
    | TIface i, SRec id tn fs =>
      match find_reg te tn with
      | None => SErr 6
      | Some d => if implements te (s_name d) i then sdo v <- drecord (s_name d) fs; SOk (DIface (DPtr id v)) else SErr 2
      end
    | TMap TString, SHash _ fs =>
      sdo kvs <- smap (fun kv => match snd kv with
                                 | SStr x | SSym x => SOk (fst kv, DStr x)
                                 | SUint _ => SErr 3
                                 | _ => SErr 2 end) fs; SOk (DMap kvs)
    | TMap TFloat, SHash _ fs =>
      sdo kvs <- smap (fun kv => match snd kv with
                                 | SFloat b => SOk (fst kv, DFloat b)
                                 | SInt z => if exactly_representable z then
                                               match float_bits_of_int z with Some b => SOk (fst kv, DFloat b) | None => SSilent end
                                             else SSilent
                                 | SUint _ => SErr 3
                                 | _ => SErr 2 end) fs; SOk (DMap kvs)
    | TMap (TIface i), SHash _ fs =>
      sdo kvs <- smap (fun kv => sdo v <- denote f te (TIface i) (snd kv); SOk (fst kv, v)) fs; SOk (DMap kvs)
    | _, _ => SErr 2
    end
  end.

(* the Go value (togo r) / a method argument of type *T must be *)
Definition spec_to_go (fuel : nat) (te : tenv) (tname : str) (r : sx) : sres dval :=
  match r with
  | SRec id tn fs =>
    match find_reg te tn with
    | None => SErr 6
    | Some d => if str_eqb (s_name d) tname then denote fuel te (TPtr tname) r else SErr 5
    end
  | _ => SSilent
  end.

(* ---- lossless Go value -> record --------------------------------------------------- *)

Fixpoint dget (v : dval) (path : list nat) : option dval :=
  match path with
  | [] => Some v
  | i :: r => match v with
              | DStruct _ fs => match nth_error fs i with Some x => dget x r | None => None end
              | _ => None
              end
  end.

(* flattened field table: (key, path, embedded?) in declaration order, embedded structs expanded after their own entry *)
Fixpoint spec_dets_fields (rec_ : str -> list nat -> list (str * (list nat * bool))) (prefix : list nat) (i : nat) (fl : list field)
  : list (str * (list nat * bool)) :=
  match fl with
  | [] => []
  | fld :: r =>
    let p := prefix ++ [i] in
    let isemb := f_emb fld && match f_type fld with TStruct _ => true | _ => false end in
    ((key_of fld, (p, isemb)) :: (if isemb then match f_type fld with TStruct s' => rec_ s' p | _ => [] end else []))
      ++ spec_dets_fields rec_ prefix (S i) r
  end.
Fixpoint spec_dets (fuel : nat) (te : tenv) (s : str) (prefix : list nat) : list (str * (list nat * bool)) :=
  match fuel with
  | O => []
  | S f => match find_struct te s with
           | None => []
           | Some d => spec_dets_fields (spec_dets f te) prefix O (s_fields d)
           end
  end.

Fixpoint to_rec (fuel : nat) (te : tenv) (v : dval) : sres sx :=
  match fuel with
  | O => SFuel
  | S f =>
    let struct_rec (sn : str) (sv : dval) : sres sx :=
        match find_struct te sn with
        | None => SSilent
        | Some d =>
          match s_reg d with
          | None => SSilent
          | Some reg =>
            sdo fs <- smap (fun e : str * (list nat * bool) =>
                              if snd (snd e) then SOk (fst e, SNil)      (* the entry of an embedded struct itself *)
                              else match dget sv (fst (snd e)) with
                                   | Some x => sdo y <- to_rec f te x; SOk (fst e, y)
                                   | None => SSilent end) (spec_dets f te sn []);
            SOk (SRec 0 reg fs)
          end
        end in
    match v with
    | DInt z => SOk (SInt z)
    | DFloat b => SOk (SFloat b)
    | DStr x => SOk (SStr x)
    | DBool b => SOk (SBool b)
    | DBytes b => SOk (SRaw b)
    | DTime None => SOk (STime (-1))       (* rendered as the zero time by the runner *)
    | DTime (Some n) => SOk (STime n)
    | DSlice [] => SOk SNil
    | DSlice l => sdo xs <- smap (to_rec f te) l; SOk (SArr xs)
    | DNilPtr | DNilIface => SOk SNil
    | DPtr _ (DStruct sn fs) => struct_rec sn (DStruct sn fs)
    | DPtr _ _ => SSilent
    | DStruct sn fs => struct_rec sn (DStruct sn fs)
    | DIface x => to_rec f te x
    | DMap [] => SOk SNil
    | DMap l => sdo kvs <- smap (fun kv => sdo y <- to_rec f te (snd kv); SOk (fst kv, y)) l; SOk (SHash 0 kvs)
    | DUnsupported => SSilent
    end
  end.

Definition spec_echo (fuel : nat) (te : tenv) (tname : str) (r : sx) : sres sx :=
  sdo v <- spec_to_go fuel te tname r; to_rec fuel te v.

(* ---- well-formedness of a type table (precondition of the theorems; checked by the runner) ---- *)

Fixpoint nodup_str (l : list str) : bool :=
  match l with [] => true | a :: r => negb (existsb (str_eqb a) r) && nodup_str r end.

Definition wf_struct (fuel : nat) (te : tenv) (d : sdecl) : bool :=
  (* the overwrite-map resolution of the code and the selector rule of the specification agree on every key
     (a name clash is fine when the later, winning entry is also the shallower one) *)
  forallb (fun k => match lookup_last k (jsonmap fuel te (s_name d) []), spec_find fuel te (s_name d) k with
                    | Some p, Some q => path_eqb p q
                    | _, _ => false end) (map fst (jsonmap fuel te (s_name d) []))
  && forallb (fun k => negb (nonname_key k)) (map fst (jsonmap fuel te (s_name d) []))
  && forallb (fun fld => negb (f_emb fld) || match f_type fld with TStruct _ => true | _ => false end) (s_fields d)
  && forallb (fun fld => match f_type fld with
                         | TStruct s | TPtr s => match find_struct te s with Some _ => true | None => false end
                         | _ => true end) (s_fields d).

Definition wf_tenv (fuel : nat) (te : tenv) : bool :=
  nodup_str (map s_name (t_structs te))
  && nodup_str (flat_map (fun d => match s_reg d with Some r => [r] | None => [] end) (t_structs te))
  && forallb (wf_struct fuel te) (t_structs te).
