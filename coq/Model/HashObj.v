(* C14 model, part 3: KEY OBJECTS.
   In the Go code a key is a pointer (to a SexpInt, SexpSymbol, SexpArray ..): every script-level
   call passes its own key object, HashSet stores the passed object in the bucket
   (arr[i] = Cons(key, val): the bucket holds the object of the LATEST hset of that key) and,
   only when the key is new, in KeyOrder (KeyOrder holds the object of the FIRST hset since the
   key was last absent); the one-element array key [k] is replaced by its ELEMENT OBJECT
   (arr.Val[0]).  keys / hpair / __rangeKey / __rangePair / the range loops hand out the KeyOrder
   objects.  Nothing in zygo/hashutils.go may depend on WHICH object carries a key: every decision
   is taken by HashExpression and env.Compare, i.e. by the content.
   An [okey] is a key whose every Sexp node carries an identity [id] (an ARBITRARY integer: the
   theorems do not even ask for the identities to be different).
   Executable definitions only; proofs are in Proofs/HashObjProofs.v. *)
From Coq Require Import List ZArith Bool.
From ZV Require Import Model.HashTbl.
Import ListNotations.
Open Scope Z_scope.

Inductive okey : Type :=
| OAtom (id : Z) (a : atom)                          (* SexpInt, SexpChar, SexpSymbol, SexpStr *)
| OArr (id : Z) (l : list (Z * atom))                (* SexpArray [a b ..] with its element objects *)
| OWrap (id : Z) (inner : Z) (l : list (Z * atom)).  (* [[a b ..]]: outer array, inner array, elements *)

(* the content of a key object *)
Definition erase (k : okey) : key :=
  match k with
  | OAtom _ a => KAtom a
  | OArr _ l => KArr (map snd l)
  | OWrap _ _ l => KWrap (map snd l)
  end.
(* the identity of the top node *)
Definition oid (k : okey) : Z := match k with OAtom i _ => i | OArr i _ => i | OWrap i _ _ => i end.

(* env.Compare and HashExpression look at the content only *)
Definition oceq (a b : okey) : bool := ceq (erase a) (erase b).
Definition ohash (ah : key -> Z) (k : okey) : Z := khash ah (erase k).
(* HashDelete's test on KeyOrder entries: same hash code and Compare = 0 *)
Definition okid (ah : key -> Z) (a b : okey) : bool := Z.eqb (ohash ah a) (ohash ah b) && oceq a b.

(* key = arr.Val[0]: the element OBJECT of a one-element array *)
Definition ounwrap (k : okey) : okey :=
  match k with
  | OArr _ [(j, a)] => OAtom j a
  | OWrap _ j l => OArr j l
  | _ => k
  end.
Definition okey_ok (k : okey) : bool := key_ok (erase k).

Definition otbl := tbl okey Z.
Definition oop := op okey Z.
Definition ostep (ah : key -> Z) : otbl -> oop -> otbl := step okey Z oceq (okid ah) (ohash ah) ounwrap.
Definition orun (ah : key -> Z) (ops : list oop) : otbl := run okey Z oceq (okid ah) (ohash ah) ounwrap ops.
Definition omake (ah : key -> Z) (pairs : list (okey * Z)) : otbl := make_hash okey Z oceq (ohash ah) ounwrap pairs.
Definition os_step (ah : key -> Z) := s_step okey Z (okid ah) ounwrap.
Definition os_run (ah : key -> Z) (ops : list oop) : spec okey Z := s_run okey Z (okid ah) ounwrap ops.

(* forgetting the identities *)
Definition erase_op (o : oop) : zop :=
  match o with OSet k v => OSet (erase k) v | ODel k => ODel (erase k) end.
Definition erase_kv (kv : okey * Z) : key * Z := (erase (fst kv), snd kv).

(* the state as the harness reads it through the accessor zygo/verif_c14.go (VerifHashState):
   non-empty buckets (code, pairs), KeyOrder, NumKeys.  The Go map is unordered: the harness sorts
   by code, the runner sorts this list. *)
Definition state_obs (t : otbl) : list (Z * list (okey * Z)) * list okey * Z :=
  (filter (fun hb => match snd hb with [] => false | _ => true end) (buckets t), korder t, nkeys t).
