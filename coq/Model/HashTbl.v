(* C14 model: the zygomys hash table (zygo/hashutils.go, zygo/functions.go, zygo/jsonmsgp.go)
   and its specification (association list in first-insertion order).
   Executable definitions only; proofs are in Proofs/HashTblProofs.v.

   Part 1 (Section Tbl) is generic in the key type, the comparison [beq] used inside a bucket
   (= "env.Compare(a,b) returns 0 without error"), the key identity [keq] used by the
   specification and by HashDelete's walk over KeyOrder (in the code: same hash code AND
   Compare = 0, see [kid] in part 2), the hash function [hcode] (= HashExpression; ARBITRARY,
   so colliding codes are covered) and [unwrap] (HashSet/HashGet/HashGetDefault/HashDelete
   replace a one-element array key [k] by k).
   Part 2 instantiates it with the concrete key shapes of the property's universe. *)
From Coq Require Import List ZArith Bool.
Import ListNotations.
Open Scope Z_scope.

(* result of a script-level call: value, ordinary error return, Go panic *)
Inductive outcome (A : Type) : Type := Ok (a : A) | Err | Crash.
Arguments Ok {A} a.
Arguments Err {A}.
Arguments Crash {A}.

Section Tbl.
Variables K V : Type.
Variable beq : K -> K -> bool.
Variable keq : K -> K -> bool.
Variable hcode : K -> Z.
Variable unwrap : K -> K.

(* ------------------------------------------------------------------ *)
(* specification: association list, first-insertion order, first spelling of the key kept *)
Definition spec := list (K * V).
Fixpoint s_get (s : spec) (k : K) : option V :=
  match s with [] => None | (k', v) :: r => if keq k' k then Some v else s_get r k end.
Fixpoint s_set (s : spec) (k : K) (v : V) : spec :=
  match s with
  | [] => [(k, v)]
  | (k', v') :: r => if keq k' k then (k', v) :: r else (k', v') :: s_set r k v
  end.
Fixpoint s_del (s : spec) (k : K) : spec :=
  match s with [] => [] | (k', v') :: r => if keq k' k then r else (k', v') :: s_del r k end.

(* ------------------------------------------------------------------ *)
(* the code: SexpHash.Map (bucket map), SexpHash.KeyOrder, SexpHash.NumKeys *)
Definition bucket := list (K * V).
Record tbl := { buckets : list (Z * bucket); korder : list K; nkeys : Z }.

(* Go map read  arr, ok := hash.Map[h] *)
Fixpoint b_find (bs : list (Z * bucket)) (h : Z) : option bucket :=
  match bs with [] => None | (h', b) :: r => if Z.eqb h' h then Some b else b_find r h end.
(* Go map write  hash.Map[h] = b *)
Fixpoint b_put (bs : list (Z * bucket)) (h : Z) (b : bucket) : list (Z * bucket) :=
  match bs with
  | [] => [(h, b)]
  | (h', b') :: r => if Z.eqb h' h then (h, b) :: r else (h', b') :: b_put r h b
  end.

Definition empty : tbl := {| buckets := []; korder := []; nkeys := 0 |}.   (* MakeHash *)

(* first pair of a bucket whose Head compares 0 with key *)
Fixpoint b_get (b : bucket) (k : K) : option V :=
  match b with [] => None | (k', v) :: r => if beq k' k then Some v else b_get r k end.

(* the body of HashGetDefault after the unwrapping of the key *)
Definition bucket_lookup (t : tbl) (key : K) : option V :=
  match b_find (buckets t) (hcode key) with
  | None => None
  | Some arr => b_get arr key
  end.

(* hashutils.go:HashGetDefault  (None = the default value is returned) *)
Definition hash_get_default (t : tbl) (key : K) : option V := bucket_lookup t (unwrap key).

(* hashutils.go:HashGet  (None = error "has no field"); it unwraps, then HashGetDefault unwraps again *)
Definition hash_get (t : tbl) (key : K) : option V := hash_get_default t (unwrap key).

(* hashutils.go:HashSet *)
Definition hash_set (t : tbl) (key0 : K) (v : V) : tbl :=
  let key := unwrap key0 in
  let h := hcode key in
  match b_find (buckets t) h with
  | None => {| buckets := b_put (buckets t) h [(key, v)];
               korder := korder t ++ [key]; nkeys := nkeys t + 1 |}
  | Some arr =>
    (* the loop has no break: every matching pair is overwritten *)
    if existsb (fun p => beq (fst p) key) arr
    then {| buckets := b_put (buckets t) h (map (fun p => if beq (fst p) key then (key, v) else p) arr);
            korder := korder t; nkeys := nkeys t |}
    else {| buckets := b_put (buckets t) h (arr ++ [(key, v)]);
            korder := korder t ++ [key]; nkeys := nkeys t + 1 |}
  end.

(* remove the first element satisfying f (append(a[0:i], a[i+1:]...) + break) *)
Fixpoint remove_first {A : Type} (f : A -> bool) (l : list A) : list A :=
  match l with [] => [] | x :: r => if f x then r else x :: remove_first f r end.

(* the body of HashDelete after the unwrapping of the key.  The walk over KeyOrder drops the
   first entry that is the same key: [keq k key] is, in the code, "HashExpression(k) = hashval
   and Compare(k, key) = 0" *)
Definition delete_key (t : tbl) (key : K) : tbl :=
  let h := hcode key in
  match b_find (buckets t) h with
  | None => t
  | Some arr =>
    if existsb (fun p => beq (fst p) key) arr
    then {| buckets := b_put (buckets t) h (remove_first (fun p => beq (fst p) key) arr);
            korder := remove_first (fun k => keq k key) (korder t);
            nkeys := nkeys t - 1 |}
    else t
  end.

(* hashutils.go:HashDelete *)
Definition hash_delete (t : tbl) (key : K) : tbl := delete_key t (unwrap key).

(* hashutils.go:HashCountKeys *)
Definition count_keys (t : tbl) : outcome Z :=
  let num := fold_right (fun hb acc => Z.of_nat (length (snd hb)) + acc) 0 (buckets t) in
  if Z.eqb num (nkeys t) then Ok num else Crash.

(* the loop of HashPairi from position k: first key of KeyOrder[k:] that resolves *)
Fixpoint first_resolving (t : tbl) (l : list K) : option (K * V) :=
  match l with
  | [] => None
  | k :: r => match hash_get t k with Some v => Some (k, v) | None => first_resolving t r end
  end.

(* hashutils.go:HashPairi (pos >= 0 is checked by every caller) *)
Definition hash_pairi (t : tbl) (pos : Z) : outcome (K * V) :=
  if nkeys t <? pos then Err
  else match first_resolving t (skipn (Z.to_nat pos) (korder t)) with
       | Some kv => Ok kv
       | None => Crash                  (* panic "hpair internal error" *)
       end.

(* hashutils.go:GenericHpairFunction (builtin hpair) on a hash *)
Definition hpair (t : tbl) (pos : Z) : outcome (K * V) :=
  if (pos <? 0) || (Z.of_nat (length (korder t)) <=? pos) then Err else hash_pairi t pos.

(* functions.go:LenFunction / RangeLenFunction on a hash *)
Definition len (t : tbl) : outcome Z := count_keys t.

(* functions.go:RangePairFunction / RangeKeyFunction (rangeIndexArg rejects pos < 0) *)
Definition range_pair (t : tbl) (pos : Z) : outcome (K * V) :=
  if pos <? 0 then Err
  else match count_keys t with
       | Ok n => if n <=? pos then Err else hash_pairi t pos
       | Err => Err
       | Crash => Crash
       end.
Definition range_key (t : tbl) (pos : Z) : outcome K :=
  match range_pair t pos with Ok kv => Ok (fst kv) | Err => Err | Crash => Crash end.

(* functions.go:HashAccessFunction "keys" *)
Definition keys (t : tbl) : list K := korder t.

(* the entries the walks over KeyOrder produce (SexpString skips keys that do not resolve) *)
Definition entries (t : tbl) : list (K * V) :=
  flat_map (fun k => match hash_get t k with Some v => [(k, v)] | None => [] end) (korder t).

(* hashutils.go:SexpHash.SexpString for TypeName "hash", ps = nil, not pretty:
   "{" ++ concat (entry ++ " ") ; the last character is cut off iff onKey > 0 ; ++ "}".
   Observation = (entries, is the last character cut off). *)
Definition str_obs (t : tbl) : list (K * V) * bool :=
  (entries t, match entries t with [] => false | _ => true end).

(* jsonmsgp.go:jsonHashHelper: n == 0 gives the short form; a KeyOrder key that does not resolve panics *)
Fixpoint json_entries (t : tbl) (l : list K) : option (list (K * V)) :=
  match l with
  | [] => Some []
  | k :: r => match hash_get t k with
              | None => None
              | Some v => match json_entries t r with Some es => Some ((k, v) :: es) | None => None end
              end
  end.
Definition json_obs (t : tbl) : outcome (list (K * V) * list K) :=
  match json_entries t (korder t) with
  | Some es => Ok (es, korder t)
  | None => Crash
  end.

(* the loops: macro (range k v h ..) = len, then hpair i for i < n;
   infix for k, v := range h = __rangeLen, then __rangePair i for i < n *)
Fixpoint collect {A : Type} (f : Z -> outcome A) (i : Z) (n : nat) : outcome (list A) :=
  match n with
  | O => Ok []
  | S m => match f i with
           | Ok a => match collect f (i + 1) m with Ok l => Ok (a :: l) | Err => Err | Crash => Crash end
           | Err => Err
           | Crash => Crash
           end
  end.
Definition loop_macro (t : tbl) : outcome (list (K * V)) :=
  match len t with Ok n => collect (hpair t) 0 (Z.to_nat n) | Err => Err | Crash => Crash end.
Definition loop_infix (t : tbl) : outcome (list (K * V)) :=
  match len t with Ok n => collect (range_pair t) 0 (Z.to_nat n) | Err => Err | Crash => Crash end.

(* ------------------------------------------------------------------ *)
(* operations that change the hash, and histories *)
Inductive op : Type := OSet (k : K) (v : V) | ODel (k : K).
Definition op_key (o : op) : K := match o with OSet k _ => k | ODel k => k end.
Definition step (t : tbl) (o : op) : tbl :=
  match o with OSet k v => hash_set t k v | ODel k => hash_delete t k end.
Definition run (ops : list op) : tbl := fold_left step ops empty.

(* hashutils.go:MakeHash, the constructor behind (hash k v ..) and the {k:v ..} literal: an empty
   hash, then HashSet for every pair in turn; NumKeys is whatever those HashSets left *)
Definition make_hash (pairs : list (K * V)) : tbl :=
  fold_left (fun t kv => hash_set t (fst kv) (snd kv)) pairs empty.

(* the specification identifies [k] with k in every operation *)
Definition s_step (s : spec) (o : op) : spec :=
  match o with OSet k v => s_set s (unwrap k) v | ODel k => s_del s (unwrap k) end.
Definition s_run (ops : list op) : spec := fold_left s_step ops [].

(* specification of the observations *)
Definition s_lookup (s : spec) (k : K) : option V := s_get s (unwrap k).
Definition s_len (s : spec) : outcome Z := Ok (Z.of_nat (length s)).
Definition s_keys (s : spec) : list K := map fst s.
Definition s_pair (s : spec) (pos : Z) : outcome (K * V) :=
  if (pos <? 0) then Err else match nth_error s (Z.to_nat pos) with Some kv => Ok kv | None => Err end.
Definition s_range_key (s : spec) (pos : Z) : outcome K :=
  match s_pair s pos with Ok kv => Ok (fst kv) | Err => Err | Crash => Crash end.
Definition s_str (s : spec) : list (K * V) * bool := (s, match s with [] => false | _ => true end).
Definition s_json (s : spec) : outcome (list (K * V) * list K) := Ok (s, map fst s).
Definition s_loop (s : spec) : outcome (list (K * V)) := Ok s.

(* abstraction function: walk KeyOrder, look each key up *)
Definition abs (t : tbl) : spec := entries t.

End Tbl.

Arguments buckets {K V} t.
Arguments korder {K V} t.
Arguments nkeys {K V} t.
Arguments OSet {K V} k v.
Arguments ODel {K V} k.

(* ================================================================== *)
(* Part 2: the concrete keys.
   atom  = int, char, symbol (by number), string (bytes);
   key   = atom, array of atoms [a b ..], or a one-element array holding an array of atoms [[a b ..]]. *)
Inductive atom : Type := AInt (z : Z) | AChar (z : Z) | ASym (n : Z) | AStr (s : list Z).
Inductive key : Type := KAtom (a : atom) | KArr (l : list atom) | KWrap (l : list atom).

Fixpoint zlist_eqb (a b : list Z) : bool :=
  match a, b with
  | [], [] => true
  | x :: a', y :: b' => Z.eqb x y && zlist_eqb a' b'
  | _, _ => false
  end.

(* comparisons.go:Compare returns 0 with no error (compareInt/compareChar cross-compare by value,
   compareSymbol by number, compareString by bytes; any other pairing is an error) *)
Definition aeq (a b : atom) : bool :=
  match a, b with
  | AInt x, AInt y | AInt x, AChar y | AChar x, AInt y | AChar x, AChar y => Z.eqb x y
  | ASym x, ASym y => Z.eqb x y
  | AStr x, AStr y => zlist_eqb x y
  | _, _ => false
  end.
(* comparisons.go:compareArray: element-wise, then the lengths *)
Fixpoint alist_eq (a b : list atom) : bool :=
  match a, b with
  | [], [] => true
  | x :: a', y :: b' => aeq x y && alist_eq a' b'
  | _, _ => false
  end.
(* Compare = 0 on keys ([[..]] against [..]: the element pair array/atom is an error, array/array
   of different nesting likewise) *)
Definition ceq (a b : key) : bool :=
  match a, b with
  | KAtom x, KAtom y => aeq x y
  | KArr x, KArr y => alist_eq x y
  | KWrap x, KWrap y => alist_eq x y
  | _, _ => false
  end.

(* the unwrapping at the top of HashSet / HashGet / HashGetDefault / HashDelete:
   a one-element array key is replaced by its element *)
Definition unwrap (k : key) : key :=
  match k with KArr [a] => KAtom a | KWrap l => KArr l | _ => k end.

(* hash/fnv New32 (FNV-1): h = h * 16777619 mod 2^32, then xor the byte *)
Definition fnv32 (s : list Z) : Z :=
  fold_left (fun h b => Z.lxor ((h * 16777619) mod 4294967296) b) s 2166136261.

(* hashutils.go:hashHelper on atoms; arrays are hashed by Blake2b of their printed form,
   which is not modelled: [ah] is arbitrary *)
Definition ahash (a : atom) : Z :=
  match a with AInt z => z | AChar z => z | ASym n => n | AStr s => fnv32 s end.
Definition khash (ah : key -> Z) (k : key) : Z :=
  match k with KAtom a => ahash a | _ => ah k end.

(* the key identity of the code: same hash code and Compare = 0
   (HashDelete checks both on KeyOrder; inside a bucket all codes are equal anyway) *)
Definition kid (ah : key -> Z) (a b : key) : bool := Z.eqb (khash ah a) (khash ah b) && ceq a b.

(* every key except [[a]]: that one is unwrapped to [a] when stored and unwrapped AGAIN, to a,
   when the stored key is looked up by SexpString / HashPairi / json *)
Definition key_ok (k : key) : bool := match k with KWrap [_] => false | _ => true end.

Definition ztbl := tbl key Z.
Definition zop := op key Z.
Definition zstep (ah : key -> Z) : ztbl -> zop -> ztbl := step key Z ceq (kid ah) (khash ah) unwrap.
Definition zrun (ah : key -> Z) (ops : list zop) : ztbl := run key Z ceq (kid ah) (khash ah) unwrap ops.
Definition zmake (ah : key -> Z) (pairs : list (key * Z)) : ztbl := make_hash key Z ceq (khash ah) unwrap pairs.
Definition zs_step (ah : key -> Z) := s_step key Z (kid ah) unwrap.
Definition zs_run (ah : key -> Z) (ops : list zop) : spec key Z := s_run key Z (kid ah) unwrap ops.
