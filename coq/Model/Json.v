(* C11 model: the JSON encoder of zygo/jsonmsgp.go (SexpToJson, jsonQuote, jsonHashHelper,
   jsonArrayHelper), an independent RFC 8259 recogniser/decoder, and the decoder route
   JsonToGo + GoToSexp/decodeGoToSexpHelper (Go map, sorted walk, Atype, zKeyOrder).
   Executable definitions only; proofs are in Proofs/JsonProofs.v.

   Bytes and code points are Z.  A string is a list of code points as Go's `range` /
   utf8.DecodeRuneInString delivers them, with -1 standing for ONE byte that is not UTF-8
   (encoding/json writes � for it; a genuine U+FFFD is written raw). *)
From Coq Require Import ZArith List Bool.
Import ListNotations.
Open Scope Z_scope.

(* ---------------------------------------------------------------- data values *)

Inductive key := KSym (t : list Z) | KStr (t : list Z).
Definition key_text (k : key) : list Z := match k with KSym t => t | KStr t => t end.

Inductive value :=
| VNil
| VBool (b : bool)
| VInt (z : Z)
| VFloat (sci : bool) (bits : Z)     (* SexpFloat{Val, Scientific}; Val by its IEEE-754 bits *)
| VStr (raw : bool) (s : list Z)      (* SexpStr{S, backtick}: raw = came from a backtick literal *)
| VArr (l : list value)
| VHash (tn : list Z) (fs : list (key * value)).   (* TypeName, fields in KeyOrder order *)

(* ---------------------------------------------------------------- string constants *)
Definition s_Atype : list Z := [65;116;121;112;101].
Definition s_zKeyOrder : list Z := [122;75;101;121;79;114;100;101;114].
Definition s_hash : list Z := [104;97;115;104].
Definition b_null : list Z := [110;117;108;108].
Definition b_true : list Z := [116;114;117;101].
Definition b_false : list Z := [102;97;108;115;101].
Definition b_open_atype : list Z := [123;34;65;116;121;112;101;34;58].              (* {"Atype": *)
Definition b_zko_open : list Z := [34;122;75;101;121;79;114;100;101;114;34;58;91].   (* "zKeyOrder":[ *)
Definition comma_sp : list Z := [44;32].                                             (* ", " *)

(* ---------------------------------------------------------------- json_quote (encoding/json appendString, escapeHTML) *)

Definition utf8_enc (c : Z) : list Z :=
  if c <? 128 then [c]
  else if c <? 2048 then [192 + c / 64; 128 + c mod 64]
  else if c <? 65536 then [224 + c / 4096; 128 + (c / 64) mod 64; 128 + c mod 64]
  else [240 + c / 262144; 128 + (c / 4096) mod 64; 128 + (c / 64) mod 64; 128 + c mod 64].

Definition hexd (n : Z) : Z := if n <? 10 then 48 + n else 87 + n.
Definition u00 (c : Z) : list Z := [92;117;48;48; hexd (c / 16); hexd (c mod 16)].

Definition quote_cp (c : Z) : list Z :=
  if c =? -1 then [92;117;102;102;102;100]            (* � for a byte that is not UTF-8 *)
  else if c =? 34 then [92;34]
  else if c =? 92 then [92;92]
  else if c <? 32 then
    (if c =? 8 then [92;98] else if c =? 12 then [92;102] else if c =? 10 then [92;110]
     else if c =? 13 then [92;114] else if c =? 9 then [92;116] else u00 c)
  else if (c =? 60) || (c =? 62) || (c =? 38) then u00 c
  else if c =? 8232 then [92;117;50;48;50;56]
  else if c =? 8233 then [92;117;50;48;50;57]
  else utf8_enc c.

Definition quote_body (s : list Z) : list Z := flat_map quote_cp s.
Definition json_quote (s : list Z) : list Z := 34 :: quote_body s ++ [34].

(* ---------------------------------------------------------------- numbers *)

(* strconv.Itoa *)
Fixpoint dec_pos (n : nat) (z : Z) (acc : list Z) : list Z :=
  match n with
  | O => acc
  | S n' => if z <? 10 then (48 + z) :: acc else dec_pos n' (z / 10) ((48 + z mod 10) :: acc)
  end.
Definition dec (z : Z) : list Z := if z <? 0 then 45 :: dec_pos 25 (- z) [] else dec_pos 25 z [].

Definition float_finite (bits : Z) : bool := negb ((bits / 4503599627370496) mod 2048 =? 2047).
Definition has_dot_e (t : list Z) : bool := existsb (fun c => (c =? 46) || (c =? 101) || (c =? 69)) t.

Section Codec.
(* strconv.FormatFloat behind SexpFloat.SexpString (by Scientific flag and bits) and the float
   parser of the decoder are oracles *)
Variable fmt : bool -> Z -> list Z.
Variable pf : list Z -> Z.

(* SexpToJson, case *SexpFloat: |x| <> 0 and (|x| < 1e-6 or |x| >= 1e21) is written in
   exponent form whatever the Scientific flag; the magnitude order of float64 is the order of the
   low 63 bits (4517329193108106637 = bits of 1e-6, 4921056587992461136 = bits of 1e21) *)
Definition float_extreme (bits : Z) : bool :=
  let m := bits mod 9223372036854775808 in
  negb (m =? 0) && ((m <? 4517329193108106637) || (4921056587992461136 <=? m)).

Definition float_token (sci : bool) (bits : Z) : list Z :=
  if float_extreme bits then fmt true bits
  else let t := fmt sci bits in if has_dot_e t then t else t ++ [46;48].

(* ---------------------------------------------------------------- to_json (SexpToJson) *)

Definition join_comma (l : list (list Z)) : list Z :=
  match l with [] => [] | x :: r => x ++ flat_map (fun y => comma_sp ++ y) r end.

Fixpoint to_json (v : value) : list Z :=
  match v with
  | VNil => b_null
  | VBool b => if b then b_true else b_false
  | VInt z => dec z
  | VFloat sci bits => if float_finite bits then float_token sci bits else b_null
  | VStr _ s => json_quote s                          (* the raw flag plays no part *)
  | VArr l =>                                             (* jsonArrayHelper *)
      match l with
      | [] => [91;93]
      | x :: r => 91 :: to_json x ++ flat_map (fun y => comma_sp ++ to_json y) r ++ [93]
      end
  | VHash tn fs =>                                        (* jsonHashHelper *)
      match fs with
      | [] => b_open_atype ++ json_quote tn ++ [125]
      | _ => b_open_atype ++ json_quote tn ++ comma_sp
             ++ flat_map (fun kv => match kv with (k, x) => json_quote (key_text k) ++ [58] ++ to_json x ++ comma_sp end) fs
             ++ b_zko_open ++ join_comma (map (fun kv => json_quote (key_text (fst kv))) fs) ++ [93;125]
      end
  end.

(* ---------------------------------------------------------------- JSON trees and the RFC 8259 reader *)

Inductive jtree :=
| JNull | JBool (b : bool) | JNum (tok : list Z) | JStr (s : list Z)
| JArr (l : list jtree) | JObj (ms : list (list Z * jtree)).

Definition is_digit (c : Z) : bool := (48 <=? c) && (c <=? 57).

(* string bodies: one byte at a time *)
Inductive sstate :=
| SN | SE | SU (k : nat) (acc : Z)
| SH (h : Z) | SHE (h : Z) | SHU (h : Z) (k : nat) (acc : Z)
| SC (k : nat) (acc : Z) (lo : Z).

Definition hexval (c : Z) : option Z :=
  if is_digit c then Some (c - 48)
  else if (97 <=? c) && (c <=? 102) then Some (c - 87)
  else if (65 <=? c) && (c <=? 70) then Some (c - 55) else None.

Definition esc_char (c : Z) : option Z :=
  if c =? 34 then Some 34 else if c =? 92 then Some 92 else if c =? 47 then Some 47
  else if c =? 98 then Some 8 else if c =? 102 then Some 12 else if c =? 110 then Some 10
  else if c =? 114 then Some 13 else if c =? 116 then Some 9 else None.

Definition is_high (c : Z) : bool := (55296 <=? c) && (c <? 56320).
Definition is_low (c : Z) : bool := (56320 <=? c) && (c <? 57344).

Definition step_normal (c : Z) : option (list Z * sstate) :=
  if c =? 92 then Some ([], SE)
  else if c <? 32 then None
  else if c <? 128 then Some ([c], SN)
  else if c <? 194 then None
  else if c <? 224 then Some ([], SC 1 (c - 192) 128)
  else if c <? 240 then Some ([], SC 2 (c - 224) 2048)
  else if c <? 245 then Some ([], SC 3 (c - 240) 65536)
  else None.

Definition finish_u (v : Z) : list Z * sstate :=
  if is_high v then ([], SH v) else if is_low v then ([65533], SN) else ([v], SN).

Definition sstep (st : sstate) (c : Z) : option (list Z * sstate) :=
  match st with
  | SN => step_normal c
  | SE => if c =? 117 then Some ([], SU 4 0)
          else match esc_char c with Some e => Some ([e], SN) | None => None end
  | SU k acc =>
      match hexval c with
      | None => None
      | Some d => let v := acc * 16 + d in
                  match k with S (S k') => Some ([], SU (S k') v) | _ => Some (finish_u v) end
      end
  | SH h => if c =? 92 then Some ([], SHE h)
            else match step_normal c with Some (e, st') => Some (65533 :: e, st') | None => None end
  | SHE h => if c =? 117 then Some ([], SHU h 4 0)
             else match esc_char c with Some e => Some ([65533; e], SN) | None => None end
  | SHU h k acc =>
      match hexval c with
      | None => None
      | Some d => let v := acc * 16 + d in
                  match k with
                  | S (S k') => Some ([], SHU h (S k') v)
                  | _ => if is_low v then Some ([65536 + (h - 55296) * 1024 + (v - 56320)], SN)
                         else match finish_u v with (e, st') => Some (65533 :: e, st') end
                  end
      end
  | SC k acc lo =>
      if (128 <=? c) && (c <? 192) then
        let v := acc * 64 + (c - 128) in
        match k with
        | S (S k') => Some ([], SC (S k') v lo)
        | _ => if (lo <=? v) && (v <=? 1114111) && negb ((55296 <=? v) && (v <? 57344))
               then Some ([v], SN) else None
        end
      else None
  end.

(* s starts after the opening quote; result: decoded code points and the text after the closing quote *)
Fixpoint pstr (st : sstate) (s : list Z) : option (list Z * list Z) :=
  match s with
  | [] => None
  | c :: r =>
      if (c =? 34) && (match st with SN => true | SH _ => true | _ => false end)
      then Some (match st with SH _ => [65533] | _ => [] end, r)
      else match sstep st c with
           | None => None
           | Some (e, st') => match pstr st' r with
                              | Some (t, rest) => Some (e ++ t, rest)
                              | None => None
                              end
           end
  end.

(* number tokens: the grammar  -? (0 | [1-9][0-9]* ) (. [0-9]+)? ([eE] [+-]? [0-9]+)?  as an automaton *)
Inductive nstate := N0 | NMinus | NZero | NInt | NDot | NFrac | NE | NESign | NExp.

Definition nstep (st : nstate) (c : Z) : option nstate :=
  let d := is_digit c in
  let e := (c =? 101) || (c =? 69) in
  match st with
  | N0 => if c =? 45 then Some NMinus else if c =? 48 then Some NZero else if d then Some NInt else None
  | NMinus => if c =? 48 then Some NZero else if d then Some NInt else None
  | NZero => if c =? 46 then Some NDot else if e then Some NE else None
  | NInt => if d then Some NInt else if c =? 46 then Some NDot else if e then Some NE else None
  | NDot => if d then Some NFrac else None
  | NFrac => if d then Some NFrac else if e then Some NE else None
  | NE => if (c =? 43) || (c =? 45) then Some NESign else if d then Some NExp else None
  | NESign => if d then Some NExp else None
  | NExp => if d then Some NExp else None
  end.

Definition naccept (st : nstate) : bool :=
  match st with NZero => true | NInt => true | NFrac => true | NExp => true | _ => false end.

Fixpoint nscan (st : nstate) (s : list Z) : list Z * nstate * list Z :=
  match s with
  | [] => ([], st, [])
  | c :: r => match nstep st c with
              | Some st' => match nscan st' r with (a, stf, rest) => (c :: a, stf, rest) end
              | None => ([], st, s)
              end
  end.

Definition pnum (s : list Z) : option (list Z * list Z) :=
  match nscan N0 s with (tok, st, rest) => if naccept st then Some (tok, rest) else None end.

Definition is_json_number (tok : list Z) : bool :=
  match pnum tok with Some (_, []) => true | _ => false end.

Definition is_ws (c : Z) : bool := (c =? 32) || (c =? 9) || (c =? 10) || (c =? 13).
Fixpoint skip_ws (s : list Z) : list Z :=
  match s with c :: r => if is_ws c then skip_ws r else s | [] => [] end.

Fixpoint starts (p s : list Z) : option (list Z) :=
  match p, s with
  | [], _ => Some s
  | a :: p', b :: s' => if a =? b then starts p' s' else None
  | _ :: _, [] => None
  end.

(* recursive descent; n is fuel (the length of the text suffices) *)
Fixpoint pval (n : nat) (s : list Z) : option (jtree * list Z) :=
  match n with
  | O => None
  | S n' =>
    match skip_ws s with
    | [] => None
    | c :: r =>
      if c =? 34 then match pstr SN r with Some (t, rest) => Some (JStr t, rest) | None => None end
      else if c =? 91 then
        match skip_ws r with
        | c1 :: r1 => if c1 =? 93 then Some (JArr [], r1)
                      else match parr n' r with Some (l, rest) => Some (JArr l, rest) | None => None end
        | [] => None
        end
      else if c =? 123 then
        match skip_ws r with
        | c1 :: r1 => if c1 =? 125 then Some (JObj [], r1)
                      else match pobj n' r with Some (ms, rest) => Some (JObj ms, rest) | None => None end
        | [] => None
        end
      else if c =? 110 then match starts b_null (c :: r) with Some rest => Some (JNull, rest) | None => None end
      else if c =? 116 then match starts b_true (c :: r) with Some rest => Some (JBool true, rest) | None => None end
      else if c =? 102 then match starts b_false (c :: r) with Some rest => Some (JBool false, rest) | None => None end
      else match pnum (c :: r) with Some (tok, rest) => Some (JNum tok, rest) | None => None end
    end
  end
with parr (n : nat) (s : list Z) : option (list jtree * list Z) :=
  match n with
  | O => None
  | S n' =>
    match pval n' s with
    | None => None
    | Some (v, r) =>
      match skip_ws r with
      | c :: r' => if c =? 44 then match parr n' r' with Some (vs, rest) => Some (v :: vs, rest) | None => None end
                   else if c =? 93 then Some ([v], r') else None
      | [] => None
      end
    end
  end
with pobj (n : nat) (s : list Z) : option (list (list Z * jtree) * list Z) :=
  match n with
  | O => None
  | S n' =>
    match skip_ws s with
    | c :: r =>
      if c =? 34 then
        match pstr SN r with
        | None => None
        | Some (k, r1) =>
          match skip_ws r1 with
          | c2 :: r2 =>
            if c2 =? 58 then
              match pval n' r2 with
              | None => None
              | Some (v, r3) =>
                match skip_ws r3 with
                | c3 :: r4 => if c3 =? 44 then match pobj n' r4 with Some (ms, rest) => Some ((k, v) :: ms, rest) | None => None end
                              else if c3 =? 125 then Some ([(k, v)], r4) else None
                | [] => None
                end
              end
            else None
          | [] => None
          end
        end
      else None
    | [] => None
    end
  end.

Definition json_parse (s : list Z) : option jtree :=
  match pval (S (length s)) s with
  | Some (t, rest) => match skip_ws rest with [] => Some t | _ => None end
  | None => None
  end.

(* ---------------------------------------------------------------- the data a value must denote *)

Definition fix_cp (c : Z) : Z := if c =? -1 then 65533 else c.
Definition fix_str (s : list Z) : list Z := map fix_cp s.

Fixpoint tree_of (v : value) : jtree :=
  match v with
  | VNil => JNull
  | VBool b => JBool b
  | VInt z => JNum (dec z)
  | VFloat sci bits => if float_finite bits then JNum (float_token sci bits) else JNull
  | VStr _ s => JStr (fix_str s)
  | VArr l => JArr (map tree_of l)
  | VHash tn fs =>
      JObj ((s_Atype, JStr (fix_str tn)) ::
            match fs with
            | [] => []
            | _ => map (fun kv => match kv with (k, x) => (fix_str (key_text k), tree_of x) end) fs
                   ++ [(s_zKeyOrder, JArr (map (fun kv => JStr (fix_str (key_text (fst kv)))) fs))]
            end)
  end.

(* ---------------------------------------------------------------- decoding: JsonToGo + GoToSexp *)

Inductive outcome := Ok (v : value) | Crash | Corrupt.

Fixpoint str_eqb (a b : list Z) : bool :=
  match a, b with
  | [], [] => true
  | x :: a', y :: b' => (x =? y) && str_eqb a' b'
  | _, _ => false
  end.

(* Go string order: byte-wise on UTF-8, which is code-point-wise *)
Fixpoint str_ltb (a b : list Z) : bool :=
  match a, b with
  | [], [] => false
  | [], _ :: _ => true
  | _ :: _, [] => false
  | x :: a', y :: b' => if x <? y then true else if y <? x then false else str_ltb a' b'
  end.

(* a Go map[string]T read in sorted key order (makeSortedSlicesFromMap): sorted association
   list; a later binding of the same key replaces the earlier one *)
Fixpoint map_put {T : Type} (k : list Z) (x : T) (m : list (list Z * T)) : list (list Z * T) :=
  match m with
  | [] => [(k, x)]
  | (k', x') :: r => if str_eqb k k' then (k, x) :: r
                     else if str_ltb k k' then (k, x) :: m
                     else (k', x') :: map_put k x r
  end.
Definition go_map {T : Type} (ms : list (list Z * T)) : list (list Z * T) :=
  fold_left (fun m kx => map_put (fst kx) (snd kx) m) ms [].

Fixpoint lookup {T : Type} (k : list Z) (m : list (list Z * T)) : option T :=
  match m with
  | [] => None
  | (k', x) :: r => if str_eqb k k' then Some x else lookup k r
  end.

Definition digits_val (ds : list Z) : Z := fold_left (fun a d => a * 10 + (d - 48)) ds 0.

(* ugorji codec decimal.go parseNumber with jh.SignedInteger: a token of digits that fits
   uint64 must fit int64 (else the decode fails); anything else is a float64 *)
Definition num_value (tok : list Z) : outcome :=
  let neg := match tok with c :: _ => c =? 45 | [] => false end in
  let ds := if neg then tl tok else tok in
  if forallb is_digit ds then
    let m := digits_val ds in
    if m <? 18446744073709551616 then
      (if neg then (if 9223372036854775808 <? m then Crash else Ok (VInt (- m)))
       else (if 9223372036854775808 <=? m then Crash else Ok (VInt m)))
    else Ok (VFloat false (pf tok))
  else Ok (VFloat false (pf tok)).

Definition is_reserved (k : list Z) : bool := str_eqb k s_Atype || str_eqb k s_zKeyOrder.

Definition is_ok (o : outcome) : bool := match o with Ok _ => true | _ => false end.

Fixpoint all_ok (l : list outcome) : option (list value) :=
  match l with
  | [] => Some []
  | Ok v :: r => match all_ok r with Some vs => Some (v :: vs) | None => None end
  | _ :: _ => None
  end.

(* the zKeyOrder member, decoded with preferSym: an array of strings gives the symbol names *)
Fixpoint key_order_list (l : list jtree) : option (list (list Z)) :=
  match l with
  | [] => Some []
  | JStr s :: r => match key_order_list r with Some ks => Some (s :: ks) | None => None end
  | _ :: _ => None
  end.
Definition key_order (t : jtree) : option (list (list Z)) :=
  match t with JArr l => key_order_list l | _ => None end.

Fixpoint restore (names : list (list Z)) (pairs : list (list Z * value)) : option (list (key * value)) :=
  match names with
  | [] => Some []
  | k :: r => match lookup k pairs, restore r pairs with
              | Some v, Some fs => Some ((KSym k, v) :: fs)
              | _, _ => None
              end
  end.

(* decodeGoToSexpHelper, case map[string]interface{}: dm = the members with their decoded values *)
Definition build_hash (dm : list (list Z * (jtree * outcome))) : outcome :=
  if negb (forallb (fun e => is_ok (snd (snd e))) dm) then Crash else
  let m := go_map dm in
  let tn := match lookup s_Atype m with Some (JStr s, _) => s | _ => s_hash end in
  let pairs := flat_map (fun e => if is_reserved (fst e) then []
                                  else match snd (snd e) with Ok v => [(fst e, v)] | _ => [] end) m in
  match lookup s_zKeyOrder m with
  | None => Ok (VHash tn (map (fun kv => (KSym (fst kv), snd kv)) pairs))       (* MakeHash: sorted order *)
  | Some (t, _) =>
      match key_order t with
      | None => Crash                                                             (* SetHashKeyOrder: not an array *)
      | Some names =>
          match restore names pairs with
          | Some fs => if Nat.eqb (length names) (length pairs) then Ok (VHash tn fs) else Corrupt
          | None => Corrupt
          end
      end
  end.

Fixpoint of_tree (t : jtree) : outcome :=
  match t with
  | JNull => Ok VNil
  | JBool b => Ok (VBool b)
  | JNum tok => num_value tok
  | JStr s => Ok (VStr false s)
  | JArr l => match all_ok (map of_tree l) with Some vs => Ok (VArr vs) | None => Crash end
  | JObj ms => build_hash (map (fun kt => match kt with (k, x) => (k, (x, of_tree x)) end) ms)
  end.

(* (unjson raw): JsonToSexp *)
Definition unjson (s : list Z) : outcome :=
  match json_parse s with Some t => of_tree t | None => Crash end.

(* ---------------------------------------------------------------- what a round trip must give back *)

Fixpoint norm (v : value) : value :=
  match v with
  | VFloat _ bits => VFloat false bits            (* the Scientific flag is a printing option, not data *)
  | VStr _ s => VStr false s                      (* so is the raw-literal flag of a string *)
  | VArr l => VArr (map norm l)
  | VHash tn fs => VHash tn (map (fun kv => match kv with (k, x) => (KSym (key_text k), norm x) end) fs)
  | _ => v
  end.

(* ---------------------------------------------------------------- well-formedness predicates (decidable) *)

Definition cp_scalar (c : Z) : bool :=
  (0 <=? c) && (c <=? 1114111) && negb ((55296 <=? c) && (c <? 57344)).
Definition cp_ok (c : Z) : bool := (c =? -1) || cp_scalar c.
Definition str_ok (s : list Z) : bool := forallb cp_ok s.
Definition str_valid (s : list Z) : bool := forallb cp_scalar s.
Definition in_i64 (z : Z) : bool := (-9223372036854775808 <=? z) && (z <=? 9223372036854775807).

(* wf: anything the interpreter can hold in these types (any byte strings; NaN/Inf allowed) *)
Fixpoint wf (v : value) : bool :=
  match v with
  | VNil => true
  | VBool _ => true
  | VInt z => in_i64 z
  | VFloat sci bits => negb (float_finite bits) || is_json_number (float_token sci bits)
  | VStr _ s => str_ok s
  | VArr l => forallb wf l
  | VHash tn fs => str_ok tn && forallb (fun kv => match kv with (k, x) => str_ok (key_text k) && wf x end) fs
  end.

Fixpoint nodup_str (l : list (list Z)) : bool :=
  match l with
  | [] => true
  | x :: r => negb (existsb (str_eqb x) r) && nodup_str r
  end.

(* data: the round-trip domain of the property text (Unicode strings, finite floats, distinct keys) *)
Fixpoint data (v : value) : bool :=
  match v with
  | VNil => true
  | VBool _ => true
  | VInt z => in_i64 z
  | VFloat sci bits => float_finite bits && is_json_number (float_token sci bits)
  | VStr _ s => str_valid s
  | VArr l => forallb data l
  | VHash tn fs =>
      str_valid tn && nodup_str (map (fun kv => key_text (fst kv)) fs)
      && forallb (fun kv => match kv with (k, x) => str_valid (key_text k) && data x end) fs
  end.

(* the side condition of the round-trip theorem that the code does NOT meet (finding
   reserved-field-names): no field is literally named Atype or zKeyOrder *)
Fixpoint no_reserved_keys (v : value) : bool :=
  match v with
  | VArr l => forallb no_reserved_keys l
  | VHash _ fs => forallb (fun kv => match kv with (k, x) => negb (is_reserved (key_text k)) && no_reserved_keys x end) fs
  | _ => true
  end.

Fixpoint sym_keys (v : value) : bool :=
  match v with
  | VArr l => forallb sym_keys l
  | VHash _ fs => forallb (fun kv => match kv with (KSym _, x) => sym_keys x | (KStr _, _) => false end) fs
  | _ => true
  end.

(* ---------------------------------------------------------------- "denotes the same data" *)

(* the integer a token of digits (with an optional minus sign) stands for *)
Definition int_token (tok : list Z) : option Z :=
  match tok with
  | c :: ds => if c =? 45 then (if forallb is_digit ds then Some (- digits_val ds) else None)
               else (if forallb is_digit tok then Some (digits_val tok) else None)
  | [] => None
  end.

(* t denotes v: scalars by value (an integer by the number its token stands for, a float by the
   text the formatter prints for it, NaN/Inf by null, a string by its code points with U+FFFD for
   bytes that are not UTF-8), arrays element-wise, a hash as the object of its type name, its
   fields in order, and the list of its key texts *)
Inductive denotes : jtree -> value -> Prop :=
| D_nil : denotes JNull VNil
| D_bool : forall b, denotes (JBool b) (VBool b)
| D_int : forall z tok, int_token tok = Some z -> denotes (JNum tok) (VInt z)
| D_float : forall sci b, float_finite b = true -> denotes (JNum (float_token sci b)) (VFloat sci b)
| D_nonfinite : forall sci b, float_finite b = false -> denotes JNull (VFloat sci b)
| D_str : forall raw s, denotes (JStr (fix_str s)) (VStr raw s)
| D_arr : forall ts l, Forall2 denotes ts l -> denotes (JArr ts) (VArr l)
| D_hash0 : forall tn, denotes (JObj [(s_Atype, JStr (fix_str tn))]) (VHash tn [])
| D_hash : forall tn fs ms, fs <> [] ->
    Forall2 (fun (m : list Z * jtree) (kv : key * value) =>
               fst m = fix_str (key_text (fst kv)) /\ denotes (snd m) (snd kv)) ms fs ->
    denotes (JObj ((s_Atype, JStr (fix_str tn)) :: ms
                   ++ [(s_zKeyOrder, JArr (map (fun kv => JStr (fix_str (key_text (fst kv)))) fs))]))
            (VHash tn fs).

(* ---------------------------------------------------------------- msgpack: SexpToMsgpack / MsgpackToSexp *)
Section Msgpack.
(* the ugorji msgpack writer and reader on Go trees are oracles *)
Variable mp_enc : jtree -> list Z.
Variable mp_dec : list Z -> option jtree.

(* (msgpack v): sexp -> JSON text -> Go tree (JsonToGo) -> msgpack bytes (GoToMsgpack) *)
Definition msgpack (v : value) : option (list Z) :=
  match json_parse (to_json v) with Some t => Some (mp_enc t) | None => None end.

(* (unmsgpack raw): msgpack bytes -> Go tree (MsgpackToGo) -> sexp (GoToSexp) *)
Definition unmsgpack (b : list Z) : outcome :=
  match mp_dec b with Some t => of_tree t | None => Crash end.
End Msgpack.

End Codec.

(* ---------------------------------------------------------------- values change in place *)
(* What hset / hdel on a hash and aset on an array (at any depth of a value) mean for the data:
   the specification of the object an encoder is handed AFTER changes (hashutils.go HashSet: an
   existing key keeps its place and gets the new value, a new key is appended; HashDelete: the
   key leaves the order; ArrayAccessFunction aset: the element is replaced). *)

Inductive pstep := PKey (k : key) | PIdx (i : nat).
Inductive mop :=
| MSet (p : list pstep) (k : key) (x : value)
| MDel (p : list pstep) (k : key)
| MASet (p : list pstep) (i : nat) (x : value).

(* a symbol key and a string key of the same text are different keys *)
Definition key_eqb (a b : key) : bool :=
  match a, b with
  | KSym s, KSym t => str_eqb s t
  | KStr s, KStr t => str_eqb s t
  | _, _ => false
  end.

Fixpoint fields_set (fs : list (key * value)) (k : key) (x : value) : list (key * value) :=
  match fs with
  | [] => [(k, x)]
  | (k', x') :: r => if key_eqb k k' then (k', x) :: r else (k', x') :: fields_set r k x
  end.

Fixpoint fields_del (fs : list (key * value)) (k : key) : list (key * value) :=
  match fs with
  | [] => []
  | (k', x') :: r => if key_eqb k k' then r else (k', x') :: fields_del r k
  end.

Fixpoint fields_update (fs : list (key * value)) (k : key) (g : value -> option value)
  : option (list (key * value)) :=
  match fs with
  | [] => None
  | (k', x') :: r =>
      if key_eqb k k' then match g x' with Some y => Some ((k', y) :: r) | None => None end
      else match fields_update r k g with Some r' => Some ((k', x') :: r') | None => None end
  end.

Fixpoint list_update (l : list value) (i : nat) (g : value -> option value) : option (list value) :=
  match l, i with
  | [], _ => None
  | a :: r, O => match g a with Some b => Some (b :: r) | None => None end
  | a :: r, S j => match list_update r j g with Some r' => Some (a :: r') | None => None end
  end.

Fixpoint update_at (p : list pstep) (f : value -> option value) (v : value) : option value :=
  match p with
  | [] => f v
  | PKey k :: p' =>
      match v with
      | VHash tn fs => match fields_update fs k (update_at p' f) with
                       | Some fs' => Some (VHash tn fs') | None => None end
      | _ => None
      end
  | PIdx i :: p' =>
      match v with
      | VArr l => match list_update l i (update_at p' f) with
                  | Some l' => Some (VArr l') | None => None end
      | _ => None
      end
  end.

Definition apply_op (o : mop) (v : value) : option value :=
  match o with
  | MSet p k x => update_at p (fun t => match t with VHash tn fs => Some (VHash tn (fields_set fs k x)) | _ => None end) v
  | MDel p k => update_at p (fun t => match t with VHash tn fs => Some (VHash tn (fields_del fs k)) | _ => None end) v
  | MASet p i x => update_at p (fun t => match t with
                                         | VArr l => match list_update l i (fun _ => Some x) with
                                                     | Some l' => Some (VArr l') | None => None end
                                         | _ => None end) v
  end.

Definition run_ops (ops : list mop) (v : value) : option value :=
  fold_left (fun acc o => match acc with Some t => apply_op o t | None => None end) ops (Some v).
