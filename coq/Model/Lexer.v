(* Model of zygo/lexer.go: the Lexer struct as the record [lstate], LexNextRune as
   [lex_rune] (case by case, every LexerState mode), DecodeAtom as [decode_atom] over the
   regexes GENERATED from lexer.go (Generated/LexTables.v, matched by Model/Regex.v),
   Lexer.Reset as [reset], and the fold [lex_all].
   Texts, buffers and token texts are lists of runes (Z).  Executable definitions only. *)
From Coq Require Import ZArith List Bool.
From ZV Require Import Model.Regex Generated.LexTables.
Import ListNotations.
Open Scope Z_scope.

(* ---- tokens (lexer.go: TokenType, Token) ---- *)

Inductive tkind : Type :=
| TEmpty | TLParen | TRParen | TLSquare | TRSquare | TLCurly | TRCurly | TDot | TQuote | TBacktick
| TTilde | TTildeAt | TSymbol | TBool | TDecimal | THex | TOct | TBinary | TFloat | TChar | TString
| TCaret | TColonOperator | TThreadingOperator | TBackslash | TDollar | TDotSymbol | TFreshAssign
| TBeginBacktickString | TBacktickString | TComment | TBeginBlockComment | TEndBlockComment
| TSemicolon | TSymbolColon | TComma | TUint64 | TEnd.

Definition tkind_eqb (a b : tkind) : bool :=
  match a, b with
  | TEmpty, TEmpty | TLParen, TLParen | TRParen, TRParen | TLSquare, TLSquare | TRSquare, TRSquare
  | TLCurly, TLCurly | TRCurly, TRCurly | TDot, TDot | TQuote, TQuote | TBacktick, TBacktick
  | TTilde, TTilde | TTildeAt, TTildeAt | TSymbol, TSymbol | TBool, TBool | TDecimal, TDecimal
  | THex, THex | TOct, TOct | TBinary, TBinary | TFloat, TFloat | TChar, TChar | TString, TString
  | TCaret, TCaret | TColonOperator, TColonOperator | TThreadingOperator, TThreadingOperator
  | TBackslash, TBackslash | TDollar, TDollar | TDotSymbol, TDotSymbol | TFreshAssign, TFreshAssign
  | TBeginBacktickString, TBeginBacktickString | TBacktickString, TBacktickString
  | TComment, TComment | TBeginBlockComment, TBeginBlockComment | TEndBlockComment, TEndBlockComment
  | TSemicolon, TSemicolon | TSymbolColon, TSymbolColon | TComma, TComma | TUint64, TUint64
  | TEnd, TEnd => true
  | _, _ => false
  end.

Record token : Type := mkTok { t_kind : tkind; t_str : list Z }.

Definition empty_token : token := mkTok TEmpty [].

(* ---- lexer modes (lexer.go: LexerState) ---- *)

Inductive lmode : Type :=
| LNormal | LCommentLine | LStrLit | LStrEscaped | LUnquote | LBacktickString
| LFreshAssignOrColon | LFirstFwdSlash | LCommentBlock | LCommentBlockAsterisk
| LBuiltinOperator | LRuneLit | LRuneEscaped.

(* ---- the Lexer struct.  Not modelled: parser (back pointer, never used by the lexer),
   stream / next (the input plumbing: modelled by the delivery functions of Model/Reader.v). ---- *)

Record lstate : Type := mkL {
  l_state : lmode;
  l_prevrune : Z;
  l_tokens : list token;       (* the queue, oldest first *)
  l_buffer : list Z;           (* bytes.Buffer as runes *)
  l_prevtok : token;
  l_prevprevtok : token;
  l_prebuiltin : Z;
  l_linenum : Z;
  l_priori : nat;
  l_ring : list Z              (* priorRune [20]rune *)
}.

Definition ring_size : nat := 20.

Definition init_lstate : lstate :=
  mkL LNormal 0 [] [] empty_token empty_token 0 1 0 (repeat 0 ring_size).

(* field setters *)
Definition set_state (m : lmode) (s : lstate) : lstate :=
  mkL m (l_prevrune s) (l_tokens s) (l_buffer s) (l_prevtok s) (l_prevprevtok s) (l_prebuiltin s) (l_linenum s) (l_priori s) (l_ring s).
Definition set_prevrune (r : Z) (s : lstate) : lstate :=
  mkL (l_state s) r (l_tokens s) (l_buffer s) (l_prevtok s) (l_prevprevtok s) (l_prebuiltin s) (l_linenum s) (l_priori s) (l_ring s).
Definition set_tokens (t : list token) (s : lstate) : lstate :=
  mkL (l_state s) (l_prevrune s) t (l_buffer s) (l_prevtok s) (l_prevprevtok s) (l_prebuiltin s) (l_linenum s) (l_priori s) (l_ring s).
Definition set_buffer (b : list Z) (s : lstate) : lstate :=
  mkL (l_state s) (l_prevrune s) (l_tokens s) b (l_prevtok s) (l_prevprevtok s) (l_prebuiltin s) (l_linenum s) (l_priori s) (l_ring s).
Definition set_prevtok (t : token) (s : lstate) : lstate :=
  mkL (l_state s) (l_prevrune s) (l_tokens s) (l_buffer s) t (l_prevprevtok s) (l_prebuiltin s) (l_linenum s) (l_priori s) (l_ring s).
Definition set_prevprevtok (t : token) (s : lstate) : lstate :=
  mkL (l_state s) (l_prevrune s) (l_tokens s) (l_buffer s) (l_prevtok s) t (l_prebuiltin s) (l_linenum s) (l_priori s) (l_ring s).
Definition set_prebuiltin (r : Z) (s : lstate) : lstate :=
  mkL (l_state s) (l_prevrune s) (l_tokens s) (l_buffer s) (l_prevtok s) (l_prevprevtok s) r (l_linenum s) (l_priori s) (l_ring s).
Definition set_linenum (n : Z) (s : lstate) : lstate :=
  mkL (l_state s) (l_prevrune s) (l_tokens s) (l_buffer s) (l_prevtok s) (l_prevprevtok s) (l_prebuiltin s) n (l_priori s) (l_ring s).
Definition set_priori (n : nat) (s : lstate) : lstate :=
  mkL (l_state s) (l_prevrune s) (l_tokens s) (l_buffer s) (l_prevtok s) (l_prevprevtok s) (l_prebuiltin s) (l_linenum s) n (l_ring s).
Definition set_ring (g : list Z) (s : lstate) : lstate :=
  mkL (l_state s) (l_prevrune s) (l_tokens s) (l_buffer s) (l_prevtok s) (l_prevprevtok s) (l_prebuiltin s) (l_linenum s) (l_priori s) g.

(* lexer.go: Lexer.Reset, statement by statement (stream = nil and next = nil are the
   plumbing, see above) *)
Definition reset (s : lstate) : lstate :=
  set_ring (repeat 0 ring_size)
  (set_priori 0%nat
  (set_prevprevtok empty_token
  (set_prevtok empty_token
  (set_prevrune 0
  (set_buffer []
  (set_prebuiltin 0
  (set_linenum 1
  (set_state LNormal
  (set_tokens [] s))))))))).

(* lexer.go: AppendToken *)
Definition append_token (tok : token) (s : lstate) : lstate :=
  set_prevtok tok (set_prevprevtok (l_prevtok s) (set_tokens (l_tokens s ++ [tok]) s)).

Definition write_rune (r : Z) (s : lstate) : lstate := set_buffer (l_buffer s ++ [r]) s.
Definition write_runes (rs : list Z) (s : lstate) : lstate := set_buffer (l_buffer s ++ rs) s.

(* lexer.go: twoback — the rune before the current one (the current one is already in the ring) *)
Fixpoint upd_nth (n : nat) (v : Z) (l : list Z) : list Z :=
  match l, n with
  | [], _ => []
  | _ :: t, O => v :: t
  | h :: t, S m => h :: upd_nth m v t
  end.

Definition twoback (s : lstate) : Z :=
  nth ((l_priori s + (ring_size - 2)) mod ring_size)%nat (l_ring s) 0.

Definition ring_push (r : Z) (s : lstate) : lstate :=
  set_priori ((l_priori s + 1) mod ring_size)%nat (set_ring (upd_nth (l_priori s) r (l_ring s)) s).

(* ---- helpers on rune strings ---- *)

Fixpoint mem_z (c : Z) (l : list Z) : bool :=
  match l with [] => false | x :: t => (x =? c) || mem_z c t end.

Fixpoint list_eqb (a b : list Z) : bool :=
  match a, b with
  | [], [] => true
  | x :: a', y :: b' => (x =? y) && list_eqb a' b'
  | _, _ => false
  end.

Definition utf8_len (r : Z) : Z :=
  if r <? 128 then 1 else if r <? 2048 then 2 else if r <? 65536 then 3 else 4.

Fixpoint byte_len (s : list Z) : Z :=
  match s with [] => 0 | r :: t => utf8_len r + byte_len t end.

Definition last_rune (s : list Z) : Z := last s 0.

(* lexer.go: EscapeChar (table generated) *)
Fixpoint assoc_z (c : Z) (l : list (Z * Z)) : option Z :=
  match l with [] => None | (k, v) :: t => if k =? c then Some v else assoc_z c t end.
Definition escape_char (c : Z) : option Z := assoc_z c escape_table.

(* lexer.go: canStartSignedNumberAfter (set generated) *)
Definition can_start_signed_after (r : Z) : bool := mem_z r can_start_signed.

(* lexer.go: sliceBoundLiteralBeforeColon *)
Definition slice_bound (atom : list Z) : bool :=
  match atom with
  | 45 :: rest => if 1 <? byte_len atom then re_match re_SliceBoundsRegex rest
                  else re_match re_SliceBoundsRegex atom
  | _ => re_match re_SliceBoundsRegex atom
  end.

(* lexer.go: DecodeChar, on an atom that CharRegex accepted: quote, one or two runes, quote *)
Definition decode_char (atom : list Z) : option (list Z) :=
  match removelast (tl atom) with
  | [a] => Some [a]
  | [_; b] => match escape_char b with Some c => Some [c] | None => None end
  | _ => None
  end.

(* lexer.go: DecodeAtom.  atom is not empty.  None = error. *)
Definition decode_atom (atom0 : list Z) : option token :=
  let end_colon := last_rune atom0 =? 58 in
  let atom := if end_colon then removelast atom0 else atom0 in
  if list_eqb atom [38] then Some (mkTok TSymbol [38])                       (* ampersand *)
  else if list_eqb atom [92] then Some (mkTok TBackslash [])                (* backslash *)
  else if re_match re_BoolRegex atom then Some (mkTok TBool atom)
  else if re_match re_Uint64Regex atom then Some (mkTok TUint64 atom)
  else if re_match re_DecimalRegex atom then Some (mkTok TDecimal atom)
  else if re_match re_HexRegex atom then Some (mkTok THex (skipn 2 atom))
  else if re_match re_OctRegex atom then Some (mkTok TOct (skipn 2 atom))
  else if re_match re_BinaryRegex atom then Some (mkTok TBinary (skipn 2 atom))
  else if re_match re_FloatRegex atom then Some (mkTok TFloat atom)
  else if list_eqb atom [78; 97; 78] || list_eqb atom [110; 97; 110] then Some (mkTok TFloat [78; 97; 78])  (* NaN nan *)
  else if re_match re_InfRegex atom then Some (mkTok TFloat atom)
  else if re_match re_DotSymbolRegex atom then Some (mkTok TDotSymbol atom)
  else if re_match re_BuiltinOpRegex atom then Some (mkTok TSymbol atom)
  else if list_eqb atom [58] then Some (mkTok TSymbol atom)                 (* colon *)
  else if re_match re_SymbolRegex atom then
    (if end_colon then Some (mkTok TSymbolColon atom) else Some (mkTok TSymbol atom))
  else if re_match re_CharRegex atom then
    match decode_char atom with Some c => Some (mkTok TChar c) | None => None end
  else if end_colon then Some (mkTok TColonOperator [58])
  else None.

(* lexer.go: dumpBuffer.  None = error (the buffer is then left as it is) *)
Definition dump_buffer (s : lstate) : option lstate :=
  match l_buffer s with
  | [] => Some s
  | _ => match decode_atom (l_buffer s) with
         | Some tok => Some (append_token tok (set_buffer [] s))
         | None => None
         end
  end.

(* lexer.go: dumpComment / dumpString / dumpBacktickString *)
Definition dump_as (k : tkind) (s : lstate) : lstate :=
  append_token (mkTok k (l_buffer s)) (set_buffer [] s).

(* lexer.go: DecodeBrace *)
Definition decode_brace (r : Z) : token :=
  if r =? 40 then mkTok TLParen [] else if r =? 41 then mkTok TRParen []
  else if r =? 91 then mkTok TLSquare [] else if r =? 93 then mkTok TRSquare []
  else if r =? 123 then mkTok TLCurly [] else if r =? 125 then mkTok TRCurly []
  else mkTok TEnd [].

(* ---- LexNextRune ---- *)

Inductive lres : Type :=
| LOk (s : lstate)
| LErr (s : lstate).   (* LexNextRune returned an error; s = what it left behind *)

Definition with_dump (s : lstate) (k : lstate -> lres) : lres :=
  match dump_buffer s with Some s' => k s' | None => LErr s end.

(* the scientific-notation test of the '+' / '-' case: s[:ns-1] drops the last BYTE *)
Definition sci_prefix_ok (buf : list Z) : bool :=
  (1 <? byte_len buf) && (last_rune buf <? 128) &&
  (re_match re_DecimalRegex (removelast buf) || re_match re_FloatRegex (removelast buf)).

(* case LexerNormal *)
Definition lex_normal (s : lstate) (r : Z) : lres :=
  let op_case :=
    with_dump s (fun s1 =>
      LOk (set_prevrune r (set_prebuiltin (twoback s1) (set_state LBuiltinOperator s1)))) in
  if (r =? 43) || (r =? 45) then                                   (* + - *)
    let pr := twoback s in
    if ((pr =? 101) || (pr =? 69)) && sci_prefix_ok (l_buffer s) then LOk (write_rune r s)
    else op_case
  else if (r =? 42) || (r =? 60) || (r =? 62) || (r =? 61) || (r =? 33) || (r =? 38) || (r =? 124) then
    op_case                                                        (* * < > = ! & | *)
  else if r =? 47 then LOk (set_state LFirstFwdSlash s)            (* / *)
  else if r =? 96 then                                             (* backtick *)
    match l_buffer s with
    | [] => LOk (append_token (mkTok TBeginBacktickString []) (set_state LBacktickString s))
    | _ => LErr s
    end
  else if r =? 34 then                                             (* double quote *)
    match l_buffer s with [] => LOk (set_state LStrLit s) | _ => LErr s end
  else if r =? 39 then                                             (* single quote *)
    match l_buffer s with [] => LOk (set_state LRuneLit (write_rune r s)) | _ => LErr s end
  else if r =? 59 then with_dump s (fun s1 => LOk (append_token (mkTok TSemicolon [59]) s1))
  else if r =? 44 then with_dump s (fun s1 => LOk (append_token (mkTok TComma [44]) s1))
  else if r =? 58 then LOk (set_state LFreshAssignOrColon s)       (* : *)
  else if r =? 37 then                                             (* % *)
    match l_buffer s with [] => LOk (append_token (mkTok TQuote []) s) | _ => LErr s end
  else if r =? 94 then                                             (* ^ *)
    match l_buffer s with [] => LOk (append_token (mkTok TCaret []) s) | _ => LErr s end
  else if r =? 126 then                                            (* ~ *)
    match l_buffer s with [] => LOk (set_state LUnquote s) | _ => LErr s end
  else if (r =? 40) || (r =? 41) || (r =? 91) || (r =? 93) || (r =? 123) || (r =? 125) then
    with_dump s (fun s1 => LOk (append_token (decode_brace r) s1))
  else if r =? 10 then
    let s0 := set_linenum (l_linenum s + 1) s in
    with_dump s0 (fun s1 => LOk s1)
  else if (r =? 32) || (r =? 9) || (r =? 13) then with_dump s (fun s1 => LOk s1)
  else LOk (write_rune r s).

(* case LexerBuiltinOperator (falls into the normal case for a one-rune operator) *)
Definition lex_builtin (s0 : lstate) (r : Z) : lres :=
  let s := set_state LNormal s0 in
  let p := l_prevrune s in
  let atom := [p; r] in
  if (p =? 45) && can_start_signed_after (l_prebuiltin s) &&
     (re_match re_FloatRegex atom || re_match re_DecimalRegex atom)
  then LOk (write_runes atom s)
  else if re_match re_BuiltinOpRegex atom then
    let a := if list_eqb atom [38; 38] then [97; 110; 100]          (* && -> and *)
             else if list_eqb atom [124; 124] then [111; 114]       (* || -> or *)
             else atom in
    LOk (append_token (mkTok TSymbol a) s)
  else lex_normal (append_token (mkTok TSymbol [p]) s) r.

(* case LexerFirstFwdSlash *)
Definition lex_firstslash (s : lstate) (r : Z) : lres :=
  if r =? 47 then
    with_dump s (fun s1 => LOk (write_runes [47; 47] (set_state LCommentLine s1)))
  else if r =? 42 then
    with_dump s (fun s1 =>
      LOk (append_token (mkTok TBeginBlockComment []) (set_state LCommentBlock (write_runes [47; 42] s1))))
  else
    with_dump (set_prevrune 47 (set_state LBuiltinOperator s)) (fun s1 => lex_builtin s1 r).

(* case LexerFreshAssignOrColon *)
Definition lex_freshassign (s0 : lstate) (r : Z) : lres :=
  let s := set_state LNormal s0 in
  if r =? 61 then
    with_dump s (fun s1 => LOk (append_token (mkTok TFreshAssign [58; 61]) s1))
  else if slice_bound (l_buffer s) then
    with_dump s (fun s1 => lex_normal (append_token (mkTok TColonOperator [58]) s1) r)
  else
    with_dump (write_rune 58 s) (fun s1 => lex_normal s1 r).

(* lexer.go: LexNextRune *)
Definition lex_rune (s00 : lstate) (r : Z) : lres :=
  let s := ring_push r s00 in
  match l_state s with
  | LCommentBlock =>
      if r =? 10 then LOk (dump_as TComment (write_rune 10 s))
      else if r =? 42 then LOk (set_state LCommentBlockAsterisk s)
      else LOk (write_rune r s)
  | LCommentBlockAsterisk =>
      if r =? 47 then
        LOk (set_state LNormal (append_token (mkTok TEndBlockComment []) (dump_as TComment (write_runes [42; 47] s))))
      else if r =? 42 then LOk (write_rune 42 s)      (* another asterisk: stay in this mode *)
      else LOk (write_rune r (set_state LCommentBlock (write_rune 42 s)))
  | LFirstFwdSlash => lex_firstslash s r
  | LCommentLine =>
      if r =? 10 then LOk (set_state LNormal (dump_as TComment s))
      else LOk (write_rune r s)
  | LBacktickString =>
      if r =? 96 then LOk (set_state LNormal (dump_as TBacktickString s))
      else LOk (write_rune r s)
  | LStrLit =>
      if r =? 92 then LOk (set_state LStrEscaped s)
      else if r =? 34 then LOk (set_state LNormal (dump_as TString s))
      else LOk (write_rune r s)
  | LStrEscaped =>
      match escape_char r with
      | Some c => LOk (set_state LStrLit (write_rune c s))
      | None => LErr s
      end
  | LRuneLit =>
      if r =? 92 then LOk (set_state LRuneEscaped s)
      else if r =? 39 then
        (* the error of dumpBuffer is dropped here: the atom then stays in the buffer *)
        let s1 := write_rune r s in
        match dump_buffer s1 with
        | Some s2 => LOk (set_state LNormal s2)
        | None => LOk (set_state LNormal s1)
        end
      else LOk (write_rune r s)
  | LRuneEscaped =>
      match escape_char r with
      | Some c => LOk (set_state LRuneLit (write_rune c s))
      | None => LErr s
      end
  | LUnquote =>
      if r =? 64 then LOk (set_state LNormal (append_token (mkTok TTildeAt []) s))
      else lex_normal (set_state LNormal (append_token (mkTok TTilde []) s)) r
  | LFreshAssignOrColon => lex_freshassign s r
  | LBuiltinOperator => lex_builtin s r
  | LNormal => lex_normal s r
  end.

(* the lexer is a fold over the runes, stopping at the first error *)
Fixpoint lex_all (s : lstate) (text : list Z) : lres :=
  match text with
  | [] => LOk s
  | r :: rest => match lex_rune s r with
                 | LOk s' => lex_all s' rest
                 | LErr s' => LErr s'
                 end
  end.

(* lexer.go: inStringOrRune *)
Definition in_string_or_rune (s : lstate) : bool :=
  match l_state s with LStrLit | LStrEscaped | LRuneLit | LRuneEscaped => true | _ => false end.

Definition lres_state (x : lres) : lstate := match x with LOk s => s | LErr s => s end.
Definition lres_ok (x : lres) : bool := match x with LOk _ => true | LErr _ => false end.

(* tokens of a text lexed by a fresh lexer, and whether the lexer reported an error
   (what VerifLex of zygo/verif_c13.go returns) *)
Definition lex_text (text : list Z) : list token * bool :=
  let x := lex_all init_lstate text in (l_tokens (lres_state x), lres_ok x).
