(* C06, lexer half: the SPECIFICATION lexer.  It is LexNextRune of zygo/lexer.go with the look-back
   ring (Lexer.priorRune / priori / twoback) removed: every place where the Go code calls
   lexer.twoback() receives the TRUE previous rune of the text (0 at the start of a text), carried as
   an explicit argument.  Nothing here reads or writes l_priori / l_ring.
   Proofs/LexerRing.v proves that the real lexer (Model/Lexer.v, with the ring of size 20) produces
   exactly the tokens of this one for every text of every length. *)
From Coq Require Import ZArith List Bool.
From ZV Require Import Model.Regex Generated.LexTables Model.Lexer.
Import ListNotations.
Open Scope Z_scope.

(* lexer.go: LexNextRune, case LexerNormal; pr = the rune before r *)
Definition lexp_normal (pr : Z) (s : lstate) (r : Z) : lres :=
  let op_case :=
    with_dump s (fun s1 =>
      LOk (set_prevrune r (set_prebuiltin pr (set_state LBuiltinOperator s1)))) in
  if (r =? 43) || (r =? 45) then
    if ((pr =? 101) || (pr =? 69)) && sci_prefix_ok (l_buffer s) then LOk (write_rune r s)
    else op_case
  else if (r =? 42) || (r =? 60) || (r =? 62) || (r =? 61) || (r =? 33) || (r =? 38) || (r =? 124) then
    op_case
  else if r =? 47 then LOk (set_state LFirstFwdSlash s)
  else if r =? 96 then
    match l_buffer s with
    | [] => LOk (append_token (mkTok TBeginBacktickString []) (set_state LBacktickString s))
    | _ => LErr s
    end
  else if r =? 34 then
    match l_buffer s with [] => LOk (set_state LStrLit s) | _ => LErr s end
  else if r =? 39 then
    match l_buffer s with [] => LOk (set_state LRuneLit (write_rune r s)) | _ => LErr s end
  else if r =? 59 then with_dump s (fun s1 => LOk (append_token (mkTok TSemicolon [59]) s1))
  else if r =? 44 then with_dump s (fun s1 => LOk (append_token (mkTok TComma [44]) s1))
  else if r =? 58 then LOk (set_state LFreshAssignOrColon s)
  else if r =? 37 then
    match l_buffer s with [] => LOk (append_token (mkTok TQuote []) s) | _ => LErr s end
  else if r =? 94 then
    match l_buffer s with [] => LOk (append_token (mkTok TCaret []) s) | _ => LErr s end
  else if r =? 126 then
    match l_buffer s with [] => LOk (set_state LUnquote s) | _ => LErr s end
  else if (r =? 40) || (r =? 41) || (r =? 91) || (r =? 93) || (r =? 123) || (r =? 125) then
    with_dump s (fun s1 => LOk (append_token (decode_brace r) s1))
  else if r =? 10 then
    let s0 := set_linenum (l_linenum s + 1) s in
    with_dump s0 (fun s1 => LOk s1)
  else if (r =? 32) || (r =? 9) || (r =? 13) then with_dump s (fun s1 => LOk s1)
  else LOk (write_rune r s).

(* case LexerBuiltinOperator *)
Definition lexp_builtin (pr : Z) (s0 : lstate) (r : Z) : lres :=
  let s := set_state LNormal s0 in
  let p := l_prevrune s in
  let atom := [p; r] in
  if (p =? 45) && can_start_signed_after (l_prebuiltin s) &&
     (re_match re_FloatRegex atom || re_match re_DecimalRegex atom)
  then LOk (write_runes atom s)
  else if re_match re_BuiltinOpRegex atom then
    let a := if list_eqb atom [38; 38] then [97; 110; 100]
             else if list_eqb atom [124; 124] then [111; 114]
             else atom in
    LOk (append_token (mkTok TSymbol a) s)
  else lexp_normal pr (append_token (mkTok TSymbol [p]) s) r.

(* case LexerFirstFwdSlash *)
Definition lexp_firstslash (pr : Z) (s : lstate) (r : Z) : lres :=
  if r =? 47 then
    with_dump s (fun s1 => LOk (write_runes [47; 47] (set_state LCommentLine s1)))
  else if r =? 42 then
    with_dump s (fun s1 =>
      LOk (append_token (mkTok TBeginBlockComment []) (set_state LCommentBlock (write_runes [47; 42] s1))))
  else
    with_dump (set_prevrune 47 (set_state LBuiltinOperator s)) (fun s1 => lexp_builtin pr s1 r).

(* case LexerFreshAssignOrColon *)
Definition lexp_freshassign (pr : Z) (s0 : lstate) (r : Z) : lres :=
  let s := set_state LNormal s0 in
  if r =? 61 then
    with_dump s (fun s1 => LOk (append_token (mkTok TFreshAssign [58; 61]) s1))
  else if slice_bound (l_buffer s) then
    with_dump s (fun s1 => lexp_normal pr (append_token (mkTok TColonOperator [58]) s1) r)
  else
    with_dump (write_rune 58 s) (fun s1 => lexp_normal pr s1 r).

(* LexNextRune without the ring; pr = the rune before r in the text *)
Definition lexp_rune (pr : Z) (s : lstate) (r : Z) : lres :=
  match l_state s with
  | LCommentBlock =>
      if r =? 10 then LOk (dump_as TComment (write_rune 10 s))
      else if r =? 42 then LOk (set_state LCommentBlockAsterisk s)
      else LOk (write_rune r s)
  | LCommentBlockAsterisk =>
      if r =? 47 then
        LOk (set_state LNormal (append_token (mkTok TEndBlockComment []) (dump_as TComment (write_runes [42; 47] s))))
      else if r =? 42 then LOk (write_rune 42 s)
      else LOk (write_rune r (set_state LCommentBlock (write_rune 42 s)))
  | LFirstFwdSlash => lexp_firstslash pr s r
  | LCommentLine =>
      if r =? 10 then LOk (set_state LNormal (dump_as TComment s))
      else LOk (write_rune r s)
  | LBacktickString =>
      if r =? 96 then LOk (set_state LNormal (dump_as TBacktickString s))
      else LOk (write_rune r s)
  | LStrLit =>
      if r =? 92 then LOk (set_state LStrEscaped s)
      else if r =? 34 then LOk (set_state LNormal (dump_as TString s))
      else LOk (write_rune r s)
  | LStrEscaped =>
      match escape_char r with
      | Some c => LOk (set_state LStrLit (write_rune c s))
      | None => LErr s
      end
  | LRuneLit =>
      if r =? 92 then LOk (set_state LRuneEscaped s)
      else if r =? 39 then
        let s1 := write_rune r s in
        match dump_buffer s1 with
        | Some s2 => LOk (set_state LNormal s2)
        | None => LOk (set_state LNormal s1)
        end
      else LOk (write_rune r s)
  | LRuneEscaped =>
      match escape_char r with
      | Some c => LOk (set_state LRuneLit (write_rune c s))
      | None => LErr s
      end
  | LUnquote =>
      if r =? 64 then LOk (set_state LNormal (append_token (mkTok TTildeAt []) s))
      else lexp_normal pr (set_state LNormal (append_token (mkTok TTilde []) s)) r
  | LFreshAssignOrColon => lexp_freshassign pr s r
  | LBuiltinOperator => lexp_builtin pr s r
  | LNormal => lexp_normal pr s r
  end.

(* fold over the text; the previous rune is threaded explicitly *)
Fixpoint lexp_all (pr : Z) (s : lstate) (text : list Z) : lres :=
  match text with
  | [] => LOk s
  | r :: rest => match lexp_rune pr s r with
                 | LOk s' => lexp_all r s' rest
                 | LErr s' => LErr s'
                 end
  end.

Definition lexp_text (text : list Z) : list token * bool :=
  let x := lexp_all 0 init_lstate text in (l_tokens (lres_state x), lres_ok x).

(* the k-th look-back of the ring, k = 1 the rune pushed last (twoback = kback 2: lexer.go twoback
   is called after the current rune has been pushed) *)
Definition kback (k : nat) (s : lstate) : Z :=
  nth ((l_priori s + (ring_size - k)) mod ring_size)%nat (l_ring s) 0.

(* the true k-th previous rune of a text (0 before its start) *)
Definition true_back (k : nat) (text : list Z) : Z := nth (k - 1) (rev text) 0.

(* ---- observables for the runner: token kinds as numbers (position in zygo/lexer.go's TokenType
   list as mirrored by Lexer.tkind), so that the OCaml driver does not depend on constructor names ---- *)
Definition kind_code (k : tkind) : Z :=
  match k with
  | TEmpty => 0 | TLParen => 1 | TRParen => 2 | TLSquare => 3 | TRSquare => 4 | TLCurly => 5 | TRCurly => 6
  | TDot => 7 | TQuote => 8 | TBacktick => 9 | TTilde => 10 | TTildeAt => 11 | TSymbol => 12 | TBool => 13
  | TDecimal => 14 | THex => 15 | TOct => 16 | TBinary => 17 | TFloat => 18 | TChar => 19 | TString => 20
  | TCaret => 21 | TColonOperator => 22 | TThreadingOperator => 23 | TBackslash => 24 | TDollar => 25
  | TDotSymbol => 26 | TFreshAssign => 27 | TBeginBacktickString => 28 | TBacktickString => 29 | TComment => 30
  | TBeginBlockComment => 31 | TEndBlockComment => 32 | TSemicolon => 33 | TSymbolColon => 34 | TComma => 35
  | TUint64 => 36 | TEnd => 37
  end.

Definition obs_tokens (x : list token * bool) : list (Z * list Z) * bool :=
  (map (fun t => (kind_code (t_kind t), t_str t)) (fst x), snd x).
Definition lex_obs (text : list Z) := obs_tokens (lex_text text).      (* the model of the code *)
Definition lexp_obs (text : list Z) := obs_tokens (lexp_text text).    (* the ring-free specification *)
