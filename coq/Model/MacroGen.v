(* C15 -- how the code generator compiles a macro call: the expansion is compiled IN THE CALLER'S
   GENERATOR CONTEXT.  Executable Gallina only (proofs are in Proofs/MacroGenProofs.v).

   Mirrors (zygo/generator.go) Generate / GenerateCallBySymbol (dispatch on the head symbol, the
   macro branch, the self-tail-call branch, the ordinary call), GenerateBegin, GenerateLet (let and
   letseq), GenerateNewScope, GenerateForLoop (no label), GenerateBreak / GenerateContinue (no
   label), GenerateCond, GenerateDef (def / set of a symbol) -- as far as the instructions that
   move the SCOPE stack and the control context are concerned.  The model emits the projection of
   the real bytecode onto AddScope, RemoveScope, LoopStart, the loop's cleanup (ClearStackmark),
   Break, Continue (with scopesToPop), the self tail call (RemoveScope x (gen.scopes+1),
   PrepareCall, Goto 0) and CallExpr (callee, number of argument forms: call arguments are NOT
   compiled into this code, they are compiled at run time).

   A form outside the fragment (array / hash literal, another special form, a list whose head is
   not a symbol, a labelled loop ..) gives None: the theorems speak about Some results. *)
From Coq Require Import ZArith List Bool.
Require Import ZV.Model.Templ.
Import ListNotations.
Open Scope Z_scope.

(* head symbols of the fragment (numbered by the runner in this order, after unquote = 0 and
   unquote-splicing = 1) *)
Definition sym_begin : Z := 2.
Definition sym_let : Z := 3.
Definition sym_letseq : Z := 4.
Definition sym_newscope : Z := 5.
Definition sym_for : Z := 6.
Definition sym_break : Z := 7.
Definition sym_continue : Z := 8.
Definition sym_cond : Z := 9.
Definition sym_def : Z := 10.
Definition sym_set : Z := 11.

Inductive pinstr :=
| PAdd                          (* AddScopeInstr *)
| PRemove                       (* RemoveScopeInstr *)
| PLoop                         (* LoopStartInstr *)
| PLoopEnd                      (* ClearStackmarkInstr of the loop's cleanup *)
| PBreak (k : nat)              (* BreakInstr{scopesToPop: k} *)
| PContinue (k : nat)           (* ContinueInstr{scopesToPop: k} *)
| PTail (pops nargs : nat)      (* RemoveScope x pops; PrepareCall{self, nargs}; Goto 0 *)
| PCall (s : Z) (n : nat).      (* CallExprInstr{callee: symbol s, n argument forms} *)

(* what the Generator object carries at a call site: gen.scopes, gen.Tail, gen.funcname (and the
   arity under which a self call may become a jump), and the loops being compiled (the Go code
   keeps them on env.loopstack; innermost first; each with its scopeDepth) *)
Record gctx := {
  g_scopes : nat;
  g_tail : bool;
  g_fn : Z;
  g_nargs : nat;
  g_loops : list nat }.

Definition with_tail (c : gctx) (b : bool) : gctx :=
  {| g_scopes := g_scopes c; g_tail := b; g_fn := g_fn c; g_nargs := g_nargs c; g_loops := g_loops c |}.
Definition inc_scope (c : gctx) : gctx :=
  {| g_scopes := S (g_scopes c); g_tail := g_tail c; g_fn := g_fn c; g_nargs := g_nargs c; g_loops := g_loops c |}.
(* GenerateForLoop: Loop{scopeDepth: gen.scopes} pushed, gen.scopes++, sub-generators with Tail off *)
Definition enter_loop (c : gctx) : gctx :=
  {| g_scopes := S (g_scopes c); g_tail := false; g_fn := g_fn c; g_nargs := g_nargs c;
     g_loops := g_scopes c :: g_loops c |}.

Section Pieces.
  Variable g : gctx -> value -> option (list pinstr).

  (* GenerateBegin: all but the last form with Tail off, the last with the caller's Tail *)
  Fixpoint gen_begin (c : gctx) (l : list value) : option (list pinstr) :=
    match l with
    | [] => Some []
    | [e] => g c e
    | e :: r =>
        match g (with_tail c false) e with
        | Some a => match gen_begin c r with Some b => Some (a ++ b) | None => None end
        | None => None
        end
    end.

  (* every form in the same context *)
  Fixpoint gen_all (c : gctx) (l : list value) : option (list pinstr) :=
    match l with
    | [] => Some []
    | e :: r =>
        match g c e with
        | Some a => match gen_all c r with Some b => Some (a ++ b) | None => None end
        | None => None
        end
    end.

  (* GenerateCond: predicates with Tail off, bodies and the default with the caller's Tail;
     an even number of arguments = "missing default case" *)
  Fixpoint gen_cond (c : gctx) (l : list value) : option (list pinstr) :=
    match l with
    | [] => None
    | [d] => g c d
    | p :: b :: r =>
        match g (with_tail c false) p, g c b, gen_cond c r with
        | Some x, Some y, Some z => Some (x ++ y ++ z)
        | _, _, _ => None
        end
    end.
End Pieces.

(* the initialisers of a let binding vector [n1 e1 n2 e2 ..] (names must be symbols) *)
Fixpoint let_inits (b : list value) : option (list value) :=
  match b with
  | [] => Some []
  | VSym _ :: e :: r => match let_inits r with Some l => Some (e :: l) | None => None end
  | _ => None
  end.

Section Gen.
  (* the macro table: the expander of a macro maps the unevaluated argument forms to the
     expansion (run in the duplicate interpreter: Templ.expand_in) or fails *)
  Variable expander : Z -> option (list value -> option value).
  (* special forms of the real generator that are outside this fragment *)
  Variable other_special : Z -> bool.

  Fixpoint gen (fuel : nat) (c : gctx) (f : value) {struct fuel} : option (list pinstr) :=
    match fuel with
    | O => None
    | S n =>
        match f with
        | VInt _ | VSym _ | VStr _ => Some []                 (* a push / a variable reference *)
        | VList [] => Some []                                  (* nil *)
        | VList (VSym s :: args) =>
            if Z.eqb s sym_begin then gen_begin (gen n) c args
            else if Z.eqb s sym_let || Z.eqb s sym_letseq then
              match args with
              | VArr binds :: body =>
                  let c1 := inc_scope c in
                  match let_inits binds, body with
                  | _, [] => None
                  | Some inits, _ =>
                      match gen_all (gen n) (with_tail c1 false) inits, gen_begin (gen n) c1 body with
                      | Some a, Some b => Some (PAdd :: a ++ b ++ [PRemove])
                      | _, _ => None
                      end
                  | None, _ => None
                  end
              | _ => None
              end
            else if Z.eqb s sym_newscope then
              match args with
              | [] => Some []
              | _ =>
                  match gen_begin (gen n) (inc_scope c) args with
                  | Some b => Some (PAdd :: b ++ [PRemove])
                  | None => None
                  end
              end
            else if Z.eqb s sym_for then
              match args with
              | VArr [init; test; incr] :: body =>
                  let c1 := enter_loop c in
                  match gen n c1 init, gen n c1 incr, gen n c1 test, gen_begin (gen n) c1 body with
                  | Some i, Some u, Some t, Some b =>
                      Some (PLoop :: PAdd :: i ++ u ++ t ++ b ++ [PLoopEnd; PRemove])
                  | _, _, _, _ => None
                  end
              | _ => None
              end
            else if Z.eqb s sym_break then
              match args, g_loops c with
              | [], d :: _ => Some [PBreak (g_scopes c - S d)]
              | _, _ => None
              end
            else if Z.eqb s sym_continue then
              match args, g_loops c with
              | [], d :: _ => Some [PContinue (g_scopes c - S d)]
              | _, _ => None
              end
            else if Z.eqb s sym_cond then gen_cond (gen n) c args
            else if Z.eqb s sym_def || Z.eqb s sym_set then
              match args with
              | [VSym _; e] => gen n (with_tail c false) e
              | _ => None
              end
            else if other_special s then None
            else
              match expander s with
              | Some ex =>
                  (* GenerateCallBySymbol, macro branch: env.Duplicate(); expr := Apply(macro, args);
                     return gen.Generate(expr) -- the SAME generator *)
                  match ex args with
                  | Some e => gen n c e
                  | None => None
                  end
              | None =>
                  if g_tail c && Z.eqb s (g_fn c) && Nat.eqb (length args) (g_nargs c) then
                    match gen_all (gen n) (with_tail c false) args with
                    | Some a => Some (a ++ [PTail (S (g_scopes c)) (length args)])
                    | None => None
                    end
                  else Some [PCall s (length args)]
              end
        | _ => None
        end
    end.
End Gen.

(* ---------------------------------------------------------------- the scope discipline *)
(* Abstract execution of the projected code along its fall-through path: d = number of scopes
   opened since the function body started, L = for every loop entered and not yet left the value
   of d at its LoopStart.  A Break / Continue with scopesToPop = k must stand exactly k scopes
   above the loop's own scope (d = l + 1 + k): the jump target expects the loop's scope on top
   (the cleanup then removes it).  A self tail call must remove all d scopes and the function
   scope.  (C04's check_fn checks the same discipline on the complete real bytecode.) *)
Definition chk_step (st : nat * list nat) (i : pinstr) : option (nat * list nat) :=
  let '(d, L) := st in
  match i with
  | PAdd => Some (S d, L)
  | PRemove => match d with S d' => Some (d', L) | O => None end
  | PLoop => Some (d, d :: L)
  | PLoopEnd => match L with _ :: L' => Some (d, L') | [] => None end
  | PBreak k | PContinue k =>
      match L with
      | l :: _ => if Nat.eqb d (S l + k) then Some (d, L) else None
      | [] => None
      end
  | PTail pops _ => if Nat.eqb pops (S d) then Some (d, L) else None
  | PCall _ _ => Some (d, L)
  end.

Fixpoint chk (st : nat * list nat) (code : list pinstr) : option (nat * list nat) :=
  match code with
  | [] => Some st
  | i :: r => match chk_step st i with Some st' => chk st' r | None => None end
  end.

(* every enclosing loop was started strictly below the current scope depth (it opened its own
   scope).  GenerateFn starts a function body with scopes = 0 and -- at top level -- no loop. *)
Definition ctx_ok (c : gctx) : bool := forallb (fun l => Nat.ltb l (g_scopes c)) (g_loops c).

Definition fn_ctx (fn : Z) (nargs : nat) : gctx :=
  {| g_scopes := 0; g_tail := true; g_fn := fn; g_nargs := nargs; g_loops := [] |}.

(* ---------------------------------------------------------------- for the runner *)
(* template-bodied macros (defmac name [params] ^body) whose templates unquote parameters only *)
Definition tmacro := (Z * (list Z * value))%type.

Fixpoint find_macro (s : Z) (ms : list tmacro) : option (list Z * value) :=
  match ms with
  | [] => None
  | (k, m) :: r => if Z.eqb k s then Some m else find_macro s r
  end.

Definition expander_of (ms : list tmacro) (s : Z) : option (list value -> option value) :=
  match find_macro s ms with
  | Some (params, body) =>
      Some (fun args =>
              if Nat.eqb (length args) (length params)
              then macro_expand (fun _ => None) params args body else None)
  | None => None
  end.

(* the body of (defn fn [a1 .. an] body..) is compiled by GenerateBegin with Tail on *)
Definition gen_fn (fuel : nat) (ms : list tmacro) (special : Z -> bool) (fn : Z) (nargs : nat)
    (body : list value) : option (list pinstr) :=
  gen_begin (gen (expander_of ms) special fuel) (fn_ctx fn nargs) body.
