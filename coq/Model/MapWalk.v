(* C20 -- evaluation is deterministic.  Model of the walks over Go maps.

   Go randomises the order of `for k, v := range m`.  A walk is therefore modelled as a
   function of an explicit ORDER: a list of (key, value) pairs that is a permutation of the
   elements of the map (keys pairwise distinct).  The property "the result does not depend on
   the order" is a statement over all such lists (Proofs/MapWalkProofs.v).

   This file holds executable definitions only:
     - the record types of the generated census (Generated/Census.v),
     - one model per CLASS of walk body the census distinguishes,
     - the models of the walks that are order-dependent in the code as it is,
     - the coverage predicate site_ok and its hand-written lists (each entry with its reason). *)
From Coq Require Import String List Bool ZArith Arith.
Import ListNotations.
Open Scope string_scope.

(* ------------------------------------------------------------------------------------ *)
(* Census records (filled by translator/cmd/census)                                      *)

Inductive walk_class :=
| SortedAfter          (* collects into ONE slice whose next use is a sort.* call whose order is
                          the plain < on a string/integer that IS the walk key                  *)
| SortedCustomComparator (* sorted afterwards, but by a Less method / sort.Slice function that is
                          not literally x[i].F < x[j].F on the walk key: items may tie          *)
| CommutativeFill      (* only m2[k] = v, delete, numeric accumulation                          *)
| ExistsQuery          (* leaves only by `return <constants>`; no other effect                  *)
| EarlyExitFirstMatch  (* return / break / panic at the first element satisfying a condition    *)
| OrderObservable      (* prints, concatenates, appends without a sort, last-writer-wins        *)
| CallsOnly.           (* only hands each element to other functions                            *)

Record site := mkSite {
  s_file : string;      (* source file of package zygo                                         *)
  s_func : string;      (* enclosing function (Receiver.Method)                                *)
  s_idx  : nat;         (* ordinal of the walk among the map walks of that function            *)
  s_map  : string;      (* the expression ranged over                                          *)
  s_class : walk_class;
  s_keydirect : bool;   (* every fill uses exactly the walk's key variable as index (true if none) *)
  s_calls : list string (* functions/methods called inside the body (Go builtins excluded)     *)
}.

Record global_var := mkGlobal {
  g_file : string;
  g_name : string;
  g_type : string;
  g_writers : list string  (* functions other than init() that write it *)
}.

Definition class_eqb (a b : walk_class) : bool :=
  match a, b with
  | SortedAfter, SortedAfter | SortedCustomComparator, SortedCustomComparator | CommutativeFill, CommutativeFill | ExistsQuery, ExistsQuery
  | EarlyExitFirstMatch, EarlyExitFirstMatch | OrderObservable, OrderObservable | CallsOnly, CallsOnly => true
  | _, _ => false
  end.

Definition mem_str (x : string) (l : list string) : bool := existsb (String.eqb x) l.

(* ------------------------------------------------------------------------------------ *)
(* Models of the walk classes.  K, V: key and value types of the Go map.                 *)

Section Walks.
  Variables K V : Type.

  (* class SortedAfter: every element is turned into a sort item, the slice is sorted.
     environment.go:NewZlispWithFuncs, jsonmsgp.go:makeSortedSlicesFromMap, liner.go:init *)
  Definition sorted_walk {A : Type} (item : K * V -> A) (sort : list A -> list A) (order : list (K * V)) : list A :=
    sort (map item order).

  (* class CommutativeFill, the insertion form: target[keyf kv] = valf kv.
     Go maps as functions to option; the target starts as m0.
     hashutils.go:CopyMap/CloneFrom, scopes.go:CloneScope (keyf = the walk key itself) *)
  Variable K2 V2 : Type.
  Variable k2_eqb : K2 -> K2 -> bool.
  Definition fmap := K2 -> option V2.
  Definition fm_insert (m : fmap) (k : K2) (v : V2) : fmap := fun k' => if k2_eqb k k' then Some v else m k'.
  Definition fm_delete (m : fmap) (k : K2) : fmap := fun k' => if k2_eqb k k' then None else m k'.
  Definition fill_walk (keyf : K * V -> K2) (valf : K * V -> V2) (order : list (K * V)) (m0 : fmap) : fmap :=
    fold_left (fun m kv => fm_insert m (keyf kv) (valf kv)) order m0.
  Definition delete_walk (keyf : K * V -> K2) (order : list (K * V)) (m0 : fmap) : fmap :=
    fold_left (fun m kv => fm_delete m (keyf kv)) order m0.

  (* class CommutativeFill, the accumulation form (hashutils.go:HashCountKeys: num += len(arr)) *)
  Definition sum_walk (g : K * V -> Z) (order : list (K * V)) : Z :=
    fold_left (fun acc kv => (acc + g kv)%Z) order 0%Z.
  Definition count_walk (p : K * V -> bool) (order : list (K * V)) : nat :=
    fold_left (fun acc kv => if p kv then S acc else acc) order 0.
  Definition max_walk (g : K * V -> Z) (order : list (K * V)) (start : Z) : Z :=
    fold_left (fun acc kv => Z.max acc (g kv)) order start.

  (* class ExistsQuery: `for .. { if p { return c1 } } return c2` (hashutils.go:HashIsEmpty) *)
  Definition exists_walk (p : K * V -> bool) (order : list (K * V)) : bool := existsb p order.

  (* class EarlyExitFirstMatch: the first element (in walk order) satisfying p decides *)
  Definition first_match (p : K * V -> bool) (order : list (K * V)) : option (K * V) := find p order.
End Walks.

(* ------------------------------------------------------------------------------------ *)
(* Concrete instances used for non-vacuity and for the refutations.  Names are numbers.  *)

(* insertion sort on Z-keyed items; stable *)
Fixpoint zinsert {A} (key : A -> Z) (x : A) (l : list A) : list A :=
  match l with
  | [] => [x]
  | y :: t => if (key x <=? key y)%Z then x :: l else y :: zinsert key x t
  end.
Fixpoint zsort {A} (key : A -> Z) (l : list A) : list A :=
  match l with [] => [] | x :: t => zinsert key x (zsort key t) end.

(* environment.go:NewZlispWithFuncs and gotypereg.go:ImportBaseTypes as they are now: the names are sorted, then interned
   one after the other; the symbol number of a name is its position in the sorted slice
   (offset by the numbers already given out). *)
Fixpoint number_from {A} (next : nat) (l : list A) : list (A * nat) :=
  match l with [] => [] | x :: t => (x, next) :: number_from (S next) t end.
Definition intern_sorted (next : nat) (order : list (Z * Z)) : list (Z * nat) :=
  number_from next (zsort (fun n => n) (map fst order)).

(* class CallsOnly, as gotypereg.go:ImportBaseTypes was before its repair (commit 68948c0; it now
   sorts the names first, like NewZlispWithFuncs: intern_sorted): env.AddGlobal(e.RegisteredName, e)
   for each element IN WALK ORDER; AddGlobal interns the name, i.e. gives it the next symbol number. *)
Definition intern_in_walk_order (next : nat) (order : list (Z * Z)) : list (Z * nat) :=
  number_from next (map fst order).
Definition symnum_of (name : Z) (tbl : list (Z * nat)) : option nat :=
  option_map snd (find (fun e => Z.eqb (fst e) name) tbl).

(* hashutils.go:fillHashHelper and callgo.go:CallGoMethodFunction: scan the registry
   (name -> Go type) and take the name of the FIRST entry whose type is the wanted one.
   gotypereg.go:register stores every type under two names (registered and reflect name). *)
Definition registry_scan (order : list (Z * Z)) (ty : Z) : option Z :=
  option_map fst (first_match Z Z (fun kv => Z.eqb (snd kv) ty) order).

(* jsonmsgp.go:SexpToGoStructs, map-typed targets: m[string(key)] = val where the symbol a
   and the string "a" are DIFFERENT keys of the source hash but the same Go string. *)
Definition goname_fill (togo : Z -> Z) (order : list (Z * Z)) : Z -> option Z :=
  fill_walk Z Z Z Z Z.eqb (fun kv => togo (fst kv)) snd order (fun _ => None).

(* a sorted walk whose comparator folds keys together before comparing (e.g. a Less that
   compares strings.ToLower of the keys): distinct keys tie, the sort leaves them in walk order *)
Definition folded_sort_walk (fold : Z -> Z) (order : list (Z * Z)) : list (Z * Z) :=
  sorted_walk Z Z (fun kv => kv) (zsort (fun kv : Z * Z => fold (fst kv))) order.

(* scopes.go:Scope.Show: val.SexpString(ps) is evaluated IN WALK ORDER with a shared
   PrintState (a value already seen prints as nothing), the strings are sorted afterwards. *)
Definition show_walk (order : list (Z * Z)) : list (Z * Z) :=
  let step (st : list Z * list (Z * Z)) (kv : Z * Z) :=
    let '(seen, acc) := st in
    if existsb (Z.eqb (snd kv)) seen then (seen, (fst kv, 0%Z) :: acc)
    else (snd kv :: seen, (fst kv, snd kv) :: acc) in
  zsort fst (snd (fold_left step order ([], []))).

(* jsonmsgp.go:SexpToGoStructs record walk: the panic names the first field (in walk order)
   that the Go struct does not have. *)
Definition first_unknown_field (known : Z -> bool) (order : list (Z * Z)) : option Z :=
  option_map fst (first_match Z Z (fun kv => negb (known (fst kv))) order).

(* ------------------------------------------------------------------------------------ *)
(* Coverage of the generated census                                                      *)

(* callees inside a walk body that are known not to carry state from one element to the next.
   (empty: no proved-class site of the current census calls anything) *)
Definition pure_calls : list string := [].

Definition calls_pure (s : site) : bool := forallb (fun c => mem_str c pure_calls) (s_calls s).

(* a site is covered by a theorem when its class is one of the order-independent classes,
   its body calls nothing that could carry state, and (fills) the index is the walk key
   itself -- keys of one Go map are pairwise distinct, which is the hypothesis of
   commutative_fill_indep.  A fill under a DERIVED key needs injectivity and is not covered. *)
Definition class_proved (s : site) : bool :=
  match s_class s with
  | SortedAfter => calls_pure s
  | ExistsQuery => calls_pure s
  | CommutativeFill => calls_pure s && s_keydirect s
  | _ => false
  end.

Record listed := mkListed {
  l_file : string; l_func : string; l_idx : nat; l_map : string; l_class : walk_class;
  l_why : string  (* benign: why the order cannot be observed; known: the finding id *)
}.

Definition same_site (l : listed) (s : site) : bool :=
  String.eqb (l_file l) (s_file s) && String.eqb (l_func l) (s_func s) && Nat.eqb (l_idx l) (s_idx s)
  && String.eqb (l_map l) (s_map s) && class_eqb (l_class l) (s_class s).

(* walks whose order is observable in principle but not by a program, and sorted walks with a
   custom comparator whose items provably never tie (one line of reason each) *)
Definition benign_sites : list listed := [
  mkListed "environment.go" "Zlisp.DumpSymTable" 0 "env.symtable" OrderObservable
    "debugging dump for Go callers; no builtin, special form or REPL command reaches it";
  mkListed "printstate.go" "PrintState.Dump" 0 "ps.Seen" OrderObservable
    "debugging dump of pointers (%p) for Go callers; not reachable from a program";
  mkListed "functions.go" "MergeFuncMap" 0 "f" EarlyExitFirstMatch
    "the early exit is the duplicate-name panic; with a duplicate every construction of an interpreter panics, so in a working build it never fires and the rest is a fill under the walk key";
  mkListed "gotypereg.go" "GoStructRegistryType.EnvAvail" 0 "r.LazyFunc" CallsOnly
    "dead code: package zygo never calls EnvAvail nor LazyAddFunction";
  mkListed "builders.go" "SexpHash.valueStoredUnder" 0 "hash.Map" EarlyExitFirstMatch
    "lookup by key-OBJECT identity (pair.Head == key) for printing keys HashGet cannot compare: a key object is the Head of at most one stored pair (HashSet replaces the pair of an equal key, every insertion makes a new pair), so the first match is the only match (unique_match_indep); no match returns the constant SexpNull"
].

(* walks that ARE order-dependent in the code as it is: the known findings (KNOWN_FINDINGS.txt) *)
Definition known_nondeterministic : list listed := [
  mkListed "hashutils.go" "fillHashHelper" 0 "GoStructRegistry.Registry" EarlyExitFirstMatch "fillhash-first-registry-match";
  mkListed "callgo.go" "CallGoMethodFunction" 0 "GoStructRegistry.Registry" EarlyExitFirstMatch "callgo-first-registry-match";
  mkListed "jsonmsgp.go" "SexpToGo" 0 "e.Map" EarlyExitFirstMatch "togo-map-colliding-keys";
  mkListed "jsonmsgp.go" "SexpToGoStructs" 0 "src.Map" EarlyExitFirstMatch "togo-map-colliding-keys";
  mkListed "jsonmsgp.go" "SexpToGoStructs" 1 "src.Map" EarlyExitFirstMatch "togo-map-colliding-keys";
  mkListed "jsonmsgp.go" "SexpToGoStructs" 2 "src.Map" EarlyExitFirstMatch "togo-map-colliding-keys";
  mkListed "jsonmsgp.go" "SexpToGoStructs" 3 "src.Map" EarlyExitFirstMatch "togo-map-colliding-keys";
  mkListed "jsonmsgp.go" "SexpToGoStructs" 4 "src.Map" OrderObservable "togo-unknown-field-order";
  mkListed "scopes.go" "Scope.Show" 0 "scop.Map" SortedCustomComparator "scope-show-shared-printstate"
].

Definition site_ok (s : site) : bool :=
  class_proved s || existsb (fun l => same_site l s) benign_sites
  || existsb (fun l => same_site l s) known_nondeterministic.

Definition uncovered (census : list site) : list site := filter (fun s => negb (site_ok s)) census.

(* process-global mutable state *)
Record listed_global := mkListedGlobal { lg_name : string; lg_writers : list string; lg_why : string }.

Definition same_global (l : listed_global) (g : global_var) : bool :=
  String.eqb (lg_name l) (g_name g) && forallb (fun w => mem_str w (lg_writers l)) (g_writers g).

Definition benign_globals : list listed_global := [
  mkListedGlobal "arrayOp" ["Zlisp.InitInfixOps (store_always)"]
    "every interpreter construction stores, unconditionally, a value built from constants and function names only (the translator checks the shape of the store: theorem store_always_history_indep); never mutated afterwards.  A conditional store or a stored value that reads the interpreter (store_if_unset_refuted) changes the writer label and is rejected";
  mkListedGlobal "continuationPrompt" ["Prompter.getExpressionWithLiner (takes its address)"]
    "REPL prompt text (interactive line editor only)";
  mkListedGlobal "ShellCmd" ["SetShellCmd (store_conditional_or_dependent)"] "written only by the Go host API SetShellCmd";
  mkListedGlobal "Verbose" ["Repl (store_conditional_or_dependent)"] "debug switch of the interactive REPL";
  mkListedGlobal "precounts" ["CountPreHook"; "ReplMain (store_always)"] "call counters of the command-line flag -countfuncs";
  mkListedGlobal "postcounts" ["CountPostHook"; "ReplMain (store_always)"] "call counters of the command-line flag -countfuncs"
].

(* known finding registry-process-global: written by script-reachable builders *)
Definition known_global_leaks : list listed_global := [
  mkListedGlobal "GoStructRegistry"
    ["ArrayOfFunction (calls RegisterUserdef)"; "MakeHash (calls RegisterUserdef)";
     "NewSexpPointer (calls GetOrCreatePointerType)"; "PointerToFunction (calls GetOrCreatePointerType)";
     "RegisterDemoStructs (takes its address)"; "SexpArray.Type (calls GetOrCreateSliceType)";
     "SliceOfFunction (calls GetOrCreateSliceType)"; "StructBuilder (calls RegisterUserdef)";
     "Zlisp.ImportDemoData (calls RegisterUserdef)"]
    "registry-process-global";
  mkListedGlobal "ListRegisteredTypes" ["GoStructRegistryType.register (store_conditional_or_dependent)"] "registry-process-global"
].

Definition global_ok (g : global_var) : bool :=
  match g_writers g with [] => true | _ => false end
  || existsb (fun l => same_global l g) benign_globals
  || existsb (fun l => same_global l g) known_global_leaks.

Definition uncovered_globals (gs : list global_var) : list global_var := filter (fun g => negb (global_ok g)) gs.
