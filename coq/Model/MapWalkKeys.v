(* C20 -- evaluation is deterministic.  Executable model of the code that makes the order of a
   Go-map walk unobservable: the comparators, the sorts and the interning that follows them.

   Mirrors (package zygo):
     - Go's `<` on strings (runtime.cmpstring: bytewise lexicographic, a proper prefix is smaller)
       = the comparator of sort.Strings, jsonmsgp.go:KiSlice.Less, liner.go/scopes.go:SymtabSorter.Less;
     - sort.Sort / sort.Strings: modelled by an insertion sort over the comparator `less`
       (Proofs/MapWalkKeysProofs.v: EVERY correct sorting function returns the same slice when
       `less` is a strict total order on the items present, so the algorithm is immaterial);
     - jsonmsgp.go:makeSortedSlicesFromMap;
     - environment.go:MakeSymbol and environment.go:NewZlispWithFuncs (the interning part:
       null, nil, the builtin names in sorted order, the reserved words);
     - check.go: a Go map that is only indexed (submittedByName) = lookup in an association list.

   Executable definitions only.  Strings are byte lists (list Z, 0..255). *)
From Coq Require Import List Bool ZArith Arith.
Import ListNotations.

Definition gostr := list Z.

(* Go: a < b on strings *)
Fixpoint str_ltb (a b : gostr) : bool :=
  match a, b with
  | [], [] => false
  | [], _ :: _ => true
  | _ :: _, [] => false
  | x :: a', y :: b' => if (x <? y)%Z then true else if (y <? x)%Z then false else str_ltb a' b'
  end.

Fixpoint str_eqb (a b : gostr) : bool :=
  match a, b with
  | [], [] => true
  | x :: a', y :: b' => (x =? y)%Z && str_eqb a' b'
  | _, _ => false
  end.

(* sort.Sort(data) with data.Less(i, j) = less data[i] data[j] *)
Fixpoint less_insert {A} (less : A -> A -> bool) (x : A) (l : list A) : list A :=
  match l with
  | [] => [x]
  | y :: t => if less y x then y :: less_insert less x t else x :: l
  end.
Fixpoint less_sort {A} (less : A -> A -> bool) (l : list A) : list A :=
  match l with [] => [] | x :: t => less_insert less x (less_sort less t) end.

(* sort.Strings *)
Definition sort_strings (l : list gostr) : list gostr := less_sort str_ltb l.

(* jsonmsgp.go:makeSortedSlicesFromMap: `order` = the pairs in the order the walk delivers them *)
Definition key_less {V} (a b : gostr * V) : bool := str_ltb (fst a) (fst b).
Definition sorted_slices {V} (order : list (gostr * V)) : list (gostr * V) := less_sort key_less order.

(* a comparator that folds the key first (e.g. strings.ToLower): the class SortedCustomComparator *)
Definition folded_slices {V} (fold : gostr -> gostr) (order : list (gostr * V)) : list (gostr * V) :=
  less_sort (fun a b => str_ltb (fold (fst a)) (fold (fst b))) order.
Definition ascii_lower (s : gostr) : gostr :=
  map (fun c => if ((65 <=? c) && (c <=? 90))%Z then (c + 32)%Z else c) s.

(* ------------------------------------------------------------------------------------ *)
(* environment.go: symbol table.  symtable = association list (newest first); revsymtable is
   its inverse (the numbers in use); nextsymbol.                                          *)

Record symtab := mkSymtab { st_tbl : list (gostr * nat); st_next : nat }.

Definition st_lookup (name : gostr) (t : symtab) : option nat :=
  option_map snd (find (fun e => str_eqb (fst e) name) (st_tbl t)).
Definition st_used (n : nat) (tbl : list (gostr * nat)) : bool := existsb (fun e => Nat.eqb (snd e) n) tbl.

(* MakeSymbol: `for { _, used := env.revsymtable[env.nextsymbol]; if !used {break}; env.nextsymbol++ }` *)
Fixpoint skip_used (fuel n : nat) (tbl : list (gostr * nat)) : option nat :=
  match fuel with
  | O => None
  | S f => if st_used n tbl then skip_used f (S n) tbl else Some n
  end.

(* environment.go:MakeSymbol; None = out of fuel (never happens: Proofs, make_symbol_total) *)
Definition make_symbol (name : gostr) (t : symtab) : option (nat * symtab) :=
  match st_lookup name t with
  | Some n => Some (n, t)
  | None =>
    match skip_used (S (length (st_tbl t))) (st_next t) (st_tbl t) with
    | Some n => Some (n, mkSymtab ((name, n) :: st_tbl t) (S n))
    | None => None
    end
  end.

Fixpoint intern_all (names : list gostr) (t : symtab) : option symtab :=
  match names with
  | [] => Some t
  | x :: r => match make_symbol x t with Some (_, t') => intern_all r t' | None => None end
  end.

Definition s_null : gostr := [110; 117; 108; 108]%Z.
Definition s_nil : gostr := [110; 105; 108]%Z.

(* environment.go:NewZlispWithFuncs, the part that gives out symbol numbers:
     env.nextsymbol = 1; AddGlobal("null"); AddGlobal("nil");
     for key := range funcs { funcNames = append(funcNames, key) }; sort.Strings(funcNames);
     for _, key := range funcNames { env.MakeSymbol(key) ... }
     for _, word := range ReservedWords { env.MakeSymbol(word) }
   `order` = the funcs map in the order the walk delivers it. *)
Definition new_zlisp_symtab {V} (reserved : list gostr) (order : list (gostr * V)) : option symtab :=
  match intern_all [s_null; s_nil] (mkSymtab [] 1) with
  | Some t0 =>
    match intern_all (sort_strings (map fst order)) t0 with
    | Some t1 => intern_all reserved t1
    | None => None
    end
  | None => None
  end.

(* the same with the sort left out (what the function did before fix bba5318): walk order *)
Definition new_zlisp_symtab_unsorted {V} (reserved : list gostr) (order : list (gostr * V)) : option symtab :=
  match intern_all [s_null; s_nil] (mkSymtab [] 1) with
  | Some t0 =>
    match intern_all (map fst order) t0 with
    | Some t1 => intern_all reserved t1
    | None => None
    end
  | None => None
  end.

(* SPECIFICATION of the symbol number of a builtin, written without any order of presentation:
   null = 1, nil = 2, a builtin f gets 3 + the number of builtin names smaller than f. *)
Definition rank (x : gostr) (names : list gostr) : nat := length (filter (fun y => str_ltb y x) names).
Definition spec_builtin_symnum (funcs : list gostr) (f : gostr) : nat := 3 + rank f funcs.

(* observable used by the correspondence: the numbers of the queried names *)
Definition symnums (queries : list gostr) (t : option symtab) : list (option nat) :=
  match t with
  | Some t => map (fun q => st_lookup q t) queries
  | None => map (fun _ => None) queries
  end.

(* ------------------------------------------------------------------------------------ *)
(* A Go map that is only INDEXED, never ranged (check.go: submittedByName; the symtable itself):
   the representation order cannot matter.                                                *)
Definition assoc_lookup {V} (k : gostr) (order : list (gostr * V)) : option V :=
  option_map snd (find (fun e => str_eqb (fst e) k) order).

(* check.go:CallFunction-time named arguments ("all by name"): finalArgs[i] = submittedByName[declared_i] *)
Definition named_args_final {V} (declared : list gostr) (submitted : list (gostr * V)) : list (option V) :=
  map (fun d => assoc_lookup d submitted) declared.

Definition first_offender_walk_aux {V} (tyof : V -> Z) (declared : list (gostr * Z)) (submitted : list (gostr * V)) : option gostr :=
  option_map fst (find (fun sv => match assoc_lookup (fst sv) declared with
                                  | Some t => negb (Z.eqb (tyof (snd sv)) t)
                                  | None => false
                                  end) submitted).

(* check.go:FunctionCallNameTypeCheck, call by name, as it is: the arguments are PLACED first
   (finalArgs, declared order), then checked positionally; the error "type mismatch for parameter
   'p'" names the first DECLARED parameter whose argument has another type than declared.
   declared = (name, type code); tyof = the type code of a value. *)
Definition named_args_check {V} (tyof : V -> Z) (declared : list (gostr * Z)) (submitted : list (gostr * V))
  : gostr + list (option V) :=
  let final := named_args_final (map fst declared) submitted in
  match find (fun dv => match snd dv with
                        | Some v => negb (Z.eqb (tyof v) (snd (fst dv)))
                        | None => false
                        end) (combine declared final) with
  | Some (d, _) => inl (fst d)
  | None => inr final
  end.

(* the same check done while RANGING over the submitted map (first offender in walk order) *)
Definition named_args_check_in_walk_order {V} (tyof : V -> Z) (declared : list (gostr * Z)) (submitted : list (gostr * V))
  : option gostr :=
  first_offender_walk_aux tyof declared submitted.

(* ------------------------------------------------------------------------------------ *)
(* Walks that leave at the first offender (class EarlyExitFirstMatch): which offender is named
   depends on the order -- unless the keys are sorted first.  `first_offender_sorted` is the
   repaired shape (iterate sorted keys / KeyOrder), `first_offender_walk` the raw shape.     *)
Definition first_offender_walk {V} (bad : gostr * V -> bool) (order : list (gostr * V)) : option gostr :=
  option_map fst (find bad order).
Definition first_offender_sorted {V} (bad : gostr * V -> bool) (order : list (gostr * V)) : option gostr :=
  option_map fst (find bad (sorted_slices order)).

(* ------------------------------------------------------------------------------------ *)
(* Process-global state.  A package-level variable written while an interpreter is built is
   modelled as a cell; a construction of kind k (which builtin set / sandbox flag) reads the
   cell, writes it and returns what the new interpreter captured.
     store_always  : `arrayOp = &InfixOp{...}` in pratt.go:Zlisp.InitInfixOps -- every
                     construction stores a value that depends on nothing but the constructor;
     store_if_unset: `if cached == nil { cached = f(env) }` -- the lazily filled singleton
                     (the shape of the seeded defects C20-r3s1/r5s3), first writer wins.      *)
Definition store_always {K G} (val : K -> G) (g : option G) (k : K) : option G * G := (Some (val k), val k).
Definition store_if_unset {K G} (val : K -> G) (g : option G) (k : K) : option G * G :=
  match g with Some v => (g, v) | None => (Some (val k), val k) end.
(* the process history: interpreters of kinds h were built before; then one of kind k *)
Definition after_history {K G} (step : option G -> K -> option G * G) (h : list K) (k : K) : G :=
  snd (step (fold_left (fun g k' => fst (step g k')) h None) k).
