(* C11 model, msgpack route: the Go tree (interface{}) that JsonToGo / MsgpackToGo deliver, the
   msgpack writer as configured in zygo/jsonmsgp.go msgpackHelper.init (ugorji codec v1.2.12
   msgpack.go: EncodeInt with PositiveIntUnsigned=false, EncodeFloat64, EncodeString with
   WriteExt=true, writeContainerLen, Canonical = maps written in sorted key order), an INDEPENDENT
   reader of the msgpack format (every int/uint/str/array/map/float64 format of the specification,
   strict UTF-8 in str), and GoToSexp / decodeGoToSexpHelper on Go trees.
   Executable definitions only; proofs are in Proofs/MsgpackProofs.v. *)
From Coq Require Import ZArith List Bool.
Import ListNotations.
From ZV Require Import Model.Json.
Open Scope Z_scope.

(* interface{} over nil, bool, int64, float64 (IEEE bits), string (code points), []interface{},
   map[string]interface{} (a Go map has no order: kept as the association list sorted by key with
   distinct keys that go_map builds, which is also the order Canonical writes and
   makeSortedSlicesFromMap reads) *)
Inductive gtree :=
| GNil | GBool (b : bool) | GInt (z : Z) | GFloat (bits : Z) | GStr (s : list Z)
| GArr (l : list gtree) | GMap (ms : list (list Z * gtree)).

(* ---------------------------------------------------------------- big-endian integers *)
Fixpoint be (k : nat) (z : Z) : list Z :=            (* bigen.writeUintNN(uintNN(z)): two's complement *)
  match k with O => [] | S k' => be k' (z / 256) ++ [z mod 256] end.
Definition be_val (l : list Z) : Z := fold_left (fun a b => a * 256 + b) l 0.

(* ---------------------------------------------------------------- the writer *)
(* msgpack.go EncodeInt (PositiveIntUnsigned=false, NoFixedNum=false) *)
Definition mp_int (i : Z) : list Z :=
  if 127 <? i then
    (if i <=? 32767 then 209 :: be 2 i
     else if i <=? 2147483647 then 210 :: be 4 i
     else 211 :: be 8 i)
  else if -32 <=? i then [i mod 256]
  else if -128 <=? i then [208; i mod 256]
  else if -32768 <=? i then 209 :: be 2 i
  else if -2147483648 <=? i then 210 :: be 4 i
  else 211 :: be 8 i.

(* msgpack.go writeContainerLen with a msgpackContainerType {fixCutoff, bFixMin, b8, b16, b32} *)
Definition mp_len (fixcut fixmin b8 b16 b32 l : Z) : list Z :=
  if (0 <? fixcut) && (l <? fixcut) then [fixmin + l]
  else if (0 <? b8) && (l <? 256) then [b8; l]
  else if l <? 65536 then b16 :: be 2 l
  else b32 :: be 4 l.
Definition str_hdr (l : Z) : list Z := mp_len 32 160 217 218 219 l.   (* msgpackContainerStr *)
Definition arr_hdr (l : Z) : list Z := mp_len 16 144 0 220 221 l.     (* msgpackContainerList *)
Definition map_hdr (l : Z) : list Z := mp_len 16 128 0 222 223 l.     (* msgpackContainerMap *)

Definition utf8_bytes (s : list Z) : list Z := flat_map utf8_enc s.
Definition mp_str (s : list Z) : list Z :=
  let b := utf8_bytes s in str_hdr (Z.of_nat (length b)) ++ b.

(* GoToMsgpack: codec.NewEncoder(&w, &mh).Encode(&iface) *)
Fixpoint mp_bytes (g : gtree) : list Z :=
  match g with
  | GNil => [192]
  | GBool b => [if b then 195 else 194]
  | GInt z => mp_int z
  | GFloat bits => 203 :: be 8 bits
  | GStr s => mp_str s
  | GArr l => arr_hdr (Z.of_nat (length l)) ++ flat_map mp_bytes l
  | GMap ms => map_hdr (Z.of_nat (length ms))
               ++ flat_map (fun kx => match kx with (k, x) => mp_str k ++ mp_bytes x end) ms
  end.

(* ---------------------------------------------------------------- the independent reader *)
Definition cont (c : Z) : bool := (128 <=? c) && (c <? 192).

(* strict UTF-8: shortest forms only, no surrogates, at most U+10FFFF *)
Fixpoint utf8_dec (b : list Z) : option (list Z) :=
  match b with
  | [] => Some []
  | c :: r =>
    if (0 <=? c) && (c <? 128) then option_map (cons c) (utf8_dec r)
    else if (194 <=? c) && (c <? 224) then
      match r with
      | c1 :: r1 => if cont c1 then option_map (cons ((c - 192) * 64 + (c1 - 128))) (utf8_dec r1) else None
      | _ => None
      end
    else if (224 <=? c) && (c <? 240) then
      match r with
      | c1 :: c2 :: r2 =>
          let v := (c - 224) * 4096 + (c1 - 128) * 64 + (c2 - 128) in
          if cont c1 && cont c2 && (2048 <=? v) && negb ((55296 <=? v) && (v <? 57344))
          then option_map (cons v) (utf8_dec r2) else None
      | _ => None
      end
    else if (240 <=? c) && (c <? 245) then
      match r with
      | c1 :: c2 :: c3 :: r3 =>
          let v := (c - 240) * 262144 + (c1 - 128) * 4096 + (c2 - 128) * 64 + (c3 - 128) in
          if cont c1 && cont c2 && cont c3 && (65536 <=? v) && (v <=? 1114111)
          then option_map (cons v) (utf8_dec r3) else None
      | _ => None
      end
    else None
  end.

(* exactly n bytes *)
Definition take (n : Z) (s : list Z) : option (list Z * list Z) :=
  if Z.of_nat (length s) <? n then None
  else let k := Z.to_nat n in Some (firstn k s, skipn k s).

Definition take_be (k : Z) (s : list Z) : option (Z * list Z) :=
  match take k s with Some (b, r) => Some (be_val b, r) | None => None end.

(* an unsigned k-bit quantity read as two's complement *)
Definition signed (bits : Z) (v : Z) : Z := if v <? 2 ^ (bits - 1) then v else v - 2 ^ bits.

Definition read_str (n : Z) (s : list Z) : option (gtree * list Z) :=
  match take n s with
  | Some (b, r) => match utf8_dec b with Some t => Some (GStr t, r) | None => None end
  | None => None
  end.

Fixpoint read_items (rd : list Z -> option (gtree * list Z)) (k : nat) (s : list Z)
  : option (list gtree * list Z) :=
  match k with
  | O => Some ([], s)
  | S k' => match rd s with
            | Some (g, r) => match read_items rd k' r with
                             | Some (gs, r') => Some (g :: gs, r')
                             | None => None
                             end
            | None => None
            end
  end.

(* a map key must be a str *)
Fixpoint read_members (rd : list Z -> option (gtree * list Z)) (k : nat) (s : list Z)
  : option (list (list Z * gtree) * list Z) :=
  match k with
  | O => Some ([], s)
  | S k' => match rd s with
            | Some (GStr key, r) =>
                match rd r with
                | Some (g, r1) => match read_members rd k' r1 with
                                  | Some (ms, r2) => Some ((key, g) :: ms, r2)
                                  | None => None
                                  end
                | None => None
                end
            | _ => None
            end
  end.

(* every element takes at least one byte: a count above the remaining length is refused *)
Definition count_ok (n : Z) (s : list Z) : bool := n <=? Z.of_nat (length s).

(* one value whose first byte is c; rd reads the nested values (arrays and maps). float32, bin and
   ext formats are never written by the encoder under test and are refused. A map is delivered
   as Go builds it: later members of the same name replace earlier ones. *)
Definition mp_dispatch (rd : list Z -> option (gtree * list Z)) (c : Z) (r : list Z)
  : option (gtree * list Z) :=
  let arr (k : Z) (r : list Z) :=
    if count_ok k r then
      match read_items rd (Z.to_nat k) r with
      | Some (l, r') => Some (GArr l, r') | None => None end
    else None in
  let map (k : Z) (r : list Z) :=
    if count_ok k r then
      match read_members rd (Z.to_nat k) r with
      | Some (ms, r') => Some (GMap (go_map ms), r') | None => None end
    else None in
  let uint (k : Z) (r : list Z) :=
    match take_be k r with Some (v, r') => Some (GInt v, r') | None => None end in
  let sint (k : Z) (r : list Z) :=
    match take_be k r with Some (v, r') => Some (GInt (signed (8 * k) v), r') | None => None end in
  if c <? 0 then None
  else if c <? 128 then Some (GInt c, r)                 (* positive fixint *)
  else if c <? 144 then map (c - 128) r                  (* fixmap *)
  else if c <? 160 then arr (c - 144) r                  (* fixarray *)
  else if c <? 192 then read_str (c - 160) r             (* fixstr *)
  else if c =? 192 then Some (GNil, r)
  else if c =? 194 then Some (GBool false, r)
  else if c =? 195 then Some (GBool true, r)
  else if c =? 203 then match take_be 8 r with Some (v, r') => Some (GFloat v, r') | None => None end
  else if c =? 204 then uint 1 r
  else if c =? 205 then uint 2 r
  else if c =? 206 then uint 4 r
  else if c =? 207 then uint 8 r
  else if c =? 208 then sint 1 r
  else if c =? 209 then sint 2 r
  else if c =? 210 then sint 4 r
  else if c =? 211 then sint 8 r
  else if c =? 217 then match take_be 1 r with Some (l, r') => read_str l r' | None => None end
  else if c =? 218 then match take_be 2 r with Some (l, r') => read_str l r' | None => None end
  else if c =? 219 then match take_be 4 r with Some (l, r') => read_str l r' | None => None end
  else if c =? 220 then match take_be 2 r with Some (l, r') => arr l r' | None => None end
  else if c =? 221 then match take_be 4 r with Some (l, r') => arr l r' | None => None end
  else if c =? 222 then match take_be 2 r with Some (l, r') => map l r' | None => None end
  else if c =? 223 then match take_be 4 r with Some (l, r') => map l r' | None => None end
  else if (224 <=? c) && (c <? 256) then Some (GInt (c - 256), r)   (* negative fixint *)
  else None.

(* n is fuel = nesting depth (the length of the text suffices) *)
Fixpoint mp_read (n : nat) (s : list Z) : option (gtree * list Z) :=
  match n with
  | O => None
  | S n' => match s with [] => None | c :: r => mp_dispatch (mp_read n') c r end
  end.

(* a whole document: one value and nothing after it *)
Definition mp_decode (s : list Z) : option gtree :=
  match mp_read (S (length s)) s with Some (g, []) => Some g | _ => None end.

(* ---------------------------------------------------------------- domain predicates of the writer *)
Fixpoint ssorted (l : list (list Z)) : bool :=
  match l with [] => true | x :: r => forallb (str_ltb x) r && ssorted r end.

Definition u32 (n : nat) : bool := Z.of_nat n <? 4294967296.

(* what the writer can be handed: int64 integers, 64 float bits, strings of Unicode scalar values,
   lengths and counts below 2^32 (the format's limit), maps sorted by key with distinct keys *)
Fixpoint gt_ok (g : gtree) : bool :=
  match g with
  | GNil => true
  | GBool _ => true
  | GInt z => in_i64 z
  | GFloat b => (0 <=? b) && (b <? 18446744073709551616)
  | GStr s => str_valid s && u32 (length (utf8_bytes s))
  | GArr l => u32 (length l) && forallb gt_ok l
  | GMap ms => u32 (length ms) && ssorted (map fst ms)
               && forallb (fun kx => match kx with (k, x) =>
                                       str_valid k && u32 (length (utf8_bytes k)) && gt_ok x end) ms
  end.

Fixpoint gdepth (g : gtree) : nat :=
  match g with
  | GArr l => S (fold_right (fun x a => Nat.max (gdepth x) a) O l)
  | GMap ms => S (fold_right (fun kx a => match kx with (_, x) => Nat.max (gdepth x) a end) O ms)
  | _ => 1%nat
  end.

(* ---------------------------------------------------------------- JsonToGo and GoToSexp on Go trees *)
Fixpoint all_some {A : Type} (l : list (option A)) : option (list A) :=
  match l with
  | [] => Some []
  | Some x :: r => match all_some r with Some xs => Some (x :: xs) | None => None end
  | None :: _ => None
  end.

Section GoTree.
Variable pf : list Z -> Z.      (* the decoder's float parser (oracle, as in Model.Json) *)

(* JsonToGo after the RFC reader: numbers by num_value (SignedInteger), objects into a Go map.
   None = the decode fails (an integer token outside int64) *)
Fixpoint go_of_tree (t : jtree) : option gtree :=
  match t with
  | JNull => Some GNil
  | JBool b => Some (GBool b)
  | JNum tok => match num_value pf tok with
                | Ok (VInt z) => Some (GInt z)
                | Ok (VFloat _ b) => Some (GFloat b)
                | _ => None
                end
  | JStr s => Some (GStr s)
  | JArr l => match all_some (map go_of_tree l) with Some gs => Some (GArr gs) | None => None end
  | JObj ms =>
      match all_some (map (fun kt => match kt with (k, x) =>
                             match go_of_tree x with Some g => Some (k, g) | None => None end end) ms) with
      | Some l => Some (GMap (go_map l))
      | None => None
      end
  end.
End GoTree.

(* the elements of a decoded zKeyOrder: all strings (symbol names under preferSym) or not *)
Fixpoint g_strs (l : list gtree) : option (list (list Z)) :=
  match l with
  | [] => Some []
  | GStr s :: r => match g_strs r with Some ks => Some (s :: ks) | None => None end
  | _ :: _ => None
  end.

(* decodeGoToSexpHelper, case map[string]interface{}, on the sorted members with their decoded
   values: Atype is only type-asserted (never decoded); zKeyOrder that is not an array makes
   SetHashKeyOrder fail; an array with an entry that is not a string, or that does not list exactly
   the fields, leaves a hash whose KeyOrder and contents disagree *)
Definition build_hash_go (dm : list (list Z * (gtree * outcome))) : outcome :=
  if negb (forallb (fun e => str_eqb (fst e) s_Atype || is_ok (snd (snd e))) dm) then Crash else
  let tn := match lookup s_Atype dm with Some (GStr s, _) => s | _ => s_hash end in
  let pairs := flat_map (fun e => if is_reserved (fst e) then []
                                  else match snd (snd e) with Ok v => [(fst e, v)] | _ => [] end) dm in
  match lookup s_zKeyOrder dm with
  | None => Ok (VHash tn (map (fun kv => (KSym (fst kv), snd kv)) pairs))
  | Some (GArr l, _) =>
      match g_strs l with
      | None => Corrupt
      | Some names =>
          match restore names pairs with
          | Some fs => if Nat.eqb (length names) (length pairs) then Ok (VHash tn fs) else Corrupt
          | None => Corrupt
          end
      end
  | Some _ => Crash
  end.

(* GoToSexp *)
Fixpoint sexp_of_go (g : gtree) : outcome :=
  match g with
  | GNil => Ok VNil
  | GBool b => Ok (VBool b)
  | GInt z => Ok (VInt z)
  | GFloat b => Ok (VFloat false b)
  | GStr s => Ok (VStr false s)
  | GArr l => match all_ok (map sexp_of_go l) with Some vs => Ok (VArr vs) | None => Crash end
  | GMap ms => build_hash_go (map (fun kx => match kx with (k, x) => (k, (x, sexp_of_go x)) end) ms)
  end.

Section Routes.
Variable fmt : bool -> Z -> list Z.
Variable pf : list Z -> Z.

(* (msgpack v): SexpToMsgpack = SexpToJson, JsonToGo, GoToMsgpack; None = a panic *)
Definition msgpack_bytes (v : value) : option (list Z) :=
  match json_parse (to_json fmt v) with
  | Some t => match go_of_tree pf t with Some g => Some (mp_bytes g) | None => None end
  | None => None
  end.

(* (unmsgpack raw): MsgpackToGo, GoToSexp *)
Definition unmsgpack_bytes (b : list Z) : outcome :=
  match mp_decode b with Some g => sexp_of_go g | None => Crash end.

(* (unjson raw) as the code is factored: JsonToGo, GoToSexp *)
Definition unjson_go (s : list Z) : outcome :=
  match json_parse s with
  | Some t => match go_of_tree pf t with Some g => sexp_of_go g | None => Crash end
  | None => Crash
  end.

(* the Go tree a value must denote (numbers by value, members sorted by name) *)
Definition gtree_of (v : value) : option gtree := go_of_tree pf (tree_of fmt v).
End Routes.
