(* Model of zygo/comparisons.go (Compare on numbers, CompareFunction) and
   zygo/numerictower.go (NumericDo for + - * /).  Executable definitions only. *)
From Coq Require Import ZArith Bool List.
From Flocq Require Import Core.Core.
From Flocq Require Import IEEE754.BinarySingleNaN IEEE754.Binary IEEE754.Bits.
Import ListNotations.
Open Scope Z_scope.

Definition f64 := binary64.

(* --- machine integers, with the wrap written out --- *)
Definition two63 : Z := 9223372036854775808.
Definition two64 : Z := 18446744073709551616.
Definition wrap64 (z : Z) : Z := (z + two63) mod two64 - two63.     (* to int64  *)
Definition wrapu64 (z : Z) : Z := z mod two64.                      (* to uint64 *)
Definition wrap32 (z : Z) : Z := (z + 2147483648) mod 4294967296 - 2147483648. (* to rune *)
Definition in_i64 (z : Z) : bool := (- two63 <=? z) && (z <? two63).
Definition in_u64 (z : Z) : bool := (0 <=? z) && (z <? two64).
Definition in_i32 (z : Z) : bool := (- 2147483648 <=? z) && (z <? 2147483648).

(* --- numeric values of the language --- *)
Inductive num :=
| NInt (z : Z)      (* SexpInt, int64 *)
| NUint (z : Z)     (* SexpUint64 *)
| NChar (z : Z)     (* SexpChar, rune = int32 *)
| NFloat (f : f64). (* SexpFloat *)

Definition wf_num (n : num) : bool :=
  match n with
  | NInt z => in_i64 z | NUint z => in_u64 z | NChar z => in_i32 z | NFloat _ => true
  end.

(* --- float helpers --- *)
Definition fzero : f64 := B754_zero 53 1024 false.
Definition fsub (x y : f64) : f64 := b64_minus mode_NE x y.
Definition fadd (x y : f64) : f64 := b64_plus mode_NE x y.
Definition fmul (x y : f64) : f64 := b64_mult mode_NE x y.
Definition fdiv (x y : f64) : f64 := b64_div mode_NE x y.
Definition fcmp (x y : f64) : option comparison := b64_compare x y.
Definition is_nanb (x : f64) : bool :=
  match x with B754_nan _ _ _ _ _ => true | _ => false end.
(* Go's float64(int64) / float64(uint64): round to nearest even *)
Definition of_Z (z : Z) : f64 :=
  binary_normalize 53 1024 (eq_refl _) (eq_refl _) mode_NE z 0 false.

(* comparisons.go: signumFloat : f > 0 -> 1 ; f < 0 -> -1 ; else 0 (NaN gives 0) *)
Definition signum_float (d : f64) : Z :=
  match fcmp d fzero with Some Gt => 1 | Some Lt => -1 | _ => 0 end.
(* comparisons.go: cmpInt64 *)
Definition cmp_z (a b : Z) : Z :=
  if a >? b then 1 else if a <? b then -1 else 0.

Inductive res (A : Type) := Ok (a : A) | Err.
Arguments Ok {A}. Arguments Err {A}.

(* comparisons.go: compareFloat *)
Definition compare_float (f : f64) (e : num) : res Z :=
  match e with
  | NInt z => if is_nanb f then Ok 2 else Ok (signum_float (fsub f (of_Z z)))
  | NFloat g =>
      let c := (if is_nanb f then 1 else 0) + (if is_nanb g then 1 else 0) in
      if c >? 0 then Ok (1 + c) else Ok (signum_float (fsub f g))
  | NChar z => if is_nanb f then Ok 2 else Ok (signum_float (fsub f (of_Z z)))
  | NUint _ => Err
  end.
(* comparisons.go: compareInt *)
Definition compare_int (i : Z) (e : num) : res Z :=
  match e with
  | NInt z => Ok (cmp_z i z)
  | NFloat g => if is_nanb g then Ok 2 else Ok (signum_float (fsub (of_Z i) g))
  | NChar z => Ok (cmp_z i z)
  | NUint _ => Err
  end.
(* comparisons.go: compareChar *)
Definition compare_char (c : Z) (e : num) : res Z :=
  match e with
  | NInt z => Ok (cmp_z c z)
  | NFloat g => if is_nanb g then Ok 2 else Ok (signum_float (fsub (of_Z c) g))
  | NChar z => Ok (cmp_z c z)     (* signumInt(int64(c)-int64(e)): no overflow on int32 *)
  | NUint _ => Err
  end.
(* comparisons.go: compareUint64 *)
Definition compare_uint (u : Z) (e : num) : res Z :=
  match e with
  | NUint z => Ok (cmp_z u z)
  | _ => Err
  end.
(* comparisons.go: Compare, numeric cases *)
Definition compare (a b : num) : res Z :=
  match a with
  | NInt i => compare_int i b
  | NUint u => compare_uint u b
  | NChar c => compare_char c b
  | NFloat f => compare_float f b
  end.

Inductive cmpop := OpLt | OpGt | OpLe | OpGe | OpEq | OpNe.
(* functions.go: CompareFunction *)
Definition compare_function (op : cmpop) (a b : num) : res bool :=
  match compare a b with
  | Err => Err
  | Ok r =>
      if r >? 1 then Ok (match op with OpNe => true | _ => false end)
      else Ok (match op with
               | OpLt => r <? 0 | OpGt => r >? 0 | OpLe => r <=? 0
               | OpGe => r >=? 0 | OpEq => r =? 0 | OpNe => negb (r =? 0) end)
  end.

(* --- arithmetic: numerictower.go --- *)
Inductive arop := OpAdd | OpSub | OpMul | OpDiv.

Definition float_do (op : arop) (a b : f64) : f64 :=
  match op with OpAdd => fadd a b | OpSub => fsub a b | OpMul => fmul a b | OpDiv => fdiv a b end.

(* NumericIntDo; a panic (integer divide by zero) is Err: CallUserFunction recovers it *)
Definition int_do (op : arop) (a b : Z) : res num :=
  match op with
  | OpAdd => Ok (NInt (wrap64 (a + b)))
  | OpSub => Ok (NInt (wrap64 (a - b)))
  | OpMul => Ok (NInt (wrap64 (a * b)))
  | OpDiv =>
      if b =? 0 then Err
      else if Z.rem a b =? 0 then Ok (NInt (wrap64 (Z.quot a b)))
      else Ok (NFloat (fdiv (of_Z a) (of_Z b)))
  end.
Definition uint_do (op : arop) (a b : Z) : res num :=
  match op with
  | OpAdd => Ok (NUint (wrapu64 (a + b)))
  | OpSub => Ok (NUint (wrapu64 (a - b)))
  | OpMul => Ok (NUint (wrapu64 (a * b)))
  | OpDiv =>
      if b =? 0 then Err
      else if Z.rem a b =? 0 then Ok (NUint (Z.quot a b))
      else Ok (NFloat (fdiv (of_Z a) (of_Z b)))
  end.

Definition to_float (b : num) : f64 :=
  match b with NFloat g => g | NInt z => of_Z z | NUint z => of_Z z | NChar z => of_Z z end.

(* NumericMatchChar post-processing: an Int result becomes a Char (rune(int64)) *)
Definition char_post (r : res num) : res num :=
  match r with
  | Ok (NInt z) => Ok (NChar (wrap32 z))
  | Ok (NFloat g) => Ok (NFloat g)
  | Ok _ => Err
  | Err => Err
  end.

(* NumericDo *)
Definition numeric_do (op : arop) (a b : num) : res num :=
  match a with
  | NFloat f => Ok (NFloat (float_do op f (to_float b)))
  | NInt i =>
      match b with
      | NFloat g => Ok (NFloat (float_do op (of_Z i) g))
      | NInt j => int_do op i j
      | NUint u => uint_do op (wrapu64 i) u
      | NChar c => int_do op i c
      end
  | NUint u =>
      match b with
      | NFloat g => Ok (NFloat (float_do op (of_Z u) g))
      | NInt j => uint_do op u (wrapu64 j)
      | NUint v => uint_do op u v
      | NChar c => uint_do op u (wrapu64 c)
      end
  | NChar c =>
      match b with
      | NFloat g => Ok (NFloat (float_do op (of_Z c) g))
      | NInt j => char_post (int_do op c j)
      | NUint v => uint_do op (wrapu64 c) v
      | NChar d => char_post (int_do op c d)
      end
  end.

(* ------------------------------------------------------------------ *)
(* Specification side (what the property says), written independently. *)

(* exact order of two numbers as the property defines it: same-kind pairs by
   mathematical order; int/char vs float after conversion to float64; None = unordered *)
Definition spec_order (a b : num) : res (option comparison) :=
  match a, b with
  | NUint x, NUint y => Ok (Some (x ?= y))
  | NUint _, _ | _, NUint _ => Err
  | NFloat f, _ => Ok (fcmp f (to_float b))
  | _, NFloat g => Ok (fcmp (to_float a) g)
  | NInt x, NInt y | NInt x, NChar y | NChar x, NInt y | NChar x, NChar y => Ok (Some (x ?= y))
  end.

Definition spec_cmp (op : cmpop) (a b : num) : res bool :=
  match spec_order a b with
  | Err => Err
  | Ok None => Ok (match op with OpNe => true | _ => false end)
  | Ok (Some c) =>
      Ok (match op, c with
          | OpLt, Lt | OpGt, Gt | OpEq, Eq => true
          | OpLe, Lt | OpLe, Eq | OpGe, Gt | OpGe, Eq => true
          | OpNe, Lt | OpNe, Gt => true
          | _, _ => false end)
  end.

(* --- modulo: numerictower.go IntegerDo / UintegerDo with op = Modulo (the `mod` builtin).
   A Go integer division by zero panics; CallUserFunction recovers it: Err. --- *)
Definition imod (i j : Z) : res num := if j =? 0 then Err else Ok (NInt (Z.rem i j)).
Definition umod (u v : Z) : res num := if v =? 0 then Err else Ok (NUint (Z.rem u v)).
Definition mod_do (a b : num) : res num :=
  match a with
  | NFloat _ => Err                      (* WrongType *)
  | NUint u =>
      match b with
      | NFloat _ => Err
      | NUint v => umod u v
      | NInt j => umod u (wrapu64 j)
      | NChar c => umod u (wrapu64 c)
      end
  | NInt i | NChar i =>
      match b with
      | NFloat _ => Err
      | NUint v => umod (wrapu64 i) v
      | NInt j | NChar j => imod i j
      end
  end.

(* functions.go NumericFunction: (op a b c ...) folds NumericDo from the left over the arguments *)
Definition numeric_fold (op : arop) (args : list num) : res num :=
  match args with
  | [] => Err                               (* WrongNargs *)
  | a :: rest =>
      fold_left (fun acc x => match acc with Ok v => numeric_do op v x | Err => Err end) rest (Ok a)
  end.
