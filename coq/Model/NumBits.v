(* Model of the integer-only builtins: zygo/numerictower.go IntegerDo / UintegerDo
   (sll sra srl mod bitAnd bitOr bitXor), zygo/functions.go BinaryIntFunction,
   BitwiseFunction, ComplementFunction (bitNot).  Executable definitions only.
   Specification side (bit-by-bit loops, exact products/quotients) at the end. *)
From Coq Require Import ZArith Bool List.
Require Import ZV.Model.Num ZV.Model.NumSpec.
Import ListNotations.
Open Scope Z_scope.

(* numerictower.go: IntegerOp *)
Inductive intop := IShl | ISra | ISrl | IMod | IAnd | IOr | IXor.

(* --- Go shifts on 64-bit words.  The count is an unsigned 64-bit number; Go defines a
   shift by >= 64 as 0 (sign fill for an arithmetic right shift): the compiler emits the
   comparison with 64 that is written out here. --- *)
(* int64 << count *)
Definition shl_i64 (a c : Z) : Z := if c <? 64 then wrap64 (Z.shiftl a c) else 0.
(* int64 >> count (arithmetic) *)
Definition sra_i64 (a c : Z) : Z := if c <? 64 then Z.shiftr a c else if a <? 0 then -1 else 0.
(* int64(uint(a) >> count) *)
Definition srl_i64 (a c : Z) : Z := if c <? 64 then wrap64 (Z.shiftr (wrapu64 a) c) else 0.
(* uint64 << count, uint64 >> count *)
Definition shl_u64 (a c : Z) : Z := if c <? 64 then wrapu64 (Z.shiftl a c) else 0.
Definition shr_u64 (a c : Z) : Z := if c <? 64 then Z.shiftr a c else 0.

(* IntegerDo, both operands already int64 (SexpInt or int64(SexpChar)); the shift count is uint(ib.Val) *)
Definition int_integer_do (op : intop) (a b : Z) : res num :=
  match op with
  | IShl => Ok (NInt (shl_i64 a (wrapu64 b)))
  | ISra => Ok (NInt (sra_i64 a (wrapu64 b)))
  | ISrl => Ok (NInt (srl_i64 a (wrapu64 b)))
  | IMod => imod a b                       (* Go panics on b = 0; recovered by CallUserFunction: Err *)
  | IAnd => Ok (NInt (Z.land a b))
  | IOr  => Ok (NInt (Z.lor a b))
  | IXor => Ok (NInt (Z.lxor a b))
  end.

(* UintegerDo after the conversion of b to uint64 *)
Definition uint_integer_do (op : intop) (a b : Z) : res num :=
  match op with
  | IShl => Ok (NUint (shl_u64 a b))
  | ISra => Ok (NUint (shr_u64 a b))
  | ISrl => Ok (NUint (shr_u64 a b))
  | IMod => umod a b
  | IAnd => Ok (NUint (Z.land a b))
  | IOr  => Ok (NUint (Z.lor a b))
  | IXor => Ok (NUint (Z.lxor a b))
  end.

(* UintegerDo *)
Definition uinteger_do (op : intop) (u : Z) (b : num) : res num :=
  match b with
  | NUint v => uint_integer_do op u v
  | NInt j => uint_integer_do op u (wrapu64 j)
  | NChar c => uint_integer_do op u (wrapu64 c)
  | NFloat _ => Err                          (* WrongType *)
  end.

(* IntegerDo *)
Definition integer_do (op : intop) (a b : num) : res num :=
  match a with
  | NFloat _ => Err                          (* WrongType *)
  | NUint u => uinteger_do op u b
  | NInt i | NChar i =>
      match b with
      | NFloat _ => Err
      | NUint v => uinteger_do op (wrapu64 i) b
      | NInt j | NChar j => int_integer_do op i j
      end
  end.

(* functions.go ComplementFunction (bitNot): SexpInt -> ^v ; SexpChar -> ^rune ; anything else an error *)
Definition complement (a : num) : res num :=
  match a with
  | NInt z => Ok (NInt (Z.lnot z))
  | NChar z => Ok (NChar (Z.lnot z))
  | _ => Err
  end.

(* functions.go BinaryIntFunction (sll sra srl mod) and BitwiseFunction (bitAnd bitOr bitXor):
   exactly two arguments, otherwise WrongNargs; BitwiseFunction folds from the left over args[1:] *)
Definition int_function (op : intop) (args : list num) : res num :=
  match args with
  | [a; b] =>
      fold_left (fun acc x => match acc with Ok v => integer_do op v x | Err => Err end) [b] (Ok a)
  | _ => Err
  end.

(* ------------------------------------------------------------------ *)
(* Specification side, written independently of Z.land / Z.shiftl.     *)

(* one result bit per operand bit, n bits, least significant first: the unsigned number whose
   i-th bit (i < n) is f (bit i of a) (bit i of b) *)
Fixpoint bitw (f : bool -> bool -> bool) (n : nat) (a b : Z) : Z :=
  match n with
  | O => 0
  | S n' => Z.b2z (f (Z.odd a) (Z.odd b)) + 2 * bitw f n' (Z.div2 a) (Z.div2 b)
  end.
Definition bit_fun (op : intop) : option (bool -> bool -> bool) :=
  match op with IAnd => Some andb | IOr => Some orb | IXor => Some xorb | _ => None end.

(* signed / unsigned reading of a 64-bit pattern p in [0, 2^64) *)
Definition signed64 (p : Z) : Z := if p <? two63 then p else p - two64.
Definition pattern64 (z : Z) : Z := z mod two64.

(* exact value of an integer-only operation on int64 operands (count c = b mod 2^64 capped at 64:
   2^64 divides 2^c for every larger c) *)
Definition cap64 (c : Z) : Z := Z.min c 64.
Definition spec_int_int (op : intop) (a b : Z) : res Z :=
  match op with
  | IShl => Ok (signed64 (pattern64 (a * 2 ^ cap64 (pattern64 b))))
  | ISra => Ok (a / 2 ^ cap64 (pattern64 b))                      (* floor: rounds towards -infinity *)
  | ISrl => Ok (signed64 (pattern64 a / 2 ^ cap64 (pattern64 b)))
  | IMod => if b =? 0 then Err else Ok (a - b * Z.quot a b)       (* remainder of truncated division *)
  | IAnd => Ok (signed64 (bitw andb 64 a b))
  | IOr  => Ok (signed64 (bitw orb 64 a b))
  | IXor => Ok (signed64 (bitw xorb 64 a b))
  end.
Definition spec_uint_uint (op : intop) (a b : Z) : res Z :=
  match op with
  | IShl => Ok (pattern64 (a * 2 ^ cap64 b))
  | ISra | ISrl => Ok (a / 2 ^ cap64 b)
  | IMod => if b =? 0 then Err else Ok (a - b * (a / b))
  | IAnd => Ok (bitw andb 64 a b)
  | IOr  => Ok (bitw orb 64 a b)
  | IXor => Ok (bitw xorb 64 a b)
  end.

Definition lift_res (k : Z -> num) (r : res Z) : res num :=
  match r with Ok z => Ok (k z) | Err => Err end.

(* the property-level reading of (op a b) for the integer-only builtins: floats are a type
   error; a uint64 on either side makes the operation unsigned (the other side is taken by its
   64-bit pattern); otherwise it is an int64 operation (a char counts as its code point) *)
Definition spec_integer (op : intop) (a b : num) : res num :=
  match a, b with
  | NFloat _, _ | _, NFloat _ => Err
  | NUint u, NUint v => lift_res NUint (spec_uint_uint op u v)
  | NUint u, NInt j | NUint u, NChar j => lift_res NUint (spec_uint_uint op u (pattern64 j))
  | NInt i, NUint v | NChar i, NUint v => lift_res NUint (spec_uint_uint op (pattern64 i) v)
  | NInt i, NInt j | NInt i, NChar j | NChar i, NInt j | NChar i, NChar j =>
      lift_res NInt (spec_int_int op i j)
  end.

(* bitNot: -z-1 on int64 and on runes; not defined for uint64 / float *)
Definition spec_complement (a : num) : res num :=
  match a with
  | NInt z => Ok (NInt (- z - 1))
  | NChar z => Ok (NChar (- z - 1))
  | _ => Err
  end.

(* ---- n-ary folds: (op a1 ... an) with op in + - * on operands that are all int64 (all uint64)
   is the exact left fold over the integers, reduced to 64 bits once at the end ---- *)
Fixpoint all_ints (l : list num) : option (list Z) :=
  match l with
  | [] => Some []
  | NInt z :: t => match all_ints t with Some r => Some (z :: r) | None => None end
  | _ => None
  end.
Fixpoint all_uints (l : list num) : option (list Z) :=
  match l with
  | [] => Some []
  | NUint z :: t => match all_uints t with Some r => Some (z :: r) | None => None end
  | _ => None
  end.
(* functions.go PointerOrNumericFunction: "*" with ONE argument is the pointer-type / dereference
   operator (builders.go PointerToFunction), which rejects a number; with two or more it is NumericFunction *)
Definition is_ptr_form (op : arop) (args : list num) : bool :=
  match op, args with OpMul, [_] => true | _, _ => false end.
Definition numeric_builtin (op : arop) (args : list num) : res num :=
  if is_ptr_form op args then Err else numeric_fold op args.

Definition spec_fold (op : arop) (args : list num) : option (res num) :=
  if is_ptr_form op args then None else       (* not arithmetic: the property is silent *)
  match op with
  | OpDiv => None
  | _ =>
      match all_ints args with
      | Some (a :: l) => Some (Ok (NInt (signed64 (pattern64 (fold_left (exact_op op) l a)))))
      | _ =>
          match all_uints args with
          | Some (a :: l) => Some (Ok (NUint (pattern64 (fold_left (exact_op op) l a))))
          | _ => None
          end
      end
  end.
