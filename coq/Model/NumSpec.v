(* Independent arithmetic specification for C07 (what the property text says),
   used as the oracle of the violation search.  Executable only. *)
From Coq Require Import ZArith Bool.
From Flocq Require Import IEEE754.Binary IEEE754.Bits.
Require Import ZV.Model.Num.
Open Scope Z_scope.

(* the representative of z modulo 2^64 in the signed / unsigned 64-bit range *)
Definition norm_i64 (z : Z) : Z := let m := z mod two64 in if m <? two63 then m else m - two64.
Definition norm_u64 (z : Z) : Z := z mod two64.

Definition exact_op (op : arop) (a b : Z) : Z :=
  match op with OpAdd => a + b | OpSub => a - b | OpMul => a * b | OpDiv => a / b end.

(* Some r: the property fixes the result; None: the property does not speak about this combination *)
Definition spec_arith (op : arop) (a b : num) : option (res num) :=
  match a, b with
  | NInt x, NInt y =>
      match op with
      | OpDiv => if y =? 0 then Some Err
                 else if (x mod y =? 0) then Some (Ok (NInt (norm_i64 (x / y))))
                 else Some (Ok (NFloat (fdiv (of_Z x) (of_Z y))))
      | _ => Some (Ok (NInt (norm_i64 (exact_op op x y))))
      end
  | NUint x, NUint y =>
      match op with
      | OpDiv => if y =? 0 then Some Err
                 else if (x mod y =? 0) then Some (Ok (NUint (x / y)))
                 else Some (Ok (NFloat (fdiv (of_Z x) (of_Z y))))
      | _ => Some (Ok (NUint (norm_u64 (exact_op op x y))))
      end
  | NFloat f, NFloat g => Some (Ok (NFloat (float_do op f g)))
  | NFloat f, NInt y => Some (Ok (NFloat (float_do op f (of_Z y))))
  | NInt x, NFloat g => Some (Ok (NFloat (float_do op (of_Z x) g)))
  | NFloat f, NChar y => Some (Ok (NFloat (float_do op f (of_Z y))))
  | NChar x, NFloat g => Some (Ok (NFloat (float_do op (of_Z x) g)))
  | NFloat f, NUint y => Some (Ok (NFloat (float_do op f (of_Z y))))
  | NUint x, NFloat g => Some (Ok (NFloat (float_do op (of_Z x) g)))
  | _, _ =>
      (* other combinations: only "division by zero is an error" is specified *)
      match op, b with
      | OpDiv, NInt 0 | OpDiv, NUint 0 | OpDiv, NChar 0 => Some Err
      | _, _ => None
      end
  end.

(* modulo: the remainder of truncated division, r = a - b * (a quot b); zero divisor is an error;
   a float operand is a type error.  None where the property is silent (mixed signed/unsigned). *)
Definition spec_mod (a b : num) : option (res num) :=
  match a, b with
  | NFloat _, _ | _, NFloat _ => Some Err
  | NInt x, NInt y => if y =? 0 then Some Err else Some (Ok (NInt (x - y * Z.quot x y)))
  | NUint x, NUint y => if y =? 0 then Some Err else Some (Ok (NUint (x - y * (x / y))))
  | _, NInt 0 | _, NUint 0 | _, NChar 0 => Some Err
  | _, _ => None
  end.
