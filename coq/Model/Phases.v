(* Phases: the state an evaluation leaves behind at READ time, COMPILE time and RUN time, for C05.

   One load of a text goes through three phases, each with residual state that outlives the call:

   read     lexer.go: Lexer.stream / next / tokens, Reset, AddNextStream, PromoteNextStream,
            PeekNextToken, GetNextToken; parser.go: ResetAddNewInput, ParseTokens, ParseExpression,
            ParseList / ParseArray (on the token classes ( ) [ ] atom and "the lexer reports an error").
            After a hard error in the middle of a text the unread rest of the text stays in
            Lexer.stream, lexed tokens stay in Lexer.tokens.
   compile  generator.go: Generate dispatch (classify), GenerateBegin, GenerateDef, GenerateFn ->
            buildSexpFun, GenerateForLoop (env.GenSymbol; env.loopstack.Push; defer Pop),
            GenerateBreak / GenerateContinue (search of env.loopstack); environment.go:
            LoadExpressions (new Generator, PopInstr when pc is not at the end, the code is appended
            to env.mainfunc only when the whole text compiled).
   run      environment.go: Run (from env.pc to the end of the main buffer; on error
            restoreControlState and pc := functionSize), EvalString = LoadString + Run; the host
            function failk (raises on its k-th call).

   The run-time language is deliberately small (ints, false, globals, begin, def, failk, closures
   that are created but not called, for loops whose test is the literal false): the reference
   evaluator RefSem covers run-time semantics; this model is about what the phases leave behind.
   A construct outside it is the explicit poutcome OUnspec (the model declines), never a default.

   Also here: the memo cell of a lazy argument, expressions.go: SexpLazyArg.Force.

   Executable definitions only; proofs are in Proofs/PhasesProofs.v. *)
From Coq Require Import ZArith Bool List.
Import ListNotations.
Open Scope Z_scope.

(* ------------------------------------------------------------------ 1. read phase *)

(* what the lexer makes of the runes of a stream, one item per token; TBad = LexNextRune
   returns an error at this point (malformed atom, bad escape ..) *)
Inductive tok := TOpen | TClose | TLB | TRB | TAtom (a : Z) | TBad.

Definition tok_eqb (a b : tok) : bool :=
  match a, b with
  | TOpen, TOpen | TClose, TClose | TLB, TLB | TRB, TRB | TBad, TBad => true
  | TAtom x, TAtom y => Z.eqb x y
  | _, _ => false
  end.

Inductive pform := FAtom (a : Z) | FList (l : list pform) | FArr (l : list pform).

Record rstate := mkR {
  r_stream : option (list tok);   (* Lexer.stream: the unread rest of the current stream (None = nil) *)
  r_next : list (list tok);       (* Lexer.next: streams waiting behind it *)
  r_queue : list tok;             (* Lexer.tokens: lexed, not yet consumed *)
  r_susp : bool                   (* Parser.next / stop: a ParseTokens coroutine is still suspended *)
}.

Definition r_init : rstate := mkR None [] [] false.    (* NewParser / NewLexer *)

(* lexer.go: Lexer.Reset *)
Definition lex_reset (r : rstate) : rstate := mkR None [] [] (r_susp r).

(* parser.go: ResetAddNewInput, the part before AddNextStream: p.next = nil; stop(); lexer.Reset() *)
Definition parser_reset (r : rstate) : rstate :=
  let r1 := lex_reset r in mkR (r_stream r1) (r_next r1) (r_queue r1) false.

(* lexer.go: PromoteNextStream *)
Definition promote (r : rstate) : rstate :=
  match r_next r with
  | [] => r
  | s :: more => mkR (Some s) more (r_queue r) (r_susp r)
  end.

(* lexer.go: AddNextStream: the new stream waits behind input that is still available *)
Definition add_next_stream (s : list tok) (r : rstate) : rstate :=
  let r1 := mkR (r_stream r) (r_next r ++ [s]) (r_queue r) (r_susp r) in
  match r_stream r1 with
  | Some (_ :: _) => r1
  | _ => promote r1
  end.

Fixpoint pull_next (next : list (list tok)) : option (tok * list tok * list (list tok)) :=
  match next with
  | [] => None
  | s :: more => match s with
                 | t :: rest => Some (t, rest, more)
                 | [] => pull_next more
                 end
  end.

(* the next rune source: the current stream, then the promoted ones *)
Definition pull (cur : list tok) (next : list (list tok)) : option (tok * list tok * list (list tok)) :=
  match cur with
  | t :: rest => Some (t, rest, next)
  | [] => pull_next next
  end.

Inductive lexres := LTok | LEnd | LErr.

Definition set_queue (q : list tok) (r : rstate) : rstate := mkR (r_stream r) (r_next r) q (r_susp r).

(* lexer.go: PeekNextToken(0): make sure one token is queued *)
Definition peek (r : rstate) : lexres * rstate :=
  match r_queue r with
  | _ :: _ => (LTok, r)
  | [] =>
    match pull (match r_stream r with Some l => l | None => [] end) (r_next r) with
    | None => (LEnd, mkR (match r_stream r, r_next r with None, [] => None | _, _ => Some [] end) [] [] (r_susp r))
    | Some (TBad, rest, more) => (LErr, mkR (Some rest) more [] (r_susp r))
    | Some (t, rest, more) => (LTok, mkR (Some rest) more [t] (r_susp r))
    end
  end.

Inductive tokres := RTok (t : tok) | REnd | RErr.

(* lexer.go: GetNextToken *)
Definition get (r : rstate) : tokres * rstate :=
  match peek r with
  | (LTok, r1) => match r_queue r1 with
                  | t :: q => (RTok t, set_queue q r1)
                  | [] => (REnd, r1)
                  end
  | (LEnd, r1) => (REnd, r1)
  | (LErr, r1) => (RErr, r1)
  end.

Inductive pres (A : Type) := POk (x : A) | PErr | PFuel.
Arguments POk {A} x.
Arguments PErr {A}.
Arguments PFuel {A}.

(* parser.go: ParseExpression / ParseList / ParseArray.  A whole text is delivered (WholeText),
   so the end of the input inside a pform is an error. *)
Fixpoint parse_expr (n : nat) (r : rstate) {struct n} : pres pform * rstate :=
  match n with
  | O => (PFuel, r)
  | S n' =>
    match get r with
    | (RTok (TAtom a), r1) => (POk (FAtom a), r1)
    | (RTok TOpen, r1) =>
      match parse_seq n' TClose [] r1 with
      | (POk l, r2) => (POk (FList l), r2)
      | (PErr, r2) => (PErr, r2)
      | (PFuel, r2) => (PFuel, r2)
      end
    | (RTok TLB, r1) =>
      match parse_seq n' TRB [] r1 with
      | (POk l, r2) => (POk (FArr l), r2)
      | (PErr, r2) => (PErr, r2)
      | (PFuel, r2) => (PFuel, r2)
      end
    | (_, r1) => (PErr, r1)       (* stray closer, end of input, lexer error *)
    end
  end
with parse_seq (n : nat) (closer : tok) (acc : list pform) (r : rstate) {struct n} : pres (list pform) * rstate :=
  match n with
  | O => (PFuel, r)
  | S n' =>
    match peek r with
    | (LTok, r1) =>
      match r_queue r1 with
      | t :: q =>
        if tok_eqb t closer then (POk (rev acc), set_queue q r1)
        else match parse_expr n' r1 with
             | (POk f, r2) => parse_seq n' closer (f :: acc) r2
             | (PErr, r2) => (PErr, r2)
             | (PFuel, r2) => (PFuel, r2)
             end
      | [] => (PErr, r1)
      end
    | (_, r1) => (PErr, r1)
    end
  end.

(* parser.go: ParseTokens: expressions until the end of the input; the first error ends it *)
Fixpoint parse_tokens (n : nat) (acc : list pform) (r : rstate) : pres (list pform) * rstate :=
  match n with
  | O => (PFuel, r)
  | S n' =>
    match peek r with
    | (LEnd, r1) => (POk (rev acc), r1)
    | (LErr, r1) => (PErr, r1)
    | (LTok, r1) =>
      match parse_expr n' r1 with
      | (POk f, r2) => parse_tokens n' (f :: acc) r2
      | (PErr, r2) => (PErr, r2)
      | (PFuel, r2) => (PFuel, r2)
      end
    end
  end.

(* environment.go: LoadStream, first half: ResetAddNewInput(text); ParseTokens() *)
Definition read_text (n : nat) (text : list tok) (r : rstate) : pres (list pform) * rstate :=
  parse_tokens n [] (add_next_stream text (parser_reset r)).

(* the specification of reading: the forms of THIS text, computed from its tokens alone *)
Definition read_spec (n : nat) (text : list tok) : pres (list pform) := fst (read_text n text r_init).

(* ------------------------------------------------------------------ 2. compile phase *)

(* atoms: 0..99 int literals; 100.. the symbols the generator dispatches on; 200.. names *)
Definition a_for : Z := 100.
Definition a_break : Z := 101.
Definition a_continue : Z := 102.
Definition a_fn : Z := 103.
Definition a_begin : Z := 104.
Definition a_def : Z := 105.
Definition a_failk : Z := 106.
Definition a_false : Z := 107.
Definition a_let : Z := 108.
Definition is_name (a : Z) : bool := 200 <=? a.

Inductive cform :=
| CLit (v : Z)
| CFalse
| CVar (x : Z)
| CBad                       (* a malformed special pform: its generator returns an error before touching any state *)
| CUnspec                    (* outside this model *)
| CSeq (l : list cform)      (* begin *)
| CDef (x : Z) (e : cform)
| CFailk (e : cform)
| CFn (body : list cform)
| CFor (lbl : option Z) (init test step : cform) (body : list cform)
| CExit (lbl : option Z).    (* break / continue: the same compile-time treatment *)

(* generator.go: Generate / GenerateCall / GenerateCallBySymbol dispatch and the argument-shape
   tests the special-pform generators make before generating anything *)
Fixpoint classify (f : pform) : cform :=
  match f with
  | FAtom a => if a <? 100 then CLit a else if a =? a_false then CFalse else if is_name a then CVar a else CUnspec
  | FArr _ => CUnspec
  | FList [] => CUnspec
  | FList (FAtom h :: r) =>
    if h =? a_begin then match r with [] => CUnspec | _ => CSeq (map classify r) end
    else if h =? a_def then
      match r with
      | [FAtom x; e] => if is_name x then CDef x (classify e) else CUnspec
      | [_; _] => CUnspec
      | _ => CBad                                  (* GenerateDef: Wrong number of arguments *)
      end
    else if h =? a_failk then
      (* a call: the argument FORMS of a call are generated at run time (vm.go: CallExprInstr ->
         environment.go: PrepareCallExprArgs), so a nested form in argument position belongs to the
         run phase; this model has calls with atomic arguments only *)
      match r with [FAtom x as e] => CFailk (classify e) | _ => CUnspec end
    else if h =? a_fn then
      match r with
      | FArr [] :: (_ :: _) as body => CFn (map classify body)
      | FArr _ :: _ :: _ => CUnspec
      | _ => CBad                                  (* GenerateFn: malformed function definition / arguments must be in vector *)
      end
    else if h =? a_for then
      match r with
      | FArr [i; t; s] :: body => CFor None (classify i) (classify t) (classify s) (map classify body)
      | FAtom l :: FArr [i; t; s] :: body =>
        if is_name l then CFor (Some l) (classify i) (classify t) (classify s) (map classify body) else CUnspec
      | FList _ :: _ => CUnspec                     (* quoted label *)
      | _ => CBad                                  (* GenerateForLoop: every test it makes before GenSymbol / Push *)
      end
    else if (h =? a_break) || (h =? a_continue) then
      match r with
      | [] => CExit None
      | [FAtom l] => if is_name l then CExit (Some l) else CUnspec
      | [FList _] => CUnspec
      | _ => CBad                                  (* too many arguments / bad label *)
      end
    else if h =? a_let then
      match r with
      | FArr [_] :: _ => CBad                       (* uneven let binding list *)
      | _ => CUnspec
      end
    else CUnspec
  | FList _ => CUnspec
  end.

(* the compile-time state that lives in the interpreter (env), not in the Generator *)
Record cenv := mkC {
  c_loops : list (option Z);   (* env.loopstack: labels of the loops being generated, innermost first *)
  c_nextsym : nat              (* env.nextsymbol as advanced by GenSymbol("__loop") *)
}.

Inductive pval := PvInt (z : Z) | PvNil | PvFalse | PvFn.

Inductive instr :=
| IPush (v : pval)
| IPop
| IDef (x : Z)          (* DupInstr; PopStackPutEnvInstr *)
| ILook (x : Z)         (* EnvToStackInstr *)
| IFailk                (* CallInstr of the host function failk: returns its argument or raises *)
| IExit.                (* BreakInstr / ContinueInstr executed with no loop running: fails *)

Inductive gres := GOk (c : list instr) | GErr | GUnspec.

(* GenerateBreak / GenerateContinue: the innermost loop, or the innermost loop with that label *)
Definition opt_eqb (a b : option Z) : bool :=
  match a, b with Some x, Some y => Z.eqb x y | _, _ => false end.
Definition loop_visible (lbl : option Z) (loops : list (option Z)) : bool :=
  match lbl with
  | None => negb (match loops with [] => true | _ => false end)
  | Some _ => existsb (opt_eqb lbl) loops
  end.

Fixpoint has_def (f : cform) : bool :=
  match f with
  | CDef _ _ => true
  | CSeq l => existsb has_def l
  | CFailk e => has_def e
  | CFor _ _ _ _ _ => true
  | CExit _ => true        (* a continue in the init of its own loop jumps: declined *)
  | _ => false
  end.
Definition is_false (f : cform) : bool := match f with CFalse => true | _ => false end.

Definition pop_loop (ce : cenv) : cenv := mkC (tl (c_loops ce)) (c_nextsym ce).

Fixpoint gen (f : cform) (ce : cenv) {struct f} : gres * cenv :=
  (* GenerateBegin: the values of all statements but the last are popped *)
  let fix gen_list (l : list cform) (ce : cenv) {struct l} : gres * cenv :=
      match l with
      | [] => (GOk [IPush PvNil], ce)      (* an empty body still has a value *)
      | a :: r =>
        match gen a ce with
        | (GOk c1, ce1) =>
          match r with
          | [] => (GOk c1, ce1)
          | _ => match gen_list r ce1 with
                 | (GOk c2, ce2) => (GOk (c1 ++ IPop :: c2), ce2)
                 | o => o
                 end
          end
        | o => o
        end
      end in
  match f with
  | CLit v => (GOk [IPush (PvInt v)], ce)
  | CFalse => (GOk [IPush PvFalse], ce)
  | CVar x => (GOk [ILook x], ce)
  | CBad => (GErr, ce)
  | CUnspec => (GUnspec, ce)
  | CSeq l => gen_list l ce
  | CDef x e => match gen e ce with (GOk c, ce1) => (GOk (c ++ [IDef x]), ce1) | o => o end
  | CFailk e => match gen e ce with (GOk c, ce1) => (GOk (c ++ [IFailk]), ce1) | o => o end
  | CFn body =>
    (* buildSexpFun: a new Generator on the same env, so the loops being generated stay visible *)
    match gen_list body ce with (GOk _, ce1) => (GOk [IPush PvFn], ce1) | o => o end
  | CFor lbl init test step body =>
    (* GenSymbol; loopstack.Push(loop); defer loopstack.Pop(); body, init, test, step *)
    let ce1 := mkC (lbl :: c_loops ce) (S (c_nextsym ce)) in
    match gen_list body ce1 with
    | (GOk _, ce2) =>
      match gen init ce2 with
      | (GOk ci, ce3) =>
        match gen test ce3 with
        | (GOk _, ce4) =>
          match gen step ce4 with
          | (GOk _, ce5) =>
            ((if is_false test && negb (has_def init) then GOk (ci ++ [IPop; IPush PvNil]) else GUnspec), pop_loop ce5)
          | (o, ce5) => (o, pop_loop ce5)
          end
        | (o, ce4) => (o, pop_loop ce4)
        end
      | (o, ce3) => (o, pop_loop ce3)
      end
    | (o, ce2) => (o, pop_loop ce2)
    end
  | CExit lbl => ((if loop_visible lbl (c_loops ce) then GOk [IExit] else GErr), ce)
  end.

Fixpoint gen_list (l : list cform) (ce : cenv) : gres * cenv :=
  match l with
  | [] => (GOk [IPush PvNil], ce)
  | a :: r =>
    match gen a ce with
    | (GOk c1, ce1) =>
      match r with
      | [] => (GOk c1, ce1)
      | _ => match gen_list r ce1 with
             | (GOk c2, ce2) => (GOk (c1 ++ IPop :: c2), ce2)
             | o => o
             end
      end
    | o => o
    end
  end.

(* ------------------------------------------------------------------ 3. run phase *)

Inductive rerr := XUser | XUnbound | XExit | XStack.

Record mstate := mkM {
  m_defs : list (Z * pval);   (* the global scope, most recent definition first *)
  m_ctr : nat;               (* calls of failk so far *)
  m_data : list pval          (* env.datastack *)
}.

Fixpoint plookup (x : Z) (d : list (Z * pval)) : option pval :=
  match d with
  | [] => None
  | (y, v) :: r => if Z.eqb x y then Some v else plookup x r
  end.

(* one instruction; failk raises on call number k (k = 0: never) *)
Definition exec_instr (k : nat) (i : instr) (m : mstate) : option rerr * mstate :=
  match i with
  | IPush v => (None, mkM (m_defs m) (m_ctr m) (v :: m_data m))
  | IPop => match m_data m with
            | _ :: d => (None, mkM (m_defs m) (m_ctr m) d)
            | [] => (Some XStack, m)
            end
  | IDef x => match m_data m with
              | v :: _ => (None, mkM ((x, v) :: m_defs m) (m_ctr m) (m_data m))
              | [] => (Some XStack, m)
              end
  | ILook x => match plookup x (m_defs m) with
               | Some v => (None, mkM (m_defs m) (m_ctr m) (v :: m_data m))
               | None => (Some XUnbound, m)
               end
  | IFailk => let m1 := mkM (m_defs m) (S (m_ctr m)) (m_data m) in
              if Nat.eqb (S (m_ctr m)) k then (Some XUser, m1) else (None, m1)
  | IExit => (Some XExit, m)
  end.

Fixpoint run_code (k : nat) (c : list instr) (m : mstate) : option rerr * mstate :=
  match c with
  | [] => (None, m)
  | i :: r => match exec_instr k i m with
              | (None, m1) => run_code k r m1
              | o => o
              end
  end.

(* ------------------------------------------------------------------ 4. the interpreter across loads *)

Record istate := mkI {
  i_rd : rstate;
  i_ce : cenv;
  i_buf : list instr;     (* env.mainfunc.fun *)
  i_pc : nat;             (* env.pc (curfunc = mainfunc between loads) *)
  i_m : mstate
}.

Definition i_init : istate := mkI r_init (mkC [] 0) [] 0 (mkM [] 0 []).

Inductive poutcome :=
| OVal (v : pval)
| OReadErr | OCompileErr | ORunErr (e : rerr)
| OUnspec | OFuel.

(* stack.go: TruncateToSize as used by restoreControlState on the data stack *)
Definition trunc_data (n : nat) (d : list pval) : list pval := skipn (length d - n) d.

(* environment.go: EvalString = LoadString (LoadStream: read; LoadExpressions: compile, append) ; Run *)
Definition load (n k : nat) (text : list tok) (st : istate) : poutcome * istate :=
  match read_text n text (i_rd st) with
  | (PFuel, rd) => (OFuel, mkI rd (i_ce st) (i_buf st) (i_pc st) (i_m st))
  | (PErr, rd) => (OReadErr, mkI rd (i_ce st) (i_buf st) (i_pc st) (i_m st))
  | (POk forms, rd) =>
    match gen_list (map classify forms) (i_ce st) with
    | (GErr, ce) => (OCompileErr, mkI rd ce (i_buf st) (i_pc st) (i_m st))
    | (GUnspec, ce) => (OUnspec, mkI rd ce (i_buf st) (i_pc st) (i_m st))
    | (GOk code, ce) =>
      (* LoadExpressions: PopInstr first when the previous code was not run to its end *)
      let code1 := if Nat.ltb (i_pc st) (length (i_buf st)) then IPop :: code else code in
      let buf := i_buf st ++ code1 in
      let depth := length (m_data (i_m st)) in
      match run_code k (skipn (i_pc st) buf) (i_m st) with
      | (None, m1) =>
        (* Run: the result is popped (null when the stack is empty) *)
        (OVal (match m_data m1 with v :: _ => v | [] => PvNil end),
         mkI rd ce buf (length buf) (mkM (m_defs m1) (m_ctr m1) (tl (m_data m1))))
      | (Some e, m1) =>
        (* Run: restoreControlState(runState); pc = functionSize(curfunc) *)
        (ORunErr e, mkI rd ce buf (length buf) (mkM (m_defs m1) (m_ctr m1) (trunc_data depth (m_data m1))))
      end
    end
  end.

Fixpoint psession (n k : nat) (texts : list (list tok)) (st : istate) : list poutcome * istate :=
  match texts with
  | [] => ([], st)
  | t :: r => let (o, st1) := load n k t st in
              let (os, st2) := psession n k r st1 in
              (o :: os, st2)
  end.

(* what "at rest" means for this state *)
Definition at_restb (st : istate) : bool :=
  match c_loops (i_ce st), m_data (i_m st) with
  | [], [] => Nat.eqb (i_pc st) (length (i_buf st))
  | _, _ => false
  end.

(* what the harness observes after every text: at rest?, loop-stack depth, data-stack depth *)
Definition observe_rest (st : istate) : bool * nat * nat :=
  (at_restb st, length (c_loops (i_ce st)), length (m_data (i_m st))).

Fixpoint psession_obs (n k : nat) (texts : list (list tok)) (st : istate) : list (poutcome * (bool * nat * nat)) :=
  match texts with
  | [] => []
  | t :: r => let (o, st1) := load n k t st in (o, observe_rest st1) :: psession_obs n k r st1
  end.

(* ------------------------------------------------------------------ 5. the memo cell of a lazy argument *)

(* expressions.go: SexpLazyArg{Expr, Forced, Value} *)
Record thunk := mkT { t_forced : bool; t_value : pval; t_code : list instr }.

(* SexpLazyArg.Force: a forced cell answers from the memo; otherwise the expression is run as a
   function of its own between captureControlState and restoreControlState, and the cell is
   marked forced only AFTER a successful run *)
Definition force (k : nat) (t : thunk) (m : mstate) : (option rerr * pval) * thunk * mstate :=
  if t_forced t then ((None, t_value t), t, m)
  else
    let depth := length (m_data m) in
    match run_code k (t_code t) m with
    | (Some e, m1) => ((Some e, PvNil), t, mkM (m_defs m1) (m_ctr m1) (trunc_data depth (m_data m1)))
    | (None, m1) =>
      let v := match m_data m1 with v :: _ => v | [] => PvNil end in
      ((None, v), mkT true v (t_code t), mkM (m_defs m1) (m_ctr m1) (trunc_data depth (m_data m1)))
    end.
