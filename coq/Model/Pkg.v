(* C18 model: package values (scope stacks flagged IsPackage), dot-path walks, privacy check.
   Executable Gallina only (proofs are in Proofs/PkgProofs.v).

   Go code mirrored (package zygo, as of the current tree):
     functions.go  errIfPrivate, dotGetSetHelper
     stack.go      Stack.nestedPathGetSet            (top-down walk over package stacks)
     hashutils.go  SexpHash.nestedPathGetSet, HashGet/HashSet on symbol keys
     scopes.go     Stack.lookupSymbol (top scope first), Stack.BindSymbol (top scope)
     environment.go LexicalLookupSymbol (frame, then captured scopes of the closure)
     vm.go         PopScopeTransferToDataStackInstr (package = clone of the scope stack),
     closing.go    NewClosing (closure = clone of the scope stack at definition)
   Objects that Go shares by pointer (scopes, hashes) live in a heap and are referred
   to by index, so aliases and the enclosing-scope chain of nested packages are exact. *)
From Coq Require Import ZArith List Bool.
Import ListNotations.
Open Scope Z_scope.

Definition name := list Z.          (* runes of a path part, without the dot *)

Fixpoint name_eqb (a b : name) : bool :=
  match a, b with
  | [], [] => true
  | x :: a', y :: b' => Z.eqb x y && name_eqb a' b'
  | _, _ => false
  end.

(* bodies of the functions the harness defines inside packages *)
Inductive fbody :=
| BGet (n : name)            (* (defn f [..] n)            plain symbol *)
| BSet (n : name)            (* (defn f [v ..] (set n v))  plain symbol, first parameter *)
| BDot (p : list name)       (* (defn f [..] (let [t a.b.c] t)) dot path read from inside *)
| BDotSet (p : list name)    (* (defn f [v ..] (set a.b.c v))   dot path write from inside, first parameter *)
| BDotCall (p : list name) (cargs : list Z)
| BClear (n : name).         (* (defn f [..] (set n nil))     plain symbol set back to nil *)  (* (defn f [..] (a.b.F cargs)) call through a dot path from inside *)

Inductive val :=
| VNull
| VInt (z : Z)
| VFun (fname : name) (params : list name) (body : fbody) (clos : list nat)
| VHash (id : nat)
| VStack (ispkg : bool) (pname : name) (scopes : list nat).   (* top scope first *)

Inductive obj :=
| OScope (m : list (name * val))
| OHash (m : list (name * val)).

Definition heap := list obj.

Inductive err :=
| EPriv (member pkg : name)   (* "Cannot access private member 'm' of package 'p'" *)
| ENotFoundSym                (* first key: "symbol `x` not found" *)
| ENotFoundPkg                (* "could not find symbol 'x' in current package" *)
| ENotFoundHash               (* "hash has no field" *)
| ENotRec                     (* "not a record (or scope): cannot get field" *)
| ENotPkg                     (* "current Stack is not a package" *)
| ENotFun                     (* call through a path that is not a function (harness never does) *)
| EInternal                   (* zero-length path *)
| ECrash                      (* Go panic: []rune("")[0] *)
| EFuel.

Inductive res (A : Type) :=
| Ok (a : A)
| Err (e : err).
Arguments Ok {A} a.
Arguments Err {A} e.

(* ---- association lists (Go maps keyed by symbol number / hash keys in insertion order) ---- *)
Fixpoint assoc (m : list (name * val)) (n : name) : option val :=
  match m with
  | [] => None
  | (k, v) :: m' => if name_eqb k n then Some v else assoc m' n
  end.

Fixpoint assoc_set (m : list (name * val)) (n : name) (v : val) : list (name * val) :=
  match m with
  | [] => [(n, v)]
  | (k, w) :: m' => if name_eqb k n then (k, v) :: m' else (k, w) :: assoc_set m' n v
  end.

Fixpoint upd {A} (l : list A) (i : nat) (a : A) : list A :=
  match l, i with
  | [], _ => []
  | _ :: l', O => a :: l'
  | x :: l', S i' => x :: upd l' i' a
  end.

Definition scope_map (h : heap) (id : nat) : option (list (name * val)) :=
  match nth_error h id with Some (OScope m) => Some m | _ => None end.
Definition hash_map (h : heap) (id : nat) : option (list (name * val)) :=
  match nth_error h id with Some (OHash m) => Some m | _ => None end.

(* scop.Map[sym.number] = v *)
Definition scope_set (h : heap) (id : nat) (n : name) (v : val) : heap :=
  match scope_map h id with Some m => upd h id (OScope (assoc_set m n v)) | None => h end.
(* askh.HashSet(sym, v) *)
Definition hash_set (h : heap) (id : nat) (n : name) (v : val) : heap :=
  match hash_map h id with Some m => upd h id (OHash (assoc_set m n v)) | None => h end.
(* askh.HashGet(env, sym) *)
Definition hash_get (h : heap) (id : nat) (n : name) : option val :=
  match hash_map h id with Some m => assoc m n | None => None end.

(* scopes.go Stack.lookupSymbol: scan from the top scope down; value and the scope it was found in *)
Fixpoint stack_lookup (h : heap) (scopes : list nat) (n : name) : option (val * nat) :=
  match scopes with
  | [] => None
  | s :: rest =>
    match scope_map h s with
    | Some m => match assoc m n with Some v => Some (v, s) | None => stack_lookup h rest n end
    | None => stack_lookup h rest n
    end
  end.

Definition is_stack (v : val) : bool := match v with VStack _ _ _ => true | _ => false end.

Section WithUpper.
(* unicode.IsUpper, supplied by the harness for the runes it uses *)
Variable is_upper : Z -> bool.

(* functions.go errIfPrivate: None = no error *)
Definition err_if_private (part : name) (pkgname : name) : option err :=
  match part with
  | [] => Some ECrash
  | r :: _ => if is_upper r then None else Some (EPriv part pkgname)
  end.

(* stack.go Stack.nestedPathGetSet and hashutils.go SexpHash.nestedPathGetSet.
   Index-based like the Go loops: dotpaths is the whole slice, i the loop index;
   every loop iteration and every call costs one unit of fuel. *)
Fixpoint stack_walk (fuel : nat) (h : heap) (ispkg : bool) (pn : name) (sc : list nat)
         (dotpaths : list name) (i : nat) (ret : val) (setv : option val) {struct fuel} : res (heap * val) :=
  match fuel with
  | O => Err EFuel
  | S fuel' =>
    match dotpaths with
    | [] => Err EInternal
    | _ =>
    match nth_error dotpaths i with
    | None => Ok (h, ret)                        (* loop exit: return ret, nil *)
    | Some cur =>
      if negb ispkg then Err ENotPkg else
      match stack_lookup h sc cur with
      | None => Err ENotFoundPkg
      | Some (ret, scop) =>
        let last := Nat.eqb i (length dotpaths - 1) in
        match setv, last with
        | Some v, true =>
          match err_if_private cur pn with
          | Some e => Err e
          | None => Ok (scope_set h scop cur v, v)
          end
        | _, _ =>
          if last then
            match ret with
            | VStack _ _ _ => Ok (h, ret)
            | _ => match err_if_private cur pn with Some e => Err e | None => Ok (h, ret) end
            end
          else
            match ret with
            | VHash x =>
              match err_if_private cur pn with
              | Some e => Err e
              | None => hash_walk fuel' h x (skipn (i + 1) dotpaths) 0 VNull setv
              end
            | VStack b' pn' sc' => stack_walk fuel' h b' pn' sc' dotpaths (i + 1) ret setv
            | _ => Err ENotRec
            end
        end
      end
    end
    end
  end
with hash_walk (fuel : nat) (h : heap) (askh : nat)
         (dotpaths : list name) (i : nat) (ret : val) (setv : option val) {struct fuel} : res (heap * val) :=
  match fuel with
  | O => Err EFuel
  | S fuel' =>
    match dotpaths with
    | [] => Err EInternal
    | _ =>
    match nth_error dotpaths i with
    | None => Ok (h, ret)
    | Some cur =>
      let last := Nat.eqb i (length dotpaths - 1) in
      match setv, last with
      | Some v, true => Ok (hash_set h askh cur v, v)
      | _, _ =>
        match hash_get h askh cur with
        | None => Err ENotFoundHash
        | Some ret =>
          if last then Ok (h, ret) else
          match ret with
          | VHash x => hash_walk fuel' h x dotpaths (i + 1) ret setv
          | VStack b pn sc => stack_walk fuel' h b pn sc (skipn (i + 1) dotpaths) 0 VNull setv   (* dotpaths[i+1:] *)
          | _ => Err ENotRec
          end
        end
      end
    end
    end
  end.

Definition walk_fuel (path : list name) : nat := S (length path * S (length path)).

(* lexical context of an access: top level (linear stack) or inside a called function
   (frame with the parameters, then the scopes captured by the closure) *)
Definition lexical_lookup (h : heap) (frame : list (name * val)) (stack : list nat) (n : name)
  : option (val * option nat) :=
  match assoc frame n with
  | Some v => Some (v, None)
  | None => match stack_lookup h stack n with Some (v, s) => Some (v, Some s) | None => None end
  end.

(* functions.go dotGetSetHelper; path = DotPartsRegex parts with the dots stripped *)
Definition dot_get_set (h : heap) (frame : list (name * val)) (stack : list nat)
           (path : list name) (setv : option val) : res (heap * val) :=
  match path with
  | [] => Err EInternal
  | key :: rest =>
    match rest, setv with
    | [], Some v =>
      (* single element set: LexicalBindSymbol in the top scope *)
      match frame, stack with
      | [], s :: _ => Ok (scope_set h s key v, v)
      | _, _ => Ok (h, v)
      end
    | _, _ =>
      match lexical_lookup h frame stack key with
      | None => Err ENotFoundSym
      | Some (ret, _) =>
        match rest with
        | [] => Ok (h, ret)
        | _ =>
          match ret with
          | VStack true pn sc => stack_walk (walk_fuel rest) h true pn sc rest 0 VNull setv
          | VHash id => hash_walk (walk_fuel rest) h id rest 0 VNull setv
          | _ => Err ENotRec
          end
        end
      end
    end
  end.

(* ---- calling a function that was defined inside a package ---- *)
Fixpoint zip_params (ps : list name) (args : list val) : list (name * val) :=
  match ps, args with
  | p :: ps', a :: args' => (p, a) :: zip_params ps' args'
  | p :: ps', [] => (p, VNull) :: zip_params ps' []
  | [], _ => []
  end.

(* vm.go UpdateInstr for a plain symbol: set where found lexically; otherwise bind in the frame *)
Definition lexical_set (h : heap) (frame : list (name * val)) (stack : list nat) (n : name) (v : val) : heap :=
  match lexical_lookup h frame stack n with
  | Some (_, Some s) => scope_set h s n v
  | _ => h
  end.

(* bodies that do not call further functions *)
Definition run_body_simple (h : heap) (params : list name) (body : fbody) (clos : list nat) (args : list val)
  : res (heap * val) :=
  let frame := zip_params params args in
  match body with
  | BGet n => match lexical_lookup h frame clos n with
              | Some (v, _) => Ok (h, v) | None => Err ENotFoundSym end
  | BSet n => let v := match args with a :: _ => a | [] => VNull end in
              Ok (lexical_set h frame clos n v, v)
  | BClear n => Ok (lexical_set h frame clos n VNull, VNull)
  | BDot p => dot_get_set h frame clos p None
  | BDotSet p => let v := match args with a :: _ => a | [] => VNull end in
                 dot_get_set h frame clos p (Some v)
  | BDotCall _ _ => Err ENotFun
  end.

(* the head of a dot path written inside a function is resolved in THAT function's lexical context
   (its parameters, then the scopes captured at its definition) -- never in the caller's; the callee
   is the value the path yields -- the NAME of the calling function plays no role (a facade
   (defn Scale [x] (inner.Scale x)) calls the member, not itself).  fuel bounds the nesting of such
   calls (a cycle of facades does not terminate in the interpreter either). *)
Fixpoint run_body (fuel : nat) (h : heap) (params : list name) (body : fbody) (clos : list nat) (args : list val)
  {struct fuel} : res (heap * val) :=
  match body with
  | BDotCall p cargs =>
    match fuel with
    | O => Err EFuel
    | S fuel' =>
      match dot_get_set h (zip_params params args) clos p None with
      | Err e => Err e
      | Ok (_, VFun _ params' body' clos') =>
        if Nat.eqb (length params') (length cargs)      (* "F expected n arguments, got m" *)
        then run_body fuel' h params' body' clos' (map VInt cargs) else Err ENotFun
      | Ok (_, v) => match cargs with [] => Ok (h, v) | _ => Err ENotFun end
      end
    end
  | _ => run_body_simple h params body clos args
  end.

Definition call_fuel : nat := 24.

(* (a.b.F args) evaluated in a lexical context (frame = parameters of an enclosing caller, if any):
   resolve the callee through the path (privacy applies to the function's name), then run its body
   in its own lexical context *)
Definition call_path (h : heap) (frame : list (name * val)) (stack : list nat) (path : list name) (args : list val)
  : res (heap * val) :=
  match dot_get_set h frame stack path None with
  | Err e => Err e
  | Ok (_, VFun _ params body clos) =>
    if Nat.eqb (length params) (length args) then run_body call_fuel h params body clos args else Err ENotFun
  | Ok (_, v) => match args with [] => Ok (h, v) | _ => Err ENotFun end
  end.

(* ---- building the world from what the program text declares ---- *)
Inductive decl :=
| DInt (z : Z)
| DFun (params : list name) (body : fbody)         (* (defn <member name> [params] body) *)
| DHash (kvs : list (name * decl))                 (* (hash k:v ...) *)
| DPkg (pname : name) (members : list (name * decl)) (* (package "pname" { members }) *)
| DRef (path : list name)                          (* the value of an existing symbol / dot path *)
| DNil.                         (* the value of an existing symbol / dot path *)

Definition alloc (h : heap) (o : obj) : heap * nat := (h ++ [o], length h).

Fixpoint build_val (h : heap) (stack : list nat) (self : name) (d : decl) {struct d} : res (heap * val) :=
  match d with
  | DInt z => Ok (h, VInt z)
  | DFun params body => Ok (h, VFun self params body stack)      (* NewClosing: clone of the stack *)
  | DHash kvs =>
    match (fix fields (h : heap) (kvs : list (name * decl)) (acc : list (name * val)) : res (heap * list (name * val)) :=
             match kvs with
             | [] => Ok (h, acc)
             | (k, d') :: kvs' =>
               match build_val h stack k d' with
               | Err e => Err e
               | Ok (h1, v) => fields h1 kvs' (assoc_set acc k v)
               end
             end) h kvs [] with
    | Err e => Err e
    | Ok (h1, m) => let (h2, id) := alloc h1 (OHash m) in Ok (h2, VHash id)
    end
  | DPkg pn ms =>
    let (h0, id) := alloc h (OScope []) in
    let stack' := id :: stack in
    match (fix members (h : heap) (ms : list (name * decl)) : res heap :=
             match ms with
             | [] => Ok h
             | (n, d') :: ms' =>
               match build_val h stack' n d' with
               | Err e => Err e
               | Ok (h1, v) => members (scope_set h1 id n v) ms'
               end
             end) h0 ms with
    | Err e => Err e
    | Ok h1 => Ok (h1, VStack true pn stack')       (* PopScopeTransferToDataStackInstr *)
    end
  | DNil => Ok (h, VNull)
  | DRef path =>
    match dot_get_set h [] stack path None with
    | Err e => Err e
    | Ok (_, v) => Ok (h, v)
    end
  end.

(* global definitions in order; scope 0 is the global scope *)
Fixpoint build_world (h : heap) (defs : list (name * decl)) : res heap :=
  match defs with
  | [] => Ok h
  | (n, d) :: defs' =>
    match build_val h [0%nat] n d with
    | Err e => Err e
    | Ok (h1, v) => build_world (scope_set h1 0 n v) defs'
    end
  end.

Definition heap0 : heap := [OScope []].

(* ---- the operations a case performs at top level ---- *)
Inductive op :=
| OpGet (path : list name)
| OpSet (path : list name) (z : Z)
| OpCall (path : list name) (args : list Z)
(* (defn wname [param] (path args)) (wname argsym): the call is made, in tail position, by a global
   function (which may carry the same name as the member it calls) whose parameter is bound *)
| OpCallVia (wname : name) (param : name) (argsym : name) (path : list name) (args : list Z)
(* {target = source} / (set target source) / (= target source): the right-hand side is a dot path *)
| OpSetFrom (target source : list name).

Definition run_op (h : heap) (o : op) : res (heap * val) :=
  match o with
  | OpGet p => dot_get_set h [] [0%nat] p None
  | OpSet p z => dot_get_set h [] [0%nat] p (Some (VInt z))
  | OpCall p args => call_path h [] [0%nat] p (map VInt args)
  | OpCallVia wname param argsym p args =>
    let h1 := scope_set h 0 wname (VFun wname [param] (BDotCall p args) [0%nat]) in
    match stack_lookup h1 [0%nat] argsym with
    | None => Err ENotFoundSym
    | Some (v, _) => call_path h1 [(param, v)] [0%nat] p (map VInt args)
    end
  | OpSetFrom target source =>
    (* vm.go UpdateInstr / functions.go AssignmentFunction: RValue of the right-hand side first *)
    match dot_get_set h [] [0%nat] source None with
    | Err e => Err e
    | Ok (_, v) => dot_get_set h [] [0%nat] target (Some v)
    end
  end.

End WithUpper.
