(* C18 model, part 2: every ROUTE by which a program dereferences a dot path.
   Executable Gallina only (proofs are in Proofs/PkgRoutesProofs.v).

   Generated/PkgRoutes.v (translator/cmd/pkgroutes, regenerated from the source on every run) lists every
   call of functions.go dotGetSetHelper, of the two nestedPathGetSet walkers and of errIfPrivate.
   [site] names the callers of dotGetSetHelper; [route_run] mirrors what the surrounding Go code does
   with the result for the routes a program can take:
     builders.go    PointerToFunction        ( * a.b)                    RDeref
     expressions.go SexpSymbol.RHS           (idf a.b), (def x a.b) ..   RArg  (and OpGet/OpSetFrom of Pkg.v)
     environment.go ResolveDotSym            (+ 0 a.b) (type? a.b)       OpGet of Pkg.v
     environment.go ResolveCallable          (((fn [] a.b)) args)        RCallExpr   (vm.go CallExprInstr)
     vm.go          CallInstr / PrepareCallInstr, isDot                  OpCall of Pkg.v
     vm.go          CallInstr / PrepareCallInstr, symbol bound to a dot symbol   RIndirect
     vm.go          UpdateInstr.Execute      (set a.b v) {a.b = v}       OpSet of Pkg.v
     functions.go   AssignmentFunction, expressions.go SexpSymbol.AssignToSelection   (= a.b v), (:= a.b v)
     hashutils.go   SexpHash.HashGet -> DotPathHashGet   (hget root (quote .b.c))     RHget
     generator.go   compound assignment      {a.b += 1} {a.b ++} (+= a.b 1) ..        RCompound
     (def a.b v) binds a plain symbol spelled "a.b": no member is touched             RDefDot *)
From Coq Require Import ZArith List Bool.
Import ListNotations.
Require Import ZV.Model.Pkg ZV.Model.PkgSpec ZV.Generated.PkgRoutes.
Open Scope Z_scope.

(* the callers of dotGetSetHelper *)
Inductive site :=
| SDeref | SResolveCallable | SResolveDotSym | SSymRHS | SSymAssignSel | SAssignFn | SRepl
| SUpdateInstr | SCallDot | SCallIndirect | SPrepCallDot | SPrepCallIndirect.

Definition all_sites : list site :=
  [SDeref; SResolveCallable; SResolveDotSym; SSymRHS; SSymAssignSel; SAssignFn; SRepl;
   SUpdateInstr; SCallDot; SCallIndirect; SPrepCallDot; SPrepCallIndirect].

Definition site_access (s : site) : access :=
  match s with
  | SSymAssignSel | SAssignFn | SUpdateInstr => ASet
  | _ => AGet
  end.

Fixpoint zs_eqb (a b : list Z) : bool :=
  match a, b with
  | [], [] => true
  | x :: a', y :: b' => Z.eqb x y && zs_eqb a' b'
  | _, _ => false
  end.

Definition f_builders : list Z := [98; 117; 105; 108; 100; 101; 114; 115; 46; 103; 111].
Definition f_environment : list Z := [101; 110; 118; 105; 114; 111; 110; 109; 101; 110; 116; 46; 103; 111].
Definition f_expressions : list Z := [101; 120; 112; 114; 101; 115; 115; 105; 111; 110; 115; 46; 103; 111].
Definition f_functions : list Z := [102; 117; 110; 99; 116; 105; 111; 110; 115; 46; 103; 111].
Definition f_repl : list Z := [114; 101; 112; 108; 46; 103; 111].
Definition f_vm : list Z := [118; 109; 46; 103; 111].
Definition f_hashutils : list Z := [104; 97; 115; 104; 117; 116; 105; 108; 115; 46; 103; 111].
Definition f_stack : list Z := [115; 116; 97; 99; 107; 46; 103; 111].

(* the sites of one source file, in source order (two calls inside one function: direct, then indirect) *)
Definition sites_of_file (f : list Z) : list site :=
  if zs_eqb f f_builders then [SDeref]
  else if zs_eqb f f_environment then [SResolveCallable; SResolveDotSym]
  else if zs_eqb f f_expressions then [SSymRHS; SSymAssignSel]
  else if zs_eqb f f_functions then [SAssignFn]
  else if zs_eqb f f_repl then [SRepl]
  else if zs_eqb f f_vm then [SUpdateInstr; SCallDot; SCallIndirect; SPrepCallDot; SPrepCallIndirect]
  else [].

(* the census agrees with the model when, file by file, the calls found are the modelled sites with the
   modelled access (read / write) *)
Fixpoint census_matches (c : list (list Z * list Z * access)) (expect : list site) : bool :=
  match c, expect with
  | [], [] => true
  | (_, _, a) :: c', s :: e' =>
    (match a, site_access s with AGet, AGet | ASet, ASet => true | _, _ => false end) && census_matches c' e'
  | _, _ => false
  end.

Definition files_in_order : list (list Z) := [f_builders; f_environment; f_expressions; f_functions; f_repl; f_vm].

Definition census_ok (c : list (list Z * list Z * access)) : bool :=
  census_matches c (flat_map sites_of_file files_in_order) &&
  forallb (fun e => match e with (f, _, _) => existsb (zs_eqb f) files_in_order end) c &&
  zs_eqb (flat_map (fun e => match e with (f, _, _) => f end) c)
         (flat_map (fun f => flat_map (fun _ => f) (sites_of_file f)) files_in_order).

(* how the walkers are entered and hand over to each other (slice of the path, value to store) *)
Definition walker_shape (c : list (list Z * list Z * pslice * access)) : list (list Z * pslice * access) :=
  map (fun e => match e with (f, _, s, a) => (f, s, a) end) c.

Definition expected_walkers : list (list Z * pslice * access) :=
  [ (f_functions, SFrom1, APass);     (* dotGetSetHelper -> Stack.nestedPathGetSet(path[1:], setVal)  = dot_get_set / stack_walk rest *)
    (f_functions, SFrom1, APass);     (* dotGetSetHelper -> SexpHash.nestedPathGetSet(path[1:], setVal) = dot_get_set / hash_walk rest *)
    (f_hashutils, SWhole, AGet);      (* DotPathHashGet: the whole key path, read                     = RHget *)
    (f_hashutils, SFromI1, APass);    (* hash walker -> package walker with dotpaths[i+1:]            = hash_walk / skipn (i+1) *)
    (f_hashutils, SWhole, ASet);      (* SexpHashSelector.AssignToSelection                            (index expressions; not a dot path) *)
    (f_stack, SFromI1, APass) ].      (* package walker -> hash walker with dotpaths[i+1:]            = stack_walk / skipn (i+1) *)

Fixpoint shape_eqb (a b : list (list Z * pslice * access)) : bool :=
  match a, b with
  | [], [] => true
  | (f, s, x) :: a', (g, t, y) :: b' =>
    zs_eqb f g &&
    (match s, t with SWhole, SWhole | SFrom1, SFrom1 | SFromI1, SFromI1 => true | _, _ => false end) &&
    (match x, y with AGet, AGet | ASet, ASet | APass, APass => true | _, _ => false end) && shape_eqb a' b'
  | _, _ => false
  end.

(* errIfPrivate is consulted only by the package walker, once per hop kind *)
Definition private_ok (c : list (list Z * list Z * hop)) : bool :=
  match c with
  | [(f1, _, HFinalSet); (f2, _, HFinalGet); (f3, _, HEnterHash)] => zs_eqb f1 f_stack && zs_eqb f2 f_stack && zs_eqb f3 f_stack
  | _ => false
  end.

Section WithUpper.
Variable is_upper : Z -> bool.

Definition top : list nat := [0%nat].

(* what a call site of dotGetSetHelper computes: the helper on the whole spelling of the symbol, with or
   without a value to store *)
Definition site_run (s : site) (h : heap) (frame : list (name * val)) (stack : list nat)
           (path : list name) (v : val) : res (heap * val) :=
  dot_get_set is_upper h frame stack path (match site_access s with AGet => None | _ => Some v end).

Inductive rop :=
| RBase (o : op)
| RDeref (p : list name)
| RArg (p : list name)
| RCallExpr (p : list name) (args : list Z)
| RIndirect (p : list name) (args : list Z)
| RHget (root rest : list name)
| RCompound (p : list name)
| RDefDot (p : list name) (z : Z).

Definition route_run (h : heap) (r : rop) : res (heap * val) :=
  match r with
  | RBase o => run_op is_upper h o
  | RDeref p => site_run SDeref h [] top p VNull
  | RArg p => site_run SSymRHS h [] top p VNull
  | RCallExpr p args => call_path is_upper h [] top p (map VInt args)
  | RIndirect p args => call_path is_upper h [] top p (map VInt args)
  | RHget root rest =>
    match site_run SSymRHS h [] top root VNull with
    | Err e => Err e
    | Ok (_, VHash id) => hash_walk is_upper (walk_fuel rest) h id rest 0 VNull None   (* DotPathHashGet *)
    | Ok _ => Err ENotFun             (* "first argument to hget function must be hash or array" *)
    end
  | RCompound p =>
    match site_run SSymRHS h [] top p VNull with
    | Err e => Err e
    | Ok _ => Err ENotFun             (* (set <value> (+ <value> 1)) does not compile *)
    end
  | RDefDot p z =>
    match p with
    | _ :: _ :: _ => Ok (h, VInt z)
    | _ => Err EInternal
    end
  end.

(* the specification of each route, written with [spec_path] / [visible] only *)
Definition route_spec (h : heap) (r : rop) : verdict :=
  match r with
  | RBase o => spec_op is_upper h o
  | RDeref p | RArg p => spec_path is_upper h [] top p None
  | RCallExpr p args | RIndirect p args => spec_call is_upper h [] p args
  | RHget root rest =>
    match spec_path is_upper h [] top root None with
    | Allowed _ (VHash id) => visible is_upper h (CHash id) rest None
    | Allowed _ _ => NotCallable
    | d => d
    end
  | RCompound p =>
    match spec_path is_upper h [] top p None with
    | Allowed _ _ => NotCallable
    | d => d
    end
  | RDefDot p z =>
    match p with
    | _ :: _ :: _ => Allowed h (VInt z)
    | _ => Malformed
    end
  end.

(* the dot path a route READS from outside / ASSIGNS from outside *)
Definition route_reads (r : rop) : option (list name) :=
  match r with
  | RBase (OpGet p) | RBase (OpCall p _) | RBase (OpSetFrom _ p) => Some p
  | RDeref p | RArg p | RCallExpr p _ | RIndirect p _ | RCompound p => Some p
  | RHget root _ => Some root
  | _ => None
  end.
Definition route_writes (r : rop) : option (list name * val) :=
  match r with
  | RBase (OpSet p z) => Some (p, VInt z)
  | _ => None
  end.

End WithUpper.
