(* C18 specification: which dot paths are visible from outside a package.
   One structural recursion over the path (no indices, no slices, one function for
   packages and hashes).  Rule:
     - a path part is resolved in the current container (package: its scope chain, top first;
       hash: its keys); a part that does not resolve is NotFound (existence is checked first);
     - a package member that is the FINAL part: assignment needs a capitalised name; reading
       needs a capitalised name unless the value is itself a package (stack) — nested packages
       may be inspected/traversed whatever the case of their name;
     - a package member that is a hash may only be entered under a capitalised name;
     - keys INSIDE a hash value are data, not package members: no case rule applies to them;
     - a package found inside a hash is walked as a package again (the rule applies to its members). *)
From Coq Require Import ZArith List Bool.
Import ListNotations.
Require Import ZV.Model.Pkg.
Open Scope Z_scope.

Inductive container :=
| CPkg (pn : name) (sc : list nat)
| CHash (id : nat).

Inductive verdict :=
| Allowed (h : heap) (v : val)     (* heap after the access (unchanged by a read), value read / written *)
| Denied (member pkg : name)
| NotFound
| NotRecord
| Unbounded                        (* nesting of calls between package functions beyond the bound *)
| NotCallable                      (* a call with arguments through a path whose value is not a function *)
| Malformed.

Section WithUpper.
Variable is_upper : Z -> bool.

Definition public (n : name) : bool :=
  match n with r :: _ => is_upper r | [] => false end.

Fixpoint visible (h : heap) (c : container) (path : list name) (setv : option val) : verdict :=
  match path with
  | [] => Malformed
  | n :: rest =>
    match c with
    | CPkg pn sc =>
      match stack_lookup h sc n with
      | None => NotFound
      | Some (v, scop) =>
        match rest with
        | [] =>
          match setv with
          | Some nv => if public n then Allowed (scope_set h scop n nv) nv else Denied n pn
          | None => if is_stack v || public n then Allowed h v else Denied n pn
          end
        | _ :: _ =>
          match v with
          | VStack true pn' sc' => visible h (CPkg pn' sc') rest setv
          | VStack false _ _ => NotRecord
          | VHash id => if public n then visible h (CHash id) rest setv else Denied n pn
          | _ => NotRecord
          end
        end
      end
    | CHash id =>
      match rest with
      | [] =>
        match setv with
        | Some nv => Allowed (hash_set h id n nv) nv
        | None => match hash_get h id n with Some v => Allowed h v | None => NotFound end
        end
      | _ :: _ =>
        match hash_get h id n with
        | None => NotFound
        | Some (VHash id') => visible h (CHash id') rest setv
        | Some (VStack true pn sc) => visible h (CPkg pn sc) rest setv
        | Some _ => NotRecord
        end
      end
    end
  end.

(* a whole dot path in a lexical context: the first part is an ordinary variable *)
Definition spec_path (h : heap) (frame : list (name * val)) (stack : list nat)
           (path : list name) (setv : option val) : verdict :=
  match path with
  | [] => Malformed
  | key :: rest =>
    match rest, setv with
    | [], Some v =>
      match frame, stack with
      | [], s :: _ => Allowed (scope_set h s key v) v
      | _, _ => Allowed h v
      end
    | _, _ =>
      match lexical_lookup h frame stack key with
      | None => NotFound
      | Some (ret, _) =>
        match rest with
        | [] => Allowed h ret
        | _ =>
          match ret with
          | VStack true pn sc => visible h (CPkg pn sc) rest setv
          | VHash id => visible h (CHash id) rest setv
          | _ => NotRecord
          end
        end
      end
    end
  end.

(* code defined inside a package: plain symbols and the heads of dot paths resolve through the parameters and then the
   scopes captured at definition, with no case rule; dot paths written inside obey [visible] *)
Definition spec_body_simple (h : heap) (params : list name) (body : fbody) (clos : list nat) (args : list val) : verdict :=
  let frame := zip_params params args in
  match body with
  | BGet n => match lexical_lookup h frame clos n with Some (v, _) => Allowed h v | None => NotFound end
  | BSet n => let v := match args with a :: _ => a | [] => VNull end in
              Allowed (lexical_set h frame clos n v) v
  | BClear n => Allowed (lexical_set h frame clos n VNull) VNull
  | BDot p => spec_path h frame clos p None
  | BDotSet p => let v := match args with a :: _ => a | [] => VNull end in
                 spec_path h frame clos p (Some v)
  | BDotCall _ _ => NotCallable
  end.

(* a call through a dot path made inside a function reaches the member the path names *)
Fixpoint spec_body (fuel : nat) (h : heap) (params : list name) (body : fbody) (clos : list nat) (args : list val)
  {struct fuel} : verdict :=
  match body with
  | BDotCall p cargs =>
    match fuel with
    | O => Unbounded
    | S fuel' =>
      match spec_path h (zip_params params args) clos p None with
      | Allowed _ (VFun _ params' body' clos') =>
        if Nat.eqb (length params') (length cargs)
        then spec_body fuel' h params' body' clos' (map VInt cargs) else NotCallable
      | Allowed _ v => match cargs with [] => Allowed h v | _ => NotCallable end
      | d => d
      end
    end
  | _ => spec_body_simple h params body clos args
  end.

Definition spec_call (h : heap) (frame : list (name * val)) (p : list name) (args : list Z) : verdict :=
  match spec_path h frame [0%nat] p None with
  | Allowed _ (VFun _ params body clos) =>
    if Nat.eqb (length params) (length args) then spec_body call_fuel h params body clos (map VInt args) else NotCallable
  | Allowed _ v => match args with [] => Allowed h v | _ => NotCallable end
  | d => d
  end.

Definition spec_op (h : heap) (o : op) : verdict :=
  match o with
  | OpGet p => spec_path h [] [0%nat] p None
  | OpSet p z => spec_path h [] [0%nat] p (Some (VInt z))
  | OpCall p args => spec_call h [] p args
  | OpCallVia wname param argsym p args =>
    let h1 := scope_set h 0 wname (VFun wname [param] (BDotCall p args) [0%nat]) in
    match stack_lookup h1 [0%nat] argsym with
    | None => NotFound
    | Some (v, _) => spec_call h1 [(param, v)] p args
    end
  | OpSetFrom target source =>
    (* the right-hand side is read first (and must be readable); then the value is assigned *)
    match spec_path h [] [0%nat] source None with
    | Allowed _ v => spec_path h [] [0%nat] target (Some v)
    | d => d
    end
  end.

End WithUpper.
