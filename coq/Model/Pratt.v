(* C06 — executable model of the infix (Pratt) parser of zygo/pratt.go.
   Executable definitions only (proofs: Proofs/PrattProofs.v).

   Engine (generic in the token type and in the three classification functions):
     expr   = Pratt.Expression        loop = its `for !p.IsEOF()` led loop
     stmts  = InfixExpandArray           norm_selector = normalizeArraySelector
   Instantiation: lbp_of = Zlisp.LeftBindingPower, nud_of / led_of = the lookups of curOp in
   Expression, all three computed from the translator-generated table Generated/InfixTable.v. *)
From Coq Require Import ZArith String List Bool.
Import ListNotations.
Require Import ZV.Model.PrattTypes.
Open Scope Z_scope.

Inductive res (A : Type) :=
| ROk (a : A)
| RFuel          (* model ran out of fuel (never with the fuel the runner passes: proved) *)
| RUnsup         (* go-style for / break / continue / labelled for: not modelled in Coq *)
| RErr           (* the Go code returns an error *)
| RCrash.        (* the Go code panics (default case of the led dispatch) *)
Arguments ROk {A} a.
Arguments RFuel {A}.
Arguments RUnsup {A}.
Arguments RErr {A}.
Arguments RCrash {A}.

Section Engine.
  Variable tok : Type.
  Variable lbp : tok -> option Z.        (* None: LeftBindingPower returns an error *)
  Variable nud : tok -> nudk.
  Variable led : tok -> option ledk.     (* None: panic in the dispatch *)
  Variable is_else : tok -> bool.        (* symbol named "else" *)
  Variable led_err : tok -> bool.        (* array token whose selector normalisation fails *)
  Variable eof_tok : option tok.         (* the last token of the stream = the stale NextToken at EOF *)

  Inductive tree :=
  | Leaf (t : tok)
  | Eof                                  (* Expression called at EOF returns the stale NextToken *)
  | Bin (o : tok) (l r : tree)
  | Pre (o : tok) (x : tree)
  | Post (o : tok) (x : tree)            (* LPostfix, LIndex, LDotIdx *)
  | Drop (o : tok) (dropped : tree)      (* MunchLeft == nil: the tree so far is replaced by the token *)
  | Cond (o : tok) (c t : tree) (els : option (tok * tree))
  | CondStale (o : tok) (c t : tree).    (* `else` seen as the stale token at EOF *)

  Fixpoint yield (x : tree) : list tok :=
    match x with
    | Leaf t => [t]
    | Eof => []
    | Bin o l r => yield l ++ o :: yield r
    | Pre o x => o :: yield x
    | Post o x => yield x ++ [o]
    | Drop o d => yield d ++ [o]
    | Cond o c t None => o :: yield c ++ yield t
    | Cond o c t (Some (e, x)) => o :: yield c ++ yield t ++ e :: yield x
    | CondStale o c t => o :: yield c ++ yield t
    end.

  Definition bind {A B} (r : res A) (f : A -> res B) : res B :=
    match r with ROk a => f a | RFuel => RFuel | RUnsup => RUnsup | RErr => RErr | RCrash => RCrash end.

  (* pratt.go: Pratt.Expression *)
  Fixpoint expr (fuel : nat) (rbp : Z) (ts : list tok) {struct fuel} : res (tree * list tok) :=
    match fuel with
    | O => RFuel
    | S f =>
      match ts with
      | [] => ROk (Eof, [])                       (* if p.IsEOF() { return cnode } *)
      | t :: rest =>
        bind
          (match nud t with
           | NAtom => ROk (Leaf t, rest)
           | NPrefix r _ => bind (expr f r rest) (fun p => ROk (Pre t (fst p), snd p))
           | NIf r1 r2 r3 =>
             bind (expr f r1 rest) (fun pc =>
             bind (expr f r2 (snd pc)) (fun pt =>
               match snd pt with
               | e :: rest3 =>
                 if is_else e
                 then bind (expr f r3 rest3) (fun pe => ROk (Cond t (fst pc) (fst pt) (Some (e, fst pe)), snd pe))
                 else ROk (Cond t (fst pc) (fst pt) None, snd pt)
               | [] =>
                 match eof_tok with
                 | Some e => if is_else e then ROk (CondStale t (fst pc) (fst pt), [])
                             else ROk (Cond t (fst pc) (fst pt) None, [])
                 | None => ROk (Cond t (fst pc) (fst pt) None, [])
                 end
               end))
           | NFor => RUnsup
           | NCtl _ => RUnsup
           end)
          (fun p => loop f rbp (fst p) (snd p))
      end
    end
  (* the led loop of Expression: for !p.IsEOF() { ... } *)
  with loop (fuel : nat) (rbp : Z) (left : tree) (ts : list tok) {struct fuel} : res (tree * list tok) :=
    match fuel with
    | O => RFuel
    | S f =>
      match ts with
      | [] => ROk (left, [])
      | t :: rest =>
        match lbp t with
        | None => RErr
        | Some l =>
          if rbp >=? l then ROk (left, ts)
          else
            match led t with
            | None => RCrash
            | Some (LBin r _) => bind (expr f r rest) (fun p => loop f rbp (Bin t left (fst p)) (snd p))
            | Some (LPostfix _) => loop f rbp (Post t left) rest
            | Some LIndex => if led_err t then RErr else loop f rbp (Post t left) rest
            | Some LDotIdx => loop f rbp (Post t left) rest
            | Some LDrop => loop f rbp (Drop t left) rest
            end
        end
      end
    end.

  Definition fuel_for (ts : list tok) : nat := 2 * length ts + 2.

  (* parsePrattOne / parseArraySelectorIndex: Expression(0) on a fresh Pratt over the tokens *)
  Definition parse_one (ts : list tok) : res (tree * list tok) := expr (fuel_for ts) 0 ts.

  Variable is_semi : tok -> bool.
  Variable is_label_for : list tok -> bool.   (* p.LabeledFor: `name:` followed by `for` *)

  (* the inner loop at the top of InfixExpandArray's loop: skip empty statements *)
  Fixpoint drop_semis (ts : list tok) : list tok :=
    match ts with
    | t :: r => if is_semi t then drop_semis r else ts
    | [] => []
    end.

  (* pratt.go: InfixExpandArray *)
  Fixpoint stmts (fuel : nat) (ts : list tok) {struct fuel} : res (list tree) :=
    match fuel with
    | O => RFuel
    | S f =>
      match drop_semis ts with
      | [] => ROk []                                   (* if pr.IsEOF() { break } *)
      | t1 :: r1 =>
        if is_label_for (t1 :: r1) then RUnsup else
        bind (parse_one (t1 :: r1)) (fun p =>
          let x := fst p in
          let keep := match x with Leaf t => negb (is_semi t) | _ => true end in
          let rest := match snd p with
                      | t :: rest' => if is_semi t then rest' else snd p
                      | [] => []
                      end in
          bind (stmts f rest) (fun xs => ROk (if keep then x :: xs else xs)))
      end
    end.

  Definition parse_block (ts : list tok) : res (list tree) := stmts (S (length ts)) ts.
End Engine.

Arguments Leaf {tok} t.
Arguments Eof {tok}.
Arguments Bin {tok} o l r.
Arguments Pre {tok} o x.
Arguments Post {tok} o x.
Arguments Drop {tok} o dropped.
Arguments Cond {tok} o c t els.
Arguments CondStale {tok} o c t.

(* ------------------------------------------------------------------------------------------ *)
(* Tokens as the Pratt parser sees them: the elements of the array inside (infix [...]).       *)
Inductive tok :=
| TSym (name : string) (colon : bool)   (* *SexpSymbol, not isDot; colon = colonTail *)
| TDotSym (name : string)               (* *SexpSymbol with isDot *)
| TInt (id : Z) | TFloat (id : Z) | TBool (id : Z) | TStr (id : Z)
| TPair (id : Z)                        (* an s-expression: a call (f x) or a nested (infix [...]) block *)
| TArr (id : Z)                         (* [ ... ] *)
| THash (id : Z)
| TComma | TSemi
| TComment (id : Z)
| TOther (id : Z).                      (* any other Sexp type (the nil literal, char, uint64, ...) *)

Section Table.
  Variable entries : list entry.
  Variable K : lbpconsts.

  Definition lookup (n : string) : option entry :=
    find (fun e => String.eqb (e_name e) n) entries.

  Definition in_names (n : string) (l : list string) : bool := existsb (String.eqb n) l.

  (* if found { if op.MunchLeft == nil { return 0, nil }; return op.Bp, nil } *)
  Definition found_bp (e : entry) : Z :=
    match e_led e with LDrop => lbp_noled_val K | _ => e_bp e end.

  (* pratt.go: Zlisp.LeftBindingPower *)
  Definition lbp_of (t : tok) : option Z :=
    match t with
    | TInt _ => Some (lbp_int K) | TFloat _ => Some (lbp_float K)
    | TBool _ => Some (lbp_bool K) | TStr _ => Some (lbp_str K)
    | TSym n _ =>
      if in_names n (lbp_zero_syms K) then Some (lbp_zero_val K)
      else match lookup n with Some e => Some (found_bp e) | None => Some (lbp_sym_default K) end
    | TDotSym n =>
      if in_names n (lbp_zero_syms K) then Some (lbp_zero_val K)
      else match lookup n with Some e => Some (found_bp e) | None => Some (lbp_dotsym K) end
    | TArr _ => Some (lbp_array K)
    | TComma => Some (lbp_comma K)
    | TSemi => Some (lbp_semicolon K)
    | TComment _ => Some (lbp_comment K)
    | TPair _ => Some (lbp_pair K)
    | THash _ => Some (lbp_hash K)
    | TOther _ => lbp_other K
    end.

  (* Expression: curOp for the nud *)
  Definition nud_of (t : tok) : nudk :=
    match t with
    | TSym n _ | TDotSym n => match lookup n with Some e => e_nud e | None => NAtom end
    | _ => NAtom
    end.

  Definition led_of_key (k : string) : ledk :=
    match lookup k with Some e => e_led e | None => LDrop end.

  (* Expression: curOp for the led, by token type *)
  Definition led_of (t : tok) : option ledk :=
    match t with
    | TSym n _ => Some (match lookup n with Some e => e_led e | None => LDrop end)
    | TDotSym n => Some (match lookup n with Some e => e_led e | None => led_of_key (key_dot K) end)
    | TArr _ => Some (array_led K)
    | TComma => Some (led_of_key (key_comma K))
    | TPair _ => Some LDrop
    | _ => None
    end.

  Definition is_else (t : tok) : bool :=
    match t with TSym n _ | TDotSym n => String.eqb n "else" | _ => false end.
  Definition is_semi (t : tok) : bool := match t with TSemi => true | _ => false end.
  Definition is_label_for (ts : list tok) : bool :=
    match ts with
    | TSym _ true :: TSym f _ :: _ => String.eqb f "for"
    | TSym _ true :: TDotSym f :: _ => String.eqb f "for"
    | _ => false
    end.

  (* head symbol of the list a node prints as *)
  Definition led_head (t : tok) : string :=
    match led_of t with
    | Some (LBin _ h) => h | Some (LPostfix h) => h
    | Some LIndex => "arrayidx" | Some LDotIdx => "hashidx" | _ => ""
    end.
  Definition nud_head (t : tok) : string :=
    match nud_of t with NPrefix _ h => h | NIf _ _ _ => "cond" | _ => "" end.

  Definition m_expr (led_err : tok -> bool) (eof : option tok) :=
    expr tok lbp_of nud_of led_of is_else led_err eof.
  Definition m_parse_one (led_err : tok -> bool) (ts : list tok) :=
    parse_one tok lbp_of nud_of led_of is_else led_err (last (map Some ts) None) ts.
  Definition m_parse_block (led_err : tok -> bool) (ts : list tok) :=
    parse_block tok lbp_of nud_of led_of is_else led_err (last (map Some ts) None) is_semi is_label_for ts.

  (* ---- normalizeArraySelector ---- *)
  Inductive selector :=
  | SelRaw (ts : list tok)                                   (* the (colon-split) tokens unchanged *)
  | SelIdx (x : tree tok)                                    (* [index] *)
  | SelSlice (a b : option (tree tok)).                      (* [a : b] *)

  Definition is_colon (t : tok) : bool :=
    match t with TSym n _ | TDotSym n => String.eqb n ":" | _ => false end.

  (* splitColonTailSelectorSymbols *)
  Definition split_colon_tail (ts : list tok) : list tok :=
    flat_map (fun t => match t with
                       | TSym n true => [TSym n false; TSym ":" false]
                       | _ => [t] end) ts.

  Fixpoint split_at_colon (ts : list tok) : list tok * list tok :=
    match ts with
    | [] => ([], [])
    | t :: r => if is_colon t then ([], r) else let p := split_at_colon r in (t :: fst p, snd p)
    end.

  (* parseArraySelectorSegment -> parsePrattOne *)
  Definition parse_segment (led_err : tok -> bool) (ts : list tok) : res (option (tree tok)) :=
    match ts with
    | [] => ROk None
    | _ => match m_parse_one led_err ts with
           | ROk (x, []) => ROk (Some x)
           | ROk (_, _ :: _) => RErr          (* "must be a single expression" *)
           | RFuel => RFuel | RUnsup => RUnsup | RErr => RErr | RCrash => RCrash
           end
    end.

  Definition norm_selector (led_err : tok -> bool) (content : list tok) : res selector :=
    let ts := split_colon_tail content in
    let ncolon := length (filter is_colon ts) in
    match ncolon with
    | O =>
      (* if len(tokens) <= 1 { return tokens unparsed }  (constant read by the translator) *)
      if Nat.leb (length ts) (sel_raw_max K) then ROk (SelRaw ts)
      else match m_parse_one led_err ts with
           | ROk (x, []) => ROk (SelIdx x)
           | ROk (_, _ :: _) => ROk (SelRaw ts)
           | RFuel => RFuel | RUnsup => RUnsup | RErr => RErr | RCrash => RCrash
           end
    | S O =>
      let p := split_at_colon ts in
      match parse_segment led_err (fst p) with
      | ROk a => match parse_segment led_err (snd p) with
                 | ROk b => ROk (SelSlice a b)
                 | RFuel => RFuel | RUnsup => RUnsup | RErr => RErr | RCrash => RCrash
                 end
      | RFuel => RFuel | RUnsup => RUnsup | RErr => RErr | RCrash => RCrash
      end
    | _ => RErr                               (* more than one colon *)
    end.
End Table.
