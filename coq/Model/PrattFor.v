(* C06 — go-style `for` headers: model of forOpMunchRightWithLabel / lowerGoFor / lowerRangeFor /
   parseRangeTargets of zygo/pratt.go.  Executable definitions only.
   Index and slice sites of the Go code are mirrored with checked accessors: an index out of
   range is the outcome RCrash (the Go code would panic), never a default value.  The guards in
   front of those sites are read from the source by the translator (Generated/InfixTable.v:
   for_consts), so a weakened guard changes the model. *)
From Coq Require Import ZArith String List Bool.
Import ListNotations.
Require Import ZV.Model.PrattTypes ZV.Model.Pratt.
Open Scope Z_scope.

Inductive forform :=
| FThree (label : option tok) (init test post : option (tree tok)) (body : option tok)
    (* (for [label] [init test post] body): init/post None = nil, test None = true *)
| FRange (label : option tok) (targets : list tok) (define : bool) (source : tree tok) (body : option tok).

Section For.
  Variable entries : list entry.
  Variable K : lbpconsts.
  Variable C : forconsts.
  Variable led_err : tok -> bool.
  Variable is_body : tok -> bool.        (* isForBodyBlock: (infix ...) pair or empty hash *)
  Variable body_empty : tok -> bool.     (* empty hash or (infix) without tokens: no body expressions *)

  Definition sym_named (n : string) (t : tok) : bool :=
    match t with TSym m _ | TDotSym m => String.eqb m n | _ => false end.
  Definition is_symbol (t : tok) : bool := match t with TSym _ _ | TDotSym _ => true | _ => false end.
  Definition is_comma (t : tok) : bool := match t with TComma => true | _ => false end.

  (* parsePrattOne: empty -> nil; Expression(0) must consume everything *)
  Definition parse_clause (ts : list tok) : res (option (tree tok)) :=
    match ts with
    | [] => ROk None
    | _ => match m_parse_one entries K led_err ts with
           | ROk (x, []) => ROk (Some x)
           | ROk (_, _ :: _) => RErr
           | RFuel => RFuel | RUnsup => RUnsup | RErr => RErr | RCrash => RCrash
           end
    end.

  (* splitOnSemicolons *)
  Fixpoint split_semis (ts : list tok) : list (list tok) :=
    match ts with
    | [] => [[]]
    | t :: r => if is_semi t then [] :: split_semis r
                else match split_semis r with s :: ss => (t :: s) :: ss | [] => [[t]] end
    end.

  (* findRangeAssign: position of the first := or = *)
  Fixpoint find_assign (ts : list tok) (i : nat) : option (nat * bool) :=
    match ts with
    | [] => None
    | t :: r => if sym_named ":=" t then Some (i, true)
                else if sym_named "=" t then Some (i, false)
                else find_assign r (S i)
    end.
  Definition has_range (ts : list tok) : bool := existsb (sym_named "range") ts.

  (* parseRangeTargets *)
  Definition range_targets (ts : list tok) : res (list tok) :=
    match ts with
    | [a] => if is_symbol a then ROk [a] else RErr
    | [a; c; b] => if is_symbol a && is_comma c && is_symbol b then ROk [a; b] else RErr
    | _ => RErr
    end.

  Definition body_of (b : tok) : option tok := if body_empty b then None else Some b.

  Inductive range_res := NotRange | RangeIs (r : res forform).

  (* lowerRangeFor *)
  Definition lower_range (label : option tok) (header : list tok) (body : tok) : range_res :=
    match find_assign header O with
    | None => if has_range header then RangeIs RErr else NotRange
    | Some (pos, define) =>
      (* if len(header) <= assignPos+1 || !isSymbolNamed(header[assignPos+1], "range") *)
      let short := if fc_guard_le C then Nat.leb (length header) (pos + fc_guard_off C)
                   else Nat.ltb (length header) (pos + fc_guard_off C) in
      if short then (if has_range header then RangeIs RErr else NotRange)
      else
        match nth_error header (pos + fc_index_off C) with
        | None => RangeIs RCrash                       (* index out of range *)
        | Some t =>
          if negb (sym_named "range" t) then (if has_range header then RangeIs RErr else NotRange)
          else
            match range_targets (firstn pos header) with
            | ROk targets =>
              if Nat.ltb (length header) (pos + fc_source_off C) then RangeIs RCrash   (* slice bounds *)
              else
                match skipn (pos + fc_source_off C) header with
                | [] => RangeIs RErr                   (* missing range expression *)
                | src => match parse_clause src with
                         | ROk (Some x) => RangeIs (ROk (FRange label targets define x (body_of body)))
                         | ROk None => RangeIs RErr
                         | RFuel => RangeIs RFuel | RUnsup => RangeIs RUnsup
                         | RErr => RangeIs RErr | RCrash => RangeIs RCrash
                         end
                end
            | _ => RangeIs RErr
            end
        end
    end.

  Definition bind_res {A B} (r : res A) (f : A -> res B) : res B :=
    match r with ROk a => f a | RFuel => RFuel | RUnsup => RUnsup | RErr => RErr | RCrash => RCrash end.

  (* lowerGoFor *)
  Definition lower_go_for (label : option tok) (header : list tok) (body : tok) : res forform :=
    let nsemi := length (filter is_semi header) in
    match nsemi with
    | O =>
      match lower_range label header body with
      | RangeIs r => r
      | NotRange =>
        bind_res (parse_clause header) (fun test => ROk (FThree label None test None (body_of body)))
      end
    | _ =>
      if negb (Nat.eqb nsemi (fc_nsemi C)) then RErr
      else match split_semis header with
           | [s0; s1; s2] =>
             bind_res (parse_clause s0) (fun init =>
             bind_res (parse_clause s1) (fun test =>
             bind_res (parse_clause s2) (fun post => ROk (FThree label init test post (body_of body)))))
           | _ => RErr
           end
    end.

  (* forOpMunchRightWithLabel: the header runs up to the first body block *)
  Fixpoint find_body (ts : list tok) : option (list tok * tok * list tok) :=
    match ts with
    | [] => None
    | t :: r => if is_body t then Some ([], t, r)
                else match find_body r with
                     | Some (h, b, rest) => Some (t :: h, b, rest)
                     | None => None
                     end
    end.

  (* a statement  [label:] for header body : the lowered form and the tokens after the body *)
  Definition for_stmt (ts : list tok) : res (forform * list tok) :=
    let go (label : option tok) (after_for : list tok) :=
      match find_body after_for with
      | None => RErr                                     (* missing body block *)
      | Some (h, b, rest) => bind_res (lower_go_for label h b) (fun f => ROk (f, rest))
      end in
    match ts with
    | TSym l true :: f :: r => if sym_named "for" f then go (Some (TSym l true)) r else RUnsup
    | f :: r => if sym_named "for" f then go None r else RUnsup
    | [] => RUnsup
    end.

  (* InfixExpandArray with go-style for statements (a superset of Pratt.stmts, used by the runner
     when Pratt.stmts answers RUnsup) *)
  Inductive stmt := SExpr (x : tree tok) | SFor (f : forform).

  Definition starts_for (ts : list tok) : bool :=
    match ts with
    | TSym _ true :: f :: _ => sym_named "for" f
    | f :: _ => sym_named "for" f
    | [] => false
    end.
  Definition labelled (ts : list tok) : bool :=
    match ts with TSym _ true :: f :: _ => sym_named "for" f | _ => false end.
  (* after an unlabelled for (a nud inside Expression) the led loop goes on *)
  Definition continues (ts : list tok) : bool :=
    match ts with
    | t :: _ => match lbp_of entries K t with Some l => 0 <? l | None => true end
    | [] => false
    end.
  Definition skip_semi (ts : list tok) : list tok :=
    match ts with t :: r => if is_semi t then r else ts | [] => [] end.

  Fixpoint stmts_for (fuel : nat) (ts : list tok) : res (list stmt) :=
    match fuel with
    | O => RFuel
    | S f =>
      match drop_semis tok is_semi ts with
      | [] => ROk []
      | t1 :: r1 =>
        if starts_for (t1 :: r1) then
          bind_res (for_stmt (t1 :: r1)) (fun p =>
            if negb (labelled (t1 :: r1)) && continues (snd p) then RUnsup
            else bind_res (stmts_for f (skip_semi (snd p))) (fun xs => ROk (SFor (fst p) :: xs)))
        else
          bind_res (m_parse_one entries K led_err (t1 :: r1)) (fun p =>
            let keep := match fst p with Leaf t => negb (is_semi t) | _ => true end in
            bind_res (stmts_for f (skip_semi (snd p))) (fun xs =>
              ROk (if keep then SExpr (fst p) :: xs else xs)))
      end
    end.
  Definition parse_block_for (ts : list tok) : res (list stmt) := stmts_for (S (length ts)) ts.
End For.
