(* C06 — what an assignment through an index / field path means: specification of
   lvalue = v, lvalue += v, lvalue ++ ... for targets like r[0].b.c, g.w[1], g.p .q.s
   (the prefix forms (set (hashidx (arrayidx r [0]) .b.c) v) ...).  Executable definitions only.
   Nested data: integers, arrays, records (hashes with symbol keys in insertion order). *)
From Coq Require Import ZArith String List Bool.
Import ListNotations.
Open Scope Z_scope.

Inductive dv := DInt (z : Z) | DArr (l : list dv) | DRec (l : list (string * dv)).
Inductive step := SIdx (i : nat) | SFld (k : string).

Fixpoint rec_get (l : list (string * dv)) (k : string) : option dv :=
  match l with
  | [] => None
  | (k', v) :: r => if String.eqb k' k then Some v else rec_get r k
  end.
(* replace the value of an EXISTING key (the order and the number of keys do not change) *)
Fixpoint rec_set (l : list (string * dv)) (k : string) (v : dv) : option (list (string * dv)) :=
  match l with
  | [] => None
  | (k', v') :: r => if String.eqb k' k then Some ((k', v) :: r)
                     else match rec_set r k v with Some r' => Some ((k', v') :: r') | None => None end
  end.
Fixpoint arr_set (l : list dv) (i : nat) (v : dv) : option (list dv) :=
  match l, i with
  | [], _ => None
  | _ :: r, O => Some (v :: r)
  | x :: r, S j => match arr_set r j v with Some r' => Some (x :: r') | None => None end
  end.

Fixpoint dget (p : list step) (d : dv) : option dv :=
  match p with
  | [] => Some d
  | SIdx i :: p' => match d with DArr l => match nth_error l i with Some x => dget p' x | None => None end | _ => None end
  | SFld k :: p' => match d with DRec l => match rec_get l k with Some x => dget p' x | None => None end | _ => None end
  end.

(* assignment to an existing path *)
Fixpoint dset (p : list step) (v : dv) (d : dv) : option dv :=
  match p with
  | [] => Some v
  | SIdx i :: p' =>
    match d with
    | DArr l => match nth_error l i with
                | Some x => match dset p' v x with
                            | Some x' => match arr_set l i x' with Some l' => Some (DArr l') | None => None end
                            | None => None end
                | None => None end
    | _ => None
    end
  | SFld k :: p' =>
    match d with
    | DRec l => match rec_get l k with
                | Some x => match dset p' v x with
                            | Some x' => match rec_set l k x' with Some l' => Some (DRec l') | None => None end
                            | None => None end
                | None => None end
    | _ => None
    end
  end.

Inductive aop := OpSet (k : Z) | OpAdd (k : Z) | OpSub (k : Z) | OpInc | OpDec.

Definition new_value (o : aop) (old : Z) : Z :=
  match o with OpSet k => k | OpAdd k => old + k | OpSub k => old - k | OpInc => old + 1 | OpDec => old - 1 end.

(* the data after  path op : the integer at the path is replaced, everything else is as before *)
Definition assign (p : list step) (o : aop) (d : dv) : option dv :=
  match dget p d with
  | Some (DInt old) => dset p (DInt (new_value o old)) d
  | _ => None
  end.

Definition nkeys (p : list step) (d : dv) : option nat :=
  match dget p d with Some (DRec l) => Some (length l) | Some (DArr l) => Some (length l) | _ => None end.
