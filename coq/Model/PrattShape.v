(* C01 - crash-level model of the infix (Pratt) front end, zygo/pratt.go, in the style of
   Model/GenShape.v: every Go index, slice, unchecked access and explicit panic of
     InfixExpandArray, Pratt.LabeledFor, Pratt.Expression (CnodeStack push / [0] / [1:], the
     `default: panic` of the led dispatch), Pratt.Advance / IsEOF, loopControlOpMunchRight,
     the if-MunchRight closure of InitInfixOps, Infix / Infixr / Prefix / Assignment / PostfixAssign
     closures, arrayOpMunchLeft, dotOpMunchLeft, normalizeArraySelector, splitColonTailSelectorSymbols,
     parseArraySelectorSegment / parseArraySelectorIndex / parsePrattOne, forOpMunchRightWithLabel,
     forBodyExpressions, lowerGoFor, countSemicolons / splitOnSemicolons, lowerRangeFor,
     findRangeAssign / hasRangeSymbol / parseRangeTargets / lowerRangeBinding
   is an explicit test whose failure is the outcome PCrash site; error returns are PErr.
   Values (the trees that are built) are NOT tracked here - Model/Pratt.v (property C06) does that;
   this model follows only what decides control flow: the remaining tokens and the depth of CnodeStack.
   The token classification (Zlisp.LeftBindingPower, the curOp lookups of Expression) is reused from
   Model/Pratt.v over the translator-generated operator table (Generated/InfixTable.v), the guards of
   lowerRangeFor are the constants the translator read from the source (forconsts).
   Unlike Model/Pratt.v the tokens are nested: an array token carries its content (the selector is
   parsed by a nested Pratt), a pair is an infix block or not, a hash is empty or not.
   Executable definitions only; proofs in Proofs/PrattShapeProofs.v. *)
From Coq Require Import ZArith String List Bool Arith.
Import ListNotations.
Require Import ZV.Model.PrattTypes ZV.Model.Pratt.
Require ZV.Generated.InfixTable.
Open Scope Z_scope.

Inductive ptok :=
| PT (t : tok)                 (* a token that is not an array, pair or hash (classified as Pratt.tok) *)
| PArr (content : list ptok)   (* *SexpArray *)
| PBlock (empty : bool)        (* *SexpPair whose head is the symbol infix: a nested { } block *)
| PPair                        (* any other *SexpPair *)
| PHash (empty : bool).        (* *SexpHash; empty: NumKeys == 0 *)

Inductive site :=
| SLedDispatch     (* Expression: default: panic(how to handle cnode type) *)
| SStackTop        (* p.CnodeStack[0] = p.NextToken ; pr.CnodeStack[0] in arrayOpMunchLeft / dotOpMunchLeft *)
| SStackPop        (* p.CnodeStack = p.CnodeStack[1:] *)
| SHeaderIndex     (* lowerRangeFor: header[assignPos+1] *)
| SHeaderSlice     (* lowerRangeFor: header[assignPos+2:] *)
| STargets         (* lowerRangeBinding: targets[0] / targets[1] *)
| SArgsIndex.      (* InfixArgsToArray: args[0] *)

Inductive pres (A : Type) :=
| POk (a : A)
| PErr                 (* the Go code returns an error *)
| PCrash (s : site)    (* the Go code panics *)
| PFuel.               (* the model ran out of fuel *)
Arguments POk {A} a.
Arguments PErr {A}.
Arguments PCrash {A} s.
Arguments PFuel {A}.

Definition pbind {A B} (r : pres A) (f : A -> pres B) : pres B :=
  match r with POk a => f a | PErr => PErr | PCrash s => PCrash s | PFuel => PFuel end.

(* the Pratt.tok a nested token is classified as by LeftBindingPower / Expression *)
Definition cls (p : ptok) : tok :=
  match p with
  | PT t => t
  | PArr _ => TArr 0
  | PBlock _ | PPair => TPair 0
  | PHash _ => THash 0
  end.

Definition p_named (n : string) (p : ptok) : bool :=       (* isSymbolNamed *)
  match p with PT (TSym m _) | PT (TDotSym m) => String.eqb m n | _ => false end.
Definition p_is_semi (p : ptok) : bool := match p with PT TSemi => true | _ => false end.
Definition p_is_comma (p : ptok) : bool := match p with PT TComma => true | _ => false end.
Definition p_is_symbol (p : ptok) : bool := match p with PT (TSym _ _) | PT (TDotSym _) => true | _ => false end.
Definition p_is_label (p : ptok) : bool := match p with PT (TSym _ true) => true | _ => false end.
(* isForBodyBlock: isInfixBlock || isEmptyHashBlock *)
Definition p_is_body (p : ptok) : bool := match p with PBlock _ | PHash true => true | _ => false end.

(* splitColonTailSelectorSymbols *)
Definition p_split_colon_tail (ts : list ptok) : list ptok :=
  flat_map (fun p => match p with
                     | PT (TSym n true) => [PT (TSym n false); PT (TSym ":" false)]
                     | _ => [p] end) ts.

Fixpoint p_split_at_colon (ts : list ptok) : list ptok * list ptok :=
  match ts with
  | [] => ([], [])
  | t :: r => if p_named ":" t then ([], r) else let p := p_split_at_colon r in (t :: fst p, snd p)
  end.

(* splitOnSemicolons *)
Fixpoint p_split_semis (ts : list ptok) : list (list ptok) :=
  match ts with
  | [] => [[]]
  | t :: r => if p_is_semi t then [] :: p_split_semis r
              else match p_split_semis r with s :: ss => (t :: s) :: ss | [] => [[t]] end
  end.

(* findRangeAssign: position of the first := or = *)
Fixpoint p_find_assign (ts : list ptok) (i : nat) : option (nat * bool) :=
  match ts with
  | [] => None
  | t :: r => if p_named ":=" t then Some (i, true)
              else if p_named "=" t then Some (i, false)
              else p_find_assign r (S i)
  end.
Definition p_has_range (ts : list ptok) : bool := existsb (p_named "range") ts.

(* parseRangeTargets: the number of targets, None = error; tokens[0], tokens[1], tokens[2] are
   behind len(tokens) == 1 / == 3 *)
Definition p_range_targets (ts : list ptok) : option nat :=
  match ts with
  | [a] => if p_is_symbol a then Some 1%nat else None
  | [a; c; b] => if p_is_symbol a && p_is_comma c && p_is_symbol b then Some 2%nat else None
  | _ => None
  end.

(* lowerRangeBinding: if len(targets) == 1 { targets[0] } else { targets[0], targets[1] } *)
Definition p_range_binding (ntargets : nat) : pres unit :=
  if Nat.eqb ntargets 1 then POk tt
  else if Nat.leb 2 ntargets then POk tt else PCrash STargets.

(* forOpMunchRightWithLabel: header = pr.Stream[pr.Pos:bodyPos] (bodyPos >= pr.Pos by the loop),
   body = pr.Stream[bodyPos], then pr.Pos = bodyPos; pr.Advance() *)
Fixpoint p_find_body (ts : list ptok) : option (list ptok * ptok * list ptok) :=
  match ts with
  | [] => None
  | t :: r => if p_is_body t then Some ([], t, r)
              else match p_find_body r with
                   | Some (h, b, rest) => Some (t :: h, b, rest)
                   | None => None
                   end
  end.

Section Engine.
  Variable E : list entry.
  Variable K : lbpconsts.
  Variable C : forconsts.

  (* p.CnodeStack = p.CnodeStack[1:] at the end of Expression *)
  Definition pop (ts : list ptok) (d : nat) : pres (list ptok * nat) :=
    match d with O => PCrash SStackPop | S d' => POk (ts, d') end.

  (* state: the tokens from p.Pos on, the depth of p.CnodeStack.  Result: the same after the call. *)
  Fixpoint expr (fuel : nat) (rbp : Z) (ts : list ptok) (d : nat) {struct fuel} : pres (list ptok * nat) :=
    match fuel with
    | O => PFuel
    | S f =>
      match ts with
      | [] => POk ([], d)                        (* if p.IsEOF() { return cnode }: before the push *)
      | t :: rest =>
        let d1 := S d in                          (* p.CnodeStack = append([]Sexp{p.NextToken}, p.CnodeStack...) *)
        pbind
          (match nud_of E (cls t) with
           | NAtom => POk (rest, d1)              (* MunchRight == nil *)
           | NPrefix r _ => expr f r rest d1      (* Prefix closure; starOpMunchRight *)
           | NIf r1 r2 r3 =>                      (* ifOp.MunchRight *)
             pbind (expr f r1 rest d1) (fun qc =>
             pbind (expr f r2 (fst qc) (snd qc)) (fun qt =>
               match fst qt with
               | e :: rest3 => if p_named "else" e then expr f r3 rest3 (snd qt) else POk qt
               | [] => POk qt    (* a stale NextToken named else: Advance + Expression at EOF, which returns *)
               end))
           | NFor => pbind (for_munch f rest) (fun rest' => POk (rest', d1))     (* forOpMunchRight *)
           | NCtl _ =>                            (* loopControlOpMunchRight: optional label symbol *)
             POk (match rest with l :: r => if p_is_symbol l then r else rest | [] => [] end, d1)
           end)
          (fun q => loop f rbp (fst q) (snd q))
      end
    end
  (* for !p.IsEOF() { ... } of Expression, then the pop *)
  with loop (fuel : nat) (rbp : Z) (ts : list ptok) (d : nat) {struct fuel} : pres (list ptok * nat) :=
    match fuel with
    | O => PFuel
    | S f =>
      match ts with
      | [] => pop [] d
      | t :: rest =>
        match lbp_of E K (cls t) with
        | None => PErr
        | Some l =>
          if rbp >=? l then pop ts d
          else
            match led_of E K (cls t) with
            | None => PCrash SLedDispatch
            | Some k =>
              match d with
              | O => PCrash SStackTop             (* p.CnodeStack[0] = p.NextToken *)
              | S _ =>
                match k with
                | LBin r _ => pbind (expr f r rest d) (fun q => loop f rbp (fst q) (snd q))
                | LPostfix _ => loop f rbp rest d
                | LIndex => pbind (norm_sel f t) (fun _ => loop f rbp rest d)   (* arrayOpMunchLeft(pr.CnodeStack[0]) *)
                | LDotIdx => loop f rbp rest d                                   (* dotOpMunchLeft: pr.CnodeStack[0] *)
                | LDrop => loop f rbp rest d
                end
              end
            end
        end
      end
    end
  (* normalizeArraySelector *)
  with norm_sel (fuel : nat) (t : ptok) {struct fuel} : pres unit :=
    match fuel with
    | O => PFuel
    | S f =>
      match t with
      | PArr content =>
        let ts := p_split_colon_tail content in
        match length (filter (p_named ":") ts) with
        | O =>
          if Nat.leb (length ts) (sel_raw_max K) then POk tt
          else pbind (expr f 0 ts O) (fun _ => POk tt)         (* parseArraySelectorIndex *)
        | S O =>
          let p := p_split_at_colon ts in                      (* tokens[:colonPos], tokens[colonPos+1:] *)
          pbind (clause f (fst p)) (fun _ => clause f (snd p))
        | _ => PErr
        end
      | _ => POk tt                                            (* the selector is not an array: unchanged *)
      end
    end
  (* parsePrattOne / parseArraySelectorSegment: a fresh Pratt, Expression(0), must reach EOF *)
  with clause (fuel : nat) (ts : list ptok) {struct fuel} : pres unit :=
    match fuel with
    | O => PFuel
    | S f =>
      match ts with
      | [] => POk tt
      | _ => pbind (expr f 0 ts O) (fun q => match fst q with [] => POk tt | _ :: _ => PErr end)
      end
    end
  (* forOpMunchRightWithLabel, after `for` was consumed: the tokens after the body block *)
  with for_munch (fuel : nat) (ts : list ptok) {struct fuel} : pres (list ptok) :=
    match fuel with
    | O => PFuel
    | S f =>
      match p_find_body ts with
      | None => PErr                                           (* missing body block *)
      | Some (header, body, rest) => pbind (lower_go_for f header body) (fun _ => POk rest)
      end
    end
  (* lowerGoFor *)
  with lower_go_for (fuel : nat) (header : list ptok) (body : ptok) {struct fuel} : pres unit :=
    match fuel with
    | O => PFuel
    | S f =>
      if negb (p_is_body body) then PErr                       (* forBodyExpressions *)
      else
        let nsemi := length (filter p_is_semi header) in
        match nsemi with
        | O =>
          match lower_range f header with
          | Some r => r
          | None => clause f header
          end
        | _ =>
          if negb (Nat.eqb nsemi (fc_nsemi C)) then PErr
          else match p_split_semis header with
               | [s0; s1; s2] => pbind (clause f s0) (fun _ => pbind (clause f s1) (fun _ => clause f s2))
               | _ => PErr
               end
        end
    end
  (* lowerRangeFor: None = not a range loop *)
  with lower_range (fuel : nat) (header : list ptok) {struct fuel} : option (pres unit) :=
    match fuel with
    | O => Some PFuel
    | S f =>
      let notrange := if p_has_range header then Some PErr else None in
      match p_find_assign header O with
      | None => notrange
      | Some (pos, _) =>
        (* if len(header) <= assignPos+1 || !isSymbolNamed(header[assignPos+1], "range") *)
        let short := if fc_guard_le C then Nat.leb (length header) (pos + fc_guard_off C)
                     else Nat.ltb (length header) (pos + fc_guard_off C) in
        if short then notrange
        else
          match nth_error header (pos + fc_index_off C) with
          | None => Some (PCrash SHeaderIndex)
          | Some t =>
            if negb (p_named "range" t) then notrange
            else
              match p_range_targets (firstn pos header) with          (* header[:assignPos] *)
              | None => Some PErr
              | Some n =>
                if Nat.ltb (length header) (pos + fc_source_off C) then Some (PCrash SHeaderSlice)
                else
                  match skipn (pos + fc_source_off C) header with     (* header[assignPos+2:] *)
                  | [] => Some PErr
                  | src => Some (pbind (clause f src) (fun _ => p_range_binding n))
                  end
              end
          end
      end
    end.

  Definition skip_one_semi (ts : list ptok) : list ptok :=
    match ts with t :: r => if p_is_semi t then r else ts | [] => [] end.

  (* InfixExpandArray: the number of statements parsed.  efuel: fuel of each statement *)
  Fixpoint stmts (efuel fuel : nat) (ts : list ptok) {struct fuel} : pres nat :=
    match fuel with
    | O => PFuel
    | S f =>
      match drop_semis ptok p_is_semi ts with
      | [] => POk O
      | t1 :: r1 =>
        pbind
          (match r1 with
           | f0 :: after_for =>
             if p_is_label t1 && p_named "for" f0 then         (* Pratt.LabeledFor *)
               match after_for with
               | [] => PErr                                     (* p.IsEOF() after the two Advance *)
               | _ => for_munch efuel after_for
               end
             else pbind (expr efuel 0 (t1 :: r1) O) (fun q => POk (fst q))
           | [] => pbind (expr efuel 0 (t1 :: r1) O) (fun q => POk (fst q))
           end)
          (fun rest => pbind (stmts efuel f (skip_one_semi rest)) (fun n => POk (S n)))
      end
    end.
End Engine.

(* the instance over the operator table and constants the translator reads from zygo/pratt.go *)
Definition expand_gen (efuel fuel : nat) (ts : list ptok) : pres nat :=
  stmts ZV.Generated.InfixTable.infix_entries ZV.Generated.InfixTable.infix_lbp ZV.Generated.InfixTable.for_consts
        efuel fuel ts.

Fixpoint psize (p : ptok) : nat :=
  match p with
  | PArr l => S (fold_right (fun x acc => (psize x + acc)%nat) O l)
  | _ => 1%nat
  end.
Definition psize_list (l : list ptok) : nat := fold_right (fun x acc => (psize x + acc)%nat) O l.

(* token builder for the runner (kinds: 0 symbol, 1 symbol with colonTail, 2 dot symbol, 3 int, 4 float,
   5 bool, 6 string, 7 comma, 8 semicolon, 9 comment, 10 any other atom, 11 pair, 12 empty infix block,
   13 infix block, 14 empty hash, 15 hash); arrays are built with PArr *)
Definition mk_tok (kind : nat) (name : string) : ptok :=
  match kind with
  | 0 => PT (TSym name false) | 1 => PT (TSym name true) | 2 => PT (TDotSym name)
  | 3 => PT (TInt 0) | 4 => PT (TFloat 0) | 5 => PT (TBool 0) | 6 => PT (TStr 0)
  | 7 => PT TComma | 8 => PT TSemi | 9 => PT (TComment 0) | 10 => PT (TOther 0)
  | 11 => PPair | 12 => PBlock true | 13 => PBlock false | 14 => PHash true | _ => PHash false
  end%nat.

(* ---- generator.go GenerateInfix / pratt.go InfixBuilder: InfixArgsToArray, then InfixExpandArray ---- *)
(* what the type switches of InfixArgsToArray look at in args[0] *)
Inductive argk :=
| AArray (content : list ptok)          (* *SexpArray *)
| APairNil                              (* *SexpPair whose Tail is the sentinel: (infix) *)
| APairArray (content : list ptok)      (* *SexpPair, Tail a pair whose Head is an array: (infix [...]) *)
| APairOther                            (* *SexpPair, Tail a pair with any other Head *)
| APairDotted                           (* *SexpPair, Tail neither sentinel nor pair *)
| AHashArg                              (* *SexpHash *)
| AOtherArg.

(* InfixArgsToArray(name, args); expand: name == "infixExpand".  Some content = the array, None = empty *)
Definition infix_args (expand : bool) (args : list argk) : pres (option (list ptok)) :=
  if negb expand && negb (Nat.eqb (length args) 1) then POk None      (* let {} mean nil *)
  else
    match args with
    | [] => PCrash SArgsIndex                                          (* args[0] *)
    | a :: _ =>
      match a with
      | AArray c => POk (Some c)
      | APairNil => if expand then POk None else PErr
      | APairArray c => if expand then POk (Some c) else PErr
      | APairOther | APairDotted => PErr
      | AHashArg => POk None
      | AOtherArg => PErr
      end
    end.

(* GenerateInfix (expand = false) and the compile-time part of InfixBuilder (expand = true: the infixExpand
   builder, which runs behind the recover of CallUserFunction): the number of expressions to generate *)
Definition infix_form (E : list entry) (K : lbpconsts) (C : forconsts) (expand : bool) (efuel fuel : nat)
    (args : list argk) : pres nat :=
  pbind (infix_args expand args) (fun o =>
    match o with
    | None => POk O
    | Some content => stmts E K C efuel fuel content
    end).

Definition infix_form_gen (expand : bool) (efuel fuel : nat) (args : list argk) : pres nat :=
  infix_form ZV.Generated.InfixTable.infix_entries ZV.Generated.InfixTable.infix_lbp ZV.Generated.InfixTable.for_consts
             expand efuel fuel args.

Definition argk_size (a : argk) : nat :=
  match a with AArray c | APairArray c => psize_list c | _ => O end.

(* weight of a token: a symbol with colonTail counts twice (splitColonTailSelectorSymbols makes two tokens
   of it), an array counts its content *)
Fixpoint pw (p : ptok) : nat :=
  match p with
  | PT (TSym _ true) => 2%nat
  | PArr l => S (fold_right (fun x a => (pw x + a)%nat) O l)
  | _ => 1%nat
  end.
Definition pws (l : list ptok) : nat := fold_right (fun x a => (pw x + a)%nat) O l.


(* the fuel is linear in the weight: 5 * weight + 1 for a statement, weight + 1 statements
   (Proofs/PrattFuelProofs.v: enough for every token list) *)
Definition expand_auto (ts : list ptok) : pres nat :=
  expand_gen (5 * pws ts + 1)%nat (S (pws ts)) ts.

Definition argk_weight (a : argk) : nat :=
  match a with AArray c | APairArray c => pws c | _ => O end.
Definition infix_form_auto (expand : bool) (args : list argk) : pres nat :=
  let w := fold_right (fun a acc => (argk_weight a + acc)%nat) O args in
  infix_form_gen expand (5 * w + 1)%nat (S w) args.
