(* C06 — what an index / slice selects: model of SexpArraySelector.sliceBounds / RHS
   (zygo/arrayutils.go) and the specification (Go slicing).  Executable definitions only.
   The selector is the EVALUATED content of (arrayidx a [ ... ]) as normalizeArraySelector built
   it: [i], [lo : hi], [: hi], [lo :], [:]. *)
From Coq Require Import ZArith List Bool.
Import ListNotations.
Open Scope Z_scope.

Inductive selem := SColon | SInt (z : Z) | SOtherVal.   (* the symbol/function `:`, an int, any other value *)

Inductive selres (A : Type) :=
| VElem (x : A)             (* one element *)
| VSlice (l : list A)       (* a sub-array *)
| VErr.
Arguments VElem {A} x.
Arguments VSlice {A} l.
Arguments VErr {A}.

Section Slice.
  Variable A : Type.

  Fixpoint colon_pos (sel : list selem) (i : nat) (found : option nat) : option (option nat) :=
    (* None = more than one colon (error); Some None = no colon; Some (Some p) *)
    match sel with
    | [] => Some found
    | SColon :: r => match found with Some _ => None | None => colon_pos r (S i) (Some i) end
    | _ :: r => colon_pos r (S i) found
    end.

  Definition int_bound (e : option selem) : option Z :=
    match e with Some (SInt z) => Some z | _ => None end.

  (* sliceBounds: Some (Some (start, end)) slice; Some None = not a slice; None = error *)
  Definition slice_bounds (n : Z) (sel : list selem) : option (option (Z * Z)) :=
    match colon_pos sel O None with
    | None => None
    | Some None => Some None
    | Some (Some p) =>
      if Nat.ltb 3 (length sel) then None
      else
        (* start = 0; end = len *)
        let start := if Nat.eqb p 1 || Nat.eqb p 2 then int_bound (nth_error sel 0) else Some 0 in
        match start with
        | None => None
        | Some st =>
          let en1 := if Nat.eqb p 0 && Nat.eqb (length sel) 2 then int_bound (nth_error sel 1) else Some n in
          match en1 with
          | None => None
          | Some e1 =>
            let en2 := if Nat.eqb p 1 && Nat.eqb (length sel) 3 then int_bound (nth_error sel 2) else Some e1 in
            match en2 with
            | None => None
            | Some e2 => if Nat.eqb p 2 then None else Some (Some (st, e2))
            end
          end
        end
    end.

  (* RHS *)
  Definition select_model (l : list A) (sel : list selem) : selres A :=
    let n := Z.of_nat (length l) in
    match slice_bounds n sel with
    | None => VErr
    | Some (Some (st, en)) =>
      if (st <? 0) || (en <? 0) then VErr
      else if en <? st then VErr
      else if n <? en then VErr
      else VSlice (firstn (Z.to_nat (en - st)) (skipn (Z.to_nat st) l))     (* Val[start:end] *)
    | Some None =>
      match sel with
      | [SInt i] => if i <? 0 then VErr
                    else match nth_error l (Z.to_nat i) with Some x => VElem x | None => VErr end
      | _ => VErr
      end
    end.

  (* specification: Go slicing a[lo:hi] - lo defaults to 0, hi to len(a), valid iff
     0 <= lo <= hi <= len(a); a[i] valid iff 0 <= i < len(a) *)
  Inductive selshape := ShIndex (i : Z) | ShSlice (lo hi : option Z).

  Definition shape_of (sel : list selem) : option selshape :=
    match sel with
    | [SInt i] => Some (ShIndex i)
    | [SColon] => Some (ShSlice None None)
    | [SColon; SInt h] => Some (ShSlice None (Some h))
    | [SInt l; SColon] => Some (ShSlice (Some l) None)
    | [SInt l; SColon; SInt h] => Some (ShSlice (Some l) (Some h))
    | _ => None
    end.

  Definition select_spec (l : list A) (sh : selshape) : selres A :=
    let n := Z.of_nat (length l) in
    match sh with
    | ShIndex i => if (0 <=? i) && (i <? n) then
                     match nth_error l (Z.to_nat i) with Some x => VElem x | None => VErr end
                   else VErr
    | ShSlice lo hi =>
      let a := match lo with Some z => z | None => 0 end in
      let b := match hi with Some z => z | None => n end in
      if (0 <=? a) && (a <=? b) && (b <=? n)
      then VSlice (firstn (Z.to_nat (b - a)) (skipn (Z.to_nat a) l))
      else VErr
    end.
End Slice.
