(* C06 — the independent specification of what an infix block means.
   Executable definitions only.

   The oracle is a different algorithm from the Pratt loop on purpose:
     1. recognise the token list as  unit (binop unit)*  where a unit is
        prefix-operators* operand tight-postfix* (indexing / dot);
     2. split the list at its WEAKEST binary operator — on ties keep the earlier one when the
        operator is right-associative and take the later one when it is left-associative
        (= rightmost of the weakest for a left-associative level, leftmost for a right-associative
        level) — and recurse on both sides.
   It is generic in the token type and in the classification; `Doc` below instantiates it with the
   DOCUMENTED precedence order of the property text (not with the generated table). *)
From Coq Require Import ZArith String List Bool.
Import ListNotations.
Require Import ZV.Model.PrattTypes ZV.Model.Pratt.
Open Scope Z_scope.

Section Spec.
  Variable tok : Type.
  Variable is_operand : tok -> bool.   (* an atom when it stands in operand position *)
  Variable is_prefix : tok -> bool.    (* prefix operator when it stands in operand position *)
  Variable is_binop : tok -> bool.     (* binary operator when it stands in operator position *)
  Variable is_postfix : tok -> bool.   (* tight postfix (index / dot) in operator position *)
  Variable is_semi : tok -> bool.
  Variable prec : tok -> Z.            (* precedence level of a binary operator *)
  Variable rassoc : tok -> bool.       (* right-associative *)

  Record unit_ := mkUnit { u_pre : list tok; u_atom : tok; u_post : list tok }.
  Definition alt := (unit_ * list (tok * unit_))%type.

  Definition unit_tokens (u : unit_) : list tok := u_pre u ++ u_atom u :: u_post u.
  Definition tail_tokens (l : list (tok * unit_)) : list tok :=
    flat_map (fun p => fst p :: unit_tokens (snd p)) l.
  Definition alt_tokens (a : alt) : list tok := unit_tokens (fst a) ++ tail_tokens (snd a).

  (* postfix operators bind tighter than prefix operators: not a[1] = (not (arrayidx a [1])) *)
  Definition unit_tree (u : unit_) : tree tok :=
    fold_right (fun p x => Pre p x) (fold_left (fun x q => Post q x) (u_post u) (Leaf (u_atom u))) (u_pre u).

  (* index of the weakest operator; ties: a left-associative operator replaces an earlier one *)
  Fixpoint weakest (best : nat) (bo : tok) (i : nat) (ops : list tok) : nat :=
    match ops with
    | [] => best
    | o :: r =>
      if (prec o <? prec bo) || ((prec o =? prec bo) && negb (rassoc o))
      then weakest i o (S i) r
      else weakest best bo (S i) r
    end.
  Definition root_index (ops : list tok) : nat :=
    match ops with [] => O | o :: r => weakest O o 1%nat r end.

  Fixpoint split (fuel : nat) (u : unit_) (rest : list (tok * unit_)) : tree tok :=
    match fuel with
    | O => unit_tree u
    | S f =>
      match rest with
      | [] => unit_tree u
      | _ =>
        let i := root_index (map fst rest) in
        match skipn i rest with
        | (o, u') :: after => Bin o (split f u (firstn i rest)) (split f u' after)
        | [] => unit_tree u
        end
      end
    end.
  Definition split_alt (a : alt) : tree tok := split (length (snd a)) (fst a) (snd a).

  (* ---- recognising  unit (binop unit)*  ---- *)
  Fixpoint take_while (p : tok -> bool) (ts : list tok) : list tok * list tok :=
    match ts with
    | t :: r => if p t then let q := take_while p r in (t :: fst q, snd q) else ([], ts)
    | [] => ([], [])
    end.

  Definition take_unit (ts : list tok) : option (unit_ * list tok) :=
    let p := take_while is_prefix ts in
    match snd p with
    | a :: r => if is_operand a
                then let q := take_while is_postfix r in Some (mkUnit (fst p) a (fst q), snd q)
                else None
    | [] => None
    end.

  Fixpoint take_tail (fuel : nat) (ts : list tok) : option (list (tok * unit_) * list tok) :=
    match fuel with
    | O => None
    | S f =>
      match ts with
      | o :: r =>
        if is_binop o then
          match take_unit r with
          | Some (u, r') => match take_tail f r' with
                            | Some (l, r'') => Some ((o, u) :: l, r'')
                            | None => None end
          | None => None
          end
        else Some ([], ts)
      | [] => Some ([], [])
      end
    end.

  Definition take_expr (ts : list tok) : option (alt * list tok) :=
    match take_unit ts with
    | Some (u, r) => match take_tail (S (length r)) r with
                     | Some (l, r') => Some ((u, l), r')
                     | None => None end
    | None => None
    end.

  Definition classify (ts : list tok) : option alt :=
    match take_expr ts with Some (a, []) => Some a | _ => None end.

  Definition spec_parse (ts : list tok) : option (tree tok) :=
    match classify ts with Some a => Some (split_alt a) | None => None end.

  (* statements: separated by semicolons, or simply juxtaposed (newline): a new statement starts
     at a token that can start an expression *)
  Fixpoint spec_stmts (fuel : nat) (ts : list tok) : option (list (tree tok)) :=
    match fuel with
    | O => None
    | S f =>
      match ts with
      | [] => Some []
      | t :: r =>
        if is_semi t then spec_stmts f r else
        match take_expr ts with
        | Some (a, rest) =>
          match rest with
          | [] => Some [split_alt a]
          | t' :: _ =>
            if is_semi t' || is_operand t' || is_prefix t'
            then match spec_stmts f rest with Some xs => Some (split_alt a :: xs) | None => None end
            else None
          end
        | None => None
        end
      end
    end.
  Definition spec_block (ts : list tok) : option (list (tree tok)) := spec_stmts (S (length ts)) ts.
End Spec.

Arguments mkUnit {tok} _ _ _.
Arguments u_pre {tok} _.
Arguments u_atom {tok} _.
Arguments u_post {tok} _.

(* ------------------------------------------------------------------------------------------ *)
(* The documented table (property text of C06; associativity of and/or from the doc comment of
   Infixr in pratt.go; `=`/`:=` expand to `set` per tests/infix.zy). Level 1 binds weakest.     *)
Module Doc.
  Open Scope string_scope.
  Definition levels : list (list string * bool) := [
    (["="; ":="; "+="; "-="], true);              (* 1 assignment, right-associative *)
    (["comma"], false);                           (* 2 comma *)
    (["or"; "and"], true);                        (* 3 or / and (short-circuit, right-associative) *)
    (["=="; "!="; ">"; ">="; "<"; "<="], false);  (* 4 comparisons *)
    (["+"; "-"], false);                          (* 5 *)
    (["*"; "/"; "mod"], false);                   (* 6 *)
    (["**"], true)                                (* 7 power, right-associative *)
  ].
  Definition prefix_names : list string := ["not"].            (* 8 *)
  (* 9: indexing a[i], slicing a[i:j], field access a.b  (array token / dot symbol);
        parenthesised calls (f x) are operands *)
  (* operator names of the implementation that the property text does not order: the
     specification is silent on inputs that use them *)
  Definition undocumented : list string := ["++"; "--"; "break"; "continue"; "for"; "if"; "."].
  Definition reserved_plain : list string := ["else"; ":"].

  Fixpoint level_of (n : string) (ls : list (list string * bool)) (i : Z) : option (Z * bool) :=
    match ls with
    | [] => None
    | (names, r) :: rest => if existsb (String.eqb n) names then Some (i, r) else level_of n rest (i + 1)
    end.
  Definition level (n : string) : option (Z * bool) := level_of n levels 1.
  Definition comma_level : Z := 2.

  Definition is_reserved (n : string) : bool :=
    match level n with Some _ => true | None => false end
    || existsb (String.eqb n) prefix_names
    || existsb (String.eqb n) undocumented
    || existsb (String.eqb n) reserved_plain.

  Definition is_operand (t : tok) : bool :=
    match t with
    | TSym n false => negb (is_reserved n)
    | TSym _ true => false                  (* name: is a label, not an operand *)
    | TDotSym n => negb (is_reserved n)
    | TInt _ | TFloat _ | TBool _ | TStr _ | TPair _ | TArr _ | THash _ => true
    | TOther _ => true                      (* the nil literal, char and uint64 literals, ... *)
    | TComma | TSemi | TComment _ => false
    end.
  Definition is_prefix (t : tok) : bool :=
    match t with TSym n false => existsb (String.eqb n) prefix_names | _ => false end.
  Definition is_binop (t : tok) : bool :=
    match t with
    | TSym n false => match level n with Some _ => true | None => false end
    | TComma => true
    | _ => false
    end.
  Definition is_postfix (t : tok) : bool :=
    match t with TArr _ => true | TDotSym n => negb (is_reserved n) | _ => false end.
  Definition is_semi (t : tok) : bool := match t with TSemi => true | _ => false end.
  Definition prec (t : tok) : Z :=
    match t with
    | TSym n _ => match level n with Some (l, _) => l | None => 0 end
    | TComma => comma_level
    | _ => 0
    end.
  Definition rassoc (t : tok) : bool :=
    match t with
    | TSym n _ => match level n with Some (_, r) => r | None => false end
    | _ => false
    end.

  (* ++ and -- : postfix operators at the assignment level (they bind weaker than every binary
     operator except the assignment operators, inside whose right operand they apply) *)
  Definition lowpost_names : list string := ["++"; "--"].
  Definition is_lowpost (t : tok) : bool :=
    match t with TSym n false => existsb (String.eqb n) lowpost_names | _ => false end.
  Definition assign_level : Z := 1.
  (* no assignment operator among the top-level operators of an expression *)
  Definition no_assign (a : alt tok) : bool :=
    forallb (fun p : tok * unit_ tok => (assign_level <? prec (fst p))%Z) (snd a).
  Definition if_tok : tok := TSym "if" false.
  Definition else_tok : tok := TSym "else" false.

  Definition bin_head (t : tok) : string :=
    match t with
    | TComma => "comma"
    | TSym n _ => if String.eqb n "=" || String.eqb n ":=" then "set" else n
    | _ => ""
    end.

  Definition parse (ts : list tok) := spec_parse tok is_operand is_prefix is_binop is_postfix prec rassoc ts.
  Definition block (ts : list tok) := spec_block tok is_operand is_prefix is_binop is_postfix is_semi prec rassoc ts.

  (* what the specification says an index selector [ ... ] means *)
  Inductive sselector :=
  | SSRaw (ts : list tok)
  | SSIdx (x : tree tok)
  | SSSlice (a b : option (tree tok)).

  (* a single expression, or  E ++ / E --  (E without a top-level assignment operator) *)
  Definition parse_ext (ts : list tok) : option (tree tok) :=
    match parse ts with
    | Some x => Some x
    | None =>
      match rev ts with
      | q :: re =>
        if is_lowpost q then
          match classify tok is_operand is_prefix is_binop is_postfix (rev re) with
          | Some a => if no_assign a then Some (Post q (split_alt tok prec rassoc a)) else None
          | None => None
          end
        else None
      | [] => None
      end
    end.

  Definition seg (ts : list tok) : option (option (tree tok)) :=
    match ts with [] => Some None | _ => match parse ts with Some x => Some (Some x) | None => None end end.

  Definition selector (content : list tok) : option sselector :=
    let ts := split_colon_tail content in
    match length (filter is_colon ts) with
    | O =>
      match ts with
      | [] | [_] => Some (SSRaw ts)
      | _ => match parse_ext ts with
             | Some x => Some (SSIdx x)
             | None => match block ts with
                       | Some (_ :: _ :: _) => if forallb is_operand ts then Some (SSRaw ts) else None
                       | _ => None end
             end
      end
    | S O =>
      let p := split_at_colon ts in
      match seg (fst p), seg (snd p) with
      | Some a, Some b => Some (SSSlice a b)
      | _, _ => None
      end
    | _ => None
    end.
End Doc.
