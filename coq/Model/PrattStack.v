(* C06 - Pratt.Expression of zygo/pratt.go WITH its CnodeStack.
   Model/Pratt.v builds the postfix nodes (arrayidx left selector) / (hashidx left .field) from the token
   the led loop is looking at.  The Go code does not: arrayOpMunchLeft and dotOpMunchLeft read
   pr.CnodeStack[0], a stack that Expression pushes at entry (append([]Sexp{p.NextToken}, p.CnodeStack...)),
   overwrites at every round of the led loop (p.CnodeStack[0] = p.NextToken) and pops at exit
   (p.CnodeStack = p.CnodeStack[1:]).  exprS / loopS mirror exactly that; Proofs/PrattStackProofs.v proves
   that at EVERY nesting depth the top of the stack is the operator token (exprS = expr, stack restored). *)
From Coq Require Import ZArith String List Bool.
Import ListNotations.
Require Import ZV.Model.PrattTypes ZV.Model.Pratt.
Open Scope Z_scope.

Section EngineS.
  Variable tok : Type.
  Variable lbp : tok -> option Z.
  Variable nud : tok -> nudk.
  Variable led : tok -> option ledk.
  Variable is_else : tok -> bool.
  Variable led_err : tok -> bool.
  Variable eof_tok : option tok.

  Notation tree := (tree tok).
  Definition out := (tree * list tok * list tok)%type.       (* result, rest of the stream, CnodeStack *)

  (* pr.CnodeStack[0] in a MunchLeft: an empty stack is an index-out-of-range panic *)
  Definition top (st : list tok) : res tok := match st with c :: _ => ROk c | [] => RCrash end.

  Fixpoint exprS (fuel : nat) (rbp : Z) (st : list tok) (ts : list tok) {struct fuel} : res out :=
    match fuel with
    | O => RFuel
    | S f =>
      match ts with
      | [] => ROk (Eof, [], st)                   (* if p.IsEOF() { return cnode }: nothing pushed *)
      | t :: rest =>
        let st1 := t :: st in                     (* p.CnodeStack = append([]Sexp{p.NextToken}, p.CnodeStack...) *)
        bind
          (match nud t with
           | NAtom => ROk (Leaf t, rest, st1)
           | NPrefix r _ => bind (exprS f r st1 rest) (fun p => ROk (Pre t (fst (fst p)), snd (fst p), snd p))
           | NIf r1 r2 r3 =>
             bind (exprS f r1 st1 rest) (fun pc =>
             bind (exprS f r2 (snd pc) (snd (fst pc))) (fun pt =>
               match snd (fst pt) with
               | e :: rest3 =>
                 if is_else e
                 then bind (exprS f r3 (snd pt) rest3) (fun pe =>
                        ROk (Cond t (fst (fst pc)) (fst (fst pt)) (Some (e, fst (fst pe))), snd (fst pe), snd pe))
                 else ROk (Cond t (fst (fst pc)) (fst (fst pt)) None, snd (fst pt), snd pt)
               | [] =>
                 match eof_tok with
                 | Some e => if is_else e then ROk (CondStale t (fst (fst pc)) (fst (fst pt)), [], snd pt)
                             else ROk (Cond t (fst (fst pc)) (fst (fst pt)) None, [], snd pt)
                 | None => ROk (Cond t (fst (fst pc)) (fst (fst pt)) None, [], snd pt)
                 end
               end))
           | NFor => RUnsup
           | NCtl _ => RUnsup
           end)
          (fun p => loopS f rbp (snd p) (fst (fst p)) (snd (fst p)))
      end
    end
  with loopS (fuel : nat) (rbp : Z) (st : list tok) (left : tree) (ts : list tok) {struct fuel} : res out :=
    match fuel with
    | O => RFuel
    | S f =>
      match ts with
      | [] => ROk (left, [], tl st)               (* p.CnodeStack = p.CnodeStack[1:] *)
      | t :: rest =>
        match lbp t with
        | None => RErr
        | Some l =>
          if rbp >=? l then ROk (left, ts, tl st)
          else
            match led t with
            | None => RCrash
            | Some k =>
              let st1 := t :: tl st in            (* p.CnodeStack[0] = p.NextToken *)
              match k with
              | LBin r _ => bind (exprS f r st1 rest) (fun p => loopS f rbp (snd p) (Bin t left (fst (fst p))) (snd (fst p)))
              | LPostfix _ => loopS f rbp st1 (Post t left) rest
              | LIndex =>                          (* arrayOpMunchLeft: selector from pr.CnodeStack[0] *)
                bind (top st1) (fun c => if led_err c then RErr else loopS f rbp st1 (Post c left) rest)
              | LDotIdx =>                         (* dotOpMunchLeft: (hashidx left pr.CnodeStack[0]) *)
                bind (top st1) (fun c => loopS f rbp st1 (Post c left) rest)
              | LDrop => loopS f rbp st1 (Drop t left) rest
              end
            end
        end
      end
    end.
End EngineS.
