(* C06 — types shared by the translator-generated operator table (Generated/InfixTable.v)
   and the Pratt model (Model/Pratt.v).  Executable definitions only. *)
From Coq Require Import ZArith String List.
Import ListNotations.
Open Scope Z_scope.

(* What the led (MunchLeft) of an operator does, as far as parsing is concerned.
   pratt.go: Infix / Infixr / Assignment / PostfixAssign / arrayOpMunchLeft / dotOpMunchLeft *)
Inductive ledk :=
| LBin (r : Z) (head : string)   (* right := Expression(r); result (head left right) *)
| LPostfix (head : string)       (* result (head left), no recursion (PostfixAssign) *)
| LIndex                         (* (arrayidx left selector), selector = the array token itself *)
| LDotIdx                        (* (hashidx left dot-symbol) *)
| LDrop.                         (* MunchLeft == nil: AccumTree = cnode, the left tree is dropped *)

(* What the nud (MunchRight) does. *)
Inductive nudk :=
| NAtom                          (* MunchRight == nil: the token itself *)
| NPrefix (r : Z) (head : string)(* right := Expression(r); result (head right) *)
| NIf (r1 r2 r3 : Z)             (* if: Expression(r1), Expression(r2), optional else Expression(r3) -> (cond ..) *)
| NFor                           (* go-style for header: not modelled in Coq *)
| NCtl (name : string).          (* break / continue [label] *)

Record entry := mkEntry {
  e_name : string;     (* key in env.infixOps *)
  e_bp   : Z;          (* InfixOp.Bp *)
  e_ctor : string;     (* constructor used in InitInfixOps *)
  e_nud  : nudk;
  e_led  : ledk
}.

(* constants of Zlisp.LeftBindingPower and of the dispatch in Pratt.Expression *)
Record lbpconsts := mkLbp {
  lbp_int : Z; lbp_float : Z; lbp_bool : Z; lbp_str : Z;
  lbp_array : Z; lbp_comma : Z; lbp_semicolon : Z; lbp_comment : Z; lbp_pair : Z; lbp_hash : Z;
  lbp_dotsym : Z;                (* symbol with isDot not found in the table *)
  lbp_sym_default : Z;           (* symbol not in the table *)
  lbp_zero_syms : list string;   (* names forced to a constant before the table lookup ("if") *)
  lbp_zero_val : Z;
  lbp_noled_val : Z;             (* found in the table but MunchLeft == nil (prefix-only operator) *)
  key_comma : string;            (* env.infixOps["comma"] used for a comma token *)
  key_dot : string;              (* env.infixOps["."] used for a dot symbol *)
  array_bp : Z;                  (* arrayOp.Bp *)
  array_led : ledk;              (* arrayOp.MunchLeft *)
  sel_raw_max : nat;             (* normalizeArraySelector: an index of at most this many tokens is not parsed *)
  lbp_other : option Z           (* any other Sexp type (nil, char, uint64, ...): None = LeftBindingPower returns an error *)
}.

(* constants of lowerGoFor / lowerRangeFor read from the source *)
Record forconsts := mkFor {
  fc_nsemi : nat;          (* a three-clause header has exactly this many semicolons *)
  fc_guard_le : bool;      (* the guard before header[assignPos+off] is `len(header) <= assignPos+off` (true) or `<` (false) *)
  fc_guard_off : nat;      (* off in the guard *)
  fc_index_off : nat;      (* header[assignPos+off] *)
  fc_source_off : nat      (* header[assignPos+off:] *)
}.

