(* Model of the printers of zygo (the SexpString methods of zygo/expressions.go and
   zygo/hashutils.go, with Go's strconv.Itoa / FormatUint / Quote / QuoteRune written out) and of the
   conversion of literal tokens to values (zygo/parser.go ParseExpression, the Token* cases), for C12.
   Reading = Model/Lexer.v [lex_all] + Model/Reader.v [parse_whole] (owner C13) composed with
   [sexp_value] below.

   Oracles (arguments of the functions; Section variables in the proofs):
     is_print    : strconv.IsPrint
     the float formatter: a float is (bits, Scientific flag); the digits strconv.FormatFloat produces
                 are supplied as a structured token [ftok]; the DECORATION (sign, point, ".0" rule,
                 exponent form, Inf / NaN spelling) is modelled here
     parse_float : strconv.ParseFloat on a decimal float text without underscores
   Texts are lists of runes (Z); an invalid UTF-8 byte b inside a Go string is the item [BadByte b]
   and is written to a printed text as the negative number -b (what a RuneScanner then delivers is
   U+FFFD, see [scan_text]).  Executable definitions only. *)
From Coq Require Import ZArith List Bool.
From ZV Require Import Model.Regex Generated.LexTables Model.Lexer Model.Reader.
Import ListNotations.
Open Scope Z_scope.

(* ---- decimal and hexadecimal digits (strconv.Itoa, strconv.FormatUint, the \x \u \U escapes) ---- *)

(* digits of n >= 0, most significant first; fuel = maximal number of digits *)
Fixpoint dec_fuel (f : nat) (n : Z) : list Z :=
  match f with
  | O => [48 + n mod 10]
  | S f' => if n <? 10 then [48 + n] else dec_fuel f' (n / 10) ++ [48 + n mod 10]
  end.

Definition dec (n : Z) : list Z := dec_fuel 20 n.          (* enough for n < 10^21 *)

(* strconv.Itoa(int(v)) for an int64 *)
Definition itoa (z : Z) : list Z := if z <? 0 then 45 :: dec (- z) else dec z.

Definition str_ULL : list Z := [85; 76; 76].
(* strconv.FormatUint(v, 10) + "ULL" *)
Definition utoa (z : Z) : list Z := dec z ++ str_ULL.

Definition hex_digit (d : Z) : Z := if d <? 10 then 48 + d else 87 + d.   (* lower case *)
Definition hex2 (b : Z) : list Z := [hex_digit (b / 16 mod 16); hex_digit (b mod 16)].
Definition hex4 (r : Z) : list Z := hex2 (r / 256 mod 256) ++ hex2 (r mod 256).
Definition hex8 (r : Z) : list Z := hex4 (r / 65536 mod 65536) ++ hex4 (r mod 65536).

(* ---- strconv.Quote / strconv.QuoteRune (quote.go: quoteWith, appendEscapedRune with
        ASCIIonly = graphicOnly = false) ---- *)

Inductive sitem : Type :=
| Rune (c : Z)        (* a validly encoded code point *)
| BadByte (b : Z).    (* a byte that is not part of a valid UTF-8 sequence, 128 <= b <= 255 *)

Section Quote.
Variable is_print : Z -> bool.

(* quote.go: appendEscapedRune *)
Definition escaped_rune (quote : Z) (r : Z) : list Z :=
  if (r =? quote) || (r =? 92) then [92; r]
  else if is_print r then [r]
  else if r =? 7 then [92; 97]          (* \a *)
  else if r =? 8 then [92; 98]          (* \b *)
  else if r =? 12 then [92; 102]        (* \f *)
  else if r =? 10 then [92; 110]        (* \n *)
  else if r =? 13 then [92; 114]        (* \r *)
  else if r =? 9 then [92; 116]         (* \t *)
  else if r =? 11 then [92; 118]        (* \v *)
  else if (r <? 32) || (r =? 127) then [92; 120] ++ hex2 r
  else if r <? 65536 then [92; 117] ++ hex4 r
  else [92; 85] ++ hex8 r.

Definition quote_item (quote : Z) (it : sitem) : list Z :=
  match it with
  | Rune c => escaped_rune quote c
  | BadByte b => [92; 120] ++ hex2 b
  end.

(* strconv.Quote(s) *)
Definition quote_str (s : list sitem) : list Z := 34 :: flat_map (quote_item 34) s ++ [34].
(* strconv.QuoteRune(r), r a Unicode scalar value *)
Definition quote_rune (r : Z) : list Z := 39 :: escaped_rune 39 r ++ [39].

End Quote.

(* the bytes of a Go string written without quoting (hash keys, symbols) *)
Definition raw_item (it : sitem) : Z := match it with Rune c => c | BadByte b => - b end.

(* ---- floats ---- *)

(* the digits strconv.FormatFloat(f, 'f' or 'e', -1, 64) produced for a finite float *)
Record ftok : Type := mkF {
  f_neg : bool;
  f_int : list Z;                      (* digits before the point *)
  f_frac : list Z;                     (* digits after the point; [] = no point *)
  f_exp : option (bool * list Z) }.    (* 'e' format: sign of the exponent (true = '-'), its digits *)

Inductive fclass : Type := FNaN | FInf (neg : bool) | FFin (t : ftok).

Definition str_pInf : list Z := [43; 73; 110; 102].
Definition str_mInf : list Z := [45; 73; 110; 102].

Definition ftok_text (t : ftok) : list Z :=
  (if f_neg t then [45] else []) ++ f_int t
  ++ (match f_frac t with [] => [] | fr => 46 :: fr end)
  ++ (match f_exp t with None => [] | Some (en, ed) => 101 :: (if en then 45 else 43) :: ed end).

(* expressions.go: SexpFloat.SexpString.  sci = the Scientific flag; the class carries the digits
   of the matching format ('e' when sci, else 'f') *)
Definition float_text (c : fclass) (sci : bool) : list Z :=
  match c with
  | FNaN => str_NaN
  | FInf neg => if neg then str_mInf else str_pInf
  | FFin t =>
      if sci then ftok_text t
      else match f_frac t with
           | [] => ftok_text t ++ [46; 48]      (* keep an integral float recognizable: 3.0 *)
           | _ => ftok_text t
           end
  end.

(* ---- data values ---- *)

Inductive value : Type :=
| VInt (z : Z)
| VUint (z : Z)
| VFloat (bits : Z) (sci : bool) (c : fclass)   (* c: what the formatter oracle says about bits *)
| VBool (b : bool)
| VNil
| VChar (c : Z)
| VStr (s : list sitem)
| VSym (name : list Z)
| VPair (h t : value)                           (* SexpPair{Head, Tail} *)
| VArr (l : list value)
| VHash (kvs : list (value * value))            (* type "hash", keys in KeyOrder *)
| VBStr (s : list sitem).                       (* a string carrying the backtick flag (read from a `...` literal) *)

Definition str_false : list Z := [102; 97; 108; 115; 101].

Section Print.
Variable is_print : Z -> bool.

(* expressions.go SexpPair.SexpString / SexpArray.SexpString (no Pretty, no JSON) /
   hashutils.go SexpHash.SexpString for TypeName "hash".
   [pr true v] prints v in tail position of a pair: " h ...", ")" or " \ v)". *)
Fixpoint pr (tail : bool) (v : value) : list Z :=
  let body :=
    match v with
    | VInt z => itoa z
    | VUint z => utoa z
    | VFloat _ sci c => float_text c sci
    | VBool b => if b then str_true else str_false
    | VNil => str_nil
    | VChar c => quote_rune is_print c
    | VStr s => quote_str is_print s
    | VSym n => n
    | VPair h t => 40 :: pr false h ++ pr true t
    | VArr l =>
        91 :: (fix elems (l : list value) : list Z :=
                 match l with
                 | [] => [93]
                 | [x] => pr false x ++ [93]
                 | x :: r => pr false x ++ 32 :: elems r
                 end) l
    | VHash kvs =>
        123 :: (fix pairs (l : list (value * value)) : list Z :=
                  match l with
                  | [] => [125]
                  | (k, x) :: r =>
                      (match k with
                       | VStr s | VBStr s => quote_str is_print s ++ [58]   (* strconv.Quote(s.S) + ":" *)
                       | VSym n => n ++ [58]
                       | _ => pr false k ++ [58]
                       end) ++ pr false x ++ (match r with [] => [125] | _ => 32 :: pairs r end)
                  end) kvs
    | VBStr s => 96 :: map raw_item s ++ [96]    (* SexpStr.SexpString with the backtick flag: verbatim between backticks *)
    end in
  if tail then
    match v with
    | VPair h t => 32 :: pr false h ++ pr true t
    | VNil => [41]
    | _ => [32; 92; 32] ++ body ++ [41]
    end
  else body.

Definition print (v : value) : list Z := pr false v.

End Print.

(* ---- hashes built by a history of hset / hdel (the abstract map: keys in order of first insertion,
        a deleted key leaves, a re-inserted key goes to the end; string and symbol keys) ---- *)

Fixpoint sitems_eqb (a b : list sitem) : bool :=
  match a, b with
  | [], [] => true
  | Rune x :: a', Rune y :: b' => (x =? y) && sitems_eqb a' b'
  | BadByte x :: a', BadByte y :: b' => (x =? y) && sitems_eqb a' b'
  | _, _ => false
  end.

Definition key_eqb (a b : value) : bool :=
  match a, b with
  | VStr x, VStr y => sitems_eqb x y
  | VSym x, VSym y => list_eqb x y
  | _, _ => false
  end.

Fixpoint hist_set (k v : value) (h : list (value * value)) : list (value * value) :=
  match h with
  | [] => [(k, v)]
  | (k', v') :: r => if key_eqb k k' then (k', v) :: r else (k', v') :: hist_set k v r
  end.

Fixpoint hist_del (k : value) (h : list (value * value)) : list (value * value) :=
  match h with
  | [] => []
  | (k', v') :: r => if key_eqb k k' then r else (k', v') :: hist_del k r
  end.

Inductive hop : Type := HSet (k v : value) | HDel (k : value).

Definition hist_apply (ops : list hop) : value :=
  VHash (fold_left (fun h o => match o with HSet k v => hist_set k v h | HDel k => hist_del k h end) ops []).

(* slurp.go WriteToFileFunction (writef / owritef / save) on a value that is neither an array nor raw bytes:
   the printed text, without its outer quotes or backticks when it is a string, and a newline *)
Definition strip_outer (q : Z) (s : list Z) : option (list Z) :=
  match s with
  | c :: rest => if (c =? q) && (last rest 0 =? q) && (1 <=? Z.of_nat (length rest)) then Some (removelast rest) else None
  | [] => None
  end.

Definition save_text (is_print : Z -> bool) (v : value) : list Z :=
  let s := print is_print v in
  (match strip_outer 34 s with
   | Some t => t
   | None => match strip_outer 96 s with Some t => t | None => s end
   end) ++ [10].

(* what an io.RuneScanner delivers for the printed bytes: an invalid byte arrives as U+FFFD *)
Definition scan_text (t : list Z) : list Z := map (fun c => if c <? 0 then 65533 else c) t.

(* ---- the expression the parser should build for a value (floats by their printed text) ---- *)

Definition item_rune (it : sitem) : Z := match it with Rune c => c | BadByte _ => 65533 end.

Fixpoint to_sexp (v : value) : sexp :=
  match v with
  | VInt z => SInt z
  | VUint z => SUint z
  | VFloat _ sci c =>
      match c with
      | FFin _ => SFloat sci (float_text c sci)
      | _ => SFloat false (float_text c sci)
      end
  | VBool b => SBool b
  | VNil => SNull
  | VChar c => SChar c
  | VStr s => SStr false (map item_rune s)
  | VBStr s => SStr true (map item_rune s)
  | VSym n => SSym false false n
  | VPair h t => SPair (to_sexp h) (to_sexp t)
  | VArr l => SArr false (map to_sexp l)
  | VHash kvs =>                 (* read as data: the list (hash k: v "s" : v ...) ; {} is the empty hash *)
      match kvs with
      | [] => SHashEmpty
      | _ => SPair (sym str_hash)
               ((fix items (l : list (value * value)) : sexp :=
                   match l with
                   | [] => SNull
                   | (k, x) :: r =>
                       match k with
                       | VSym n => SPair (SSym true false n) (SPair (to_sexp x) (items r))
                       | VStr s => SPair (SStr false (map item_rune s)) (SPair (sym [58]) (SPair (to_sexp x) (items r)))
                       | _ => SPair (to_sexp k) (SPair (sym [58]) (SPair (to_sexp x) (items r)))
                       end
                   end) kvs)
      end
  end.

(* ---- evaluated values of the JSON-like fragment ---- *)

Inductive jkey : Type := JKSym (n : list Z) | JKStr (s : list Z).

Inductive jvalue : Type :=
| JInt (z : Z) | JUint (z : Z) | JFloat (sci : bool) (bits : Z) | JNaN | JBool (b : bool) | JNil
| JStr (s : list Z) | JArr (l : list jvalue) | JHash (kvs : list (jkey * jvalue)).

Definition jkey_eqb (a b : jkey) : bool :=
  match a, b with
  | JKSym x, JKSym y => list_eqb x y
  | JKStr x, JKStr y => list_eqb x y
  | _, _ => false
  end.

(* hashutils.go HashSet on the hash under construction: an existing key keeps its place *)
Fixpoint jset (k : jkey) (v : jvalue) (h : list (jkey * jvalue)) : list (jkey * jvalue) :=
  match h with
  | [] => [(k, v)]
  | (k', v') :: r => if jkey_eqb k k' then (k', v) :: r else (k', v') :: jset k v r
  end.

(* the original value as the evaluation sees it *)
Definition jk_of (k : value) : jkey :=
  match k with VSym n => JKSym n | VStr s => JKStr (map item_rune s) | _ => JKStr [] end.

Fixpoint jv_of (v : value) : jvalue :=
  match v with
  | VInt z => JInt z
  | VUint z => JUint z
  | VFloat b sci c => match c with FNaN => JNaN | FInf _ => JFloat false b | FFin _ => JFloat sci b end
  | VBool b => JBool b
  | VStr s | VBStr s => JStr (map item_rune s)
  | VArr l => JArr (map jv_of l)
  | VHash kvs => JHash (map (fun kv => (jk_of (fst kv), jv_of (snd kv))) kvs)
  | _ => JNil
  end.

(* ---- literal conversion: token -> value (parser.go ParseExpression, cases TokenBool .. TokenFloat) ---- *)

Inductive rvalue : Type :=       (* a value as read: floats are known by the parse oracle only *)
| RInt (z : Z) | RUint (z : Z) | RFloat (sci : bool) (bits : option Z) (text : list Z)
| RBool (b : bool) | RChar (c : Z) | RStr (s : list Z) | RSym (n : list Z).

Section Atom.
Variable parse_float : list Z -> option Z.    (* strconv.ParseFloat(text, 64) as bits; None = error *)

Definition inf_word (t : list Z) : bool := list_eqb t str_Inf || list_eqb t str_inf.

(* strconv.ParseFloat on a token text: Inf words, else underscores must be well placed
   (strconv.underscoreOK) and are then ignored *)
Definition parse_float_text (text : list Z) : option Z :=
  match text with
  | 45 :: t => if inf_word t then Some 18442240474082181120 (* 0xFFF0.. *) else
               if underscore_ok text then parse_float (remove_z 95 text) else None
  | 43 :: t => if inf_word t then Some 9218868437227405312 (* 0x7FF0.. *) else None
  | _ => if inf_word text then Some 9218868437227405312 else
         if underscore_ok text then parse_float (remove_z 95 text) else None
  end.

(* None = the parser reports an error for this token *)
Definition atom_value (t : token) : option rvalue :=
  match t_kind t with
  | TBool => Some (RBool (list_eqb (t_str t) str_true))
  | TUint64 => option_map RUint (conv_uint64 (t_str t))
  | TDecimal => option_map RInt (parse_int 10 (remove_z 95 (t_str t)))
  | THex => option_map RInt (parse_int 16 (t_str t))
  | TOct => option_map RInt (parse_int 8 (t_str t))
  | TBinary => option_map RInt (parse_int 2 (t_str t))
  | TChar => Some (RChar (hd 0 (t_str t)))       (* utf8.DecodeRuneInString(tok.str) *)
  | TString => Some (RStr (t_str t))
  | TFloat =>
      if list_eqb (t_str t) str_NaN then Some (RFloat false None (t_str t))
      else match parse_float_text (t_str t) with
           | Some b => Some (RFloat (contains_e (t_str t)) (Some b) (t_str t))
           | None => None
           end
  | TSymbol => Some (RSym (t_str t))
  | _ => None
  end.

End Atom.

(* ---- evaluation of a JSON-like expression: self-evaluating literals, array literals, and the hash builder
        (builders.go / hashutils.go MakeHash on the arguments of (hash k: v "s" : v ...): a colon-symbol k: is the
        symbol key k, a string key is followed by the symbol : which is skipped, keys are set in order) ---- *)
Section Eval.
Variable parse_float : list Z -> option Z.

Fixpoint eval_json_like (e : sexp) : option jvalue :=
  match e with
  | SInt z => Some (JInt z)
  | SUint z => Some (JUint z)
  | SFloat sci text =>
      if list_eqb text str_NaN then Some JNaN
      else match parse_float_text parse_float text with Some b => Some (JFloat sci b) | None => None end
  | SBool b => Some (JBool b)
  | SNull => Some JNil
  | SStr _ s => Some (JStr s)
  | SArr false l =>
      option_map JArr
        ((fix elems (l : list sexp) : option (list jvalue) :=
            match l with
            | [] => Some []
            | x :: r => match eval_json_like x, elems r with
                        | Some jx, Some jr => Some (jx :: jr)
                        | _, _ => None
                        end
            end) l)
  | SHashEmpty => Some (JHash [])
  | SPair (SSym false false h) items =>
      if list_eqb h str_hash then
        option_map JHash
          ((fix pairs (it : sexp) (acc : list (jkey * jvalue)) : option (list (jkey * jvalue)) :=
              match it with
              | SNull => Some acc
              | SPair (SSym true false n) (SPair x rest) =>
                  match eval_json_like x with
                  | Some jx => pairs rest (jset (JKSym n) jx acc)
                  | None => None
                  end
              | SPair (SStr _ s) (SPair (SSym false false c) (SPair x rest)) =>
                  if list_eqb c [58] then
                    match eval_json_like x with
                    | Some jx => pairs rest (jset (JKStr s) jx acc)
                    | None => None
                    end
                  else None
              | _ => None
              end) items [])
      else None
  | _ => None
  end.

End Eval.

(* ---- reading a whole text (parser.go ParseTokens on WholeText) ---- *)

Definition read_fuel (text : list Z) : nat := (4 * length text + 8)%nat.

Definition read (text : list Z) : status * list sexp :=
  observe (parse_whole true false (read_fuel text) (scan_text text)).

(* ---- the REPL front end (repl.go Prompter.getExpressionWithLiner): the text is delivered line by line, every line
        with its newline, until the parser no longer asks for more input ---- *)

(* the lines of a text, each with its terminating newline; the last one without *)
Fixpoint split_lines_from (cur : list Z) (t : list Z) : list (list Z) :=
  match t with
  | [] => [rev cur]
  | c :: rest => if c =? 10 then rev (c :: cur) :: split_lines_from [] rest else split_lines_from (c :: cur) rest
  end.
Definition split_lines (t : list Z) : list (list Z) := split_lines_from [] t.

Definition read_repl (text : list Z) : status * list sexp :=
  observe (parse_pieces true false (read_fuel text) (split_lines (scan_text text))).

(* the Go API for incremental input (Parser.ResetAddNewInput, NewInput ..., the last piece WholeText): the text cut at
   the given rune offsets (ascending) *)
Fixpoint cut_pieces (cuts : list nat) (prev : nat) (t : list Z) : list (list Z) :=
  match cuts with
  | [] => [t]
  | c :: r => firstn (c - prev) t :: cut_pieces r c (skipn (c - prev) t)
  end.

Definition read_pieces (cuts : list nat) (text : list Z) : status * list sexp :=
  observe (parse_pieces true false (read_fuel text) (cut_pieces cuts 0 (scan_text text))).

(* ---- the exact mathematical value of a numeric notation (independent of Reader.digits_val:
        most significant digit first, value = d * base^(number of digits after it) + rest) ---- *)

Fixpoint pos_value (base : Z) (ds : list Z) : Z :=
  match ds with
  | [] => 0
  | d :: rest => d * base ^ Z.of_nat (length rest) + pos_value base rest
  end.

Definition digit_of (c : Z) : Z :=
  if (48 <=? c) && (c <=? 57) then c - 48
  else if (97 <=? c) && (c <=? 102) then c - 87
  else c - 55.

(* the literal notations of the property: returns the value as an integer literal denotes it *)
Inductive notation : Type := NDec | NHex | NOct | NBin | NUDec | NUHex | NUOct.

Definition notation_base (n : notation) : Z :=
  match n with NDec | NUDec => 10 | NHex | NUHex => 16 | NOct | NUOct => 8 | NBin => 2 end.

(* spelling of a literal: sign (decimal only), digit runes with optional underscores between them *)
Definition spell (n : notation) (neg : bool) (digits : list Z) : list Z :=
  match n with
  | NDec => (if neg then [45] else []) ++ digits
  | NHex => [48; 120] ++ digits
  | NOct => [48; 111] ++ digits
  | NBin => [48; 98] ++ digits
  | NUDec => digits ++ str_ULL
  | NUHex => [48; 120] ++ digits ++ str_ULL
  | NUOct => [48; 111] ++ digits ++ str_ULL
  end.

Definition math_value (n : notation) (neg : bool) (digits : list Z) : Z :=
  let v := pos_value (notation_base n) (map digit_of (remove_z 95 digits)) in
  if neg then - v else v.
