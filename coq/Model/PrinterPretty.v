(* Model of the PRETTY mode of the printers, for C12: zygo/expressions.go SexpArray.SexpString and
   zygo/hashutils.go SexpHash.SexpString (TypeName "hash") with their indentation bookkeeping
   (zygo/printstate.go PrintState.GetIndent / AddIndent), as switched on by the builtin (pretty true)
   (hashutils.go SetPrettyPrintFlag sets env.Pretty) and therefore reachable from (str v), the REPL echo,
   writef / owritef / save.

   What the Go code does, mirrored below:
     SexpArray.SexpString   pretty := arr.Env != nil && arr.Env.Pretty.   If pretty: the elements are printed with
                            the indentation of the array + 4, each on its own line after that many blanks, and
                            the closing bracket stands on its own line behind THE SAME (inner) number of blanks;
                            an empty array is "[" newline "]".  If not pretty: one line, the PrintState handed on
                            unchanged.
     SexpHash.SexpString    pretty := hash.Env.Pretty.  The values are ALWAYS printed with indentation + 4
                            (innerPs).  If pretty: "{" newline, every pair on its own line behind indentation + 4
                            blanks and followed by a blank and a newline, the closing brace behind the OUTER
                            indentation; an empty hash is "{" newline newline blanks "}".
     SexpPair.SexpString    hands its PrintState on unchanged.
   An array carries its environment or not (arrays made by the reader, the builders and env.NewSexpArray do;
   a bare &SexpArray{} of a Go host program and the result of builders.go commaHelper's caller do not): the flag
   [env] of [PArr].  Atoms do not look at the PrintState: [PLeaf] reuses Model/Printer.v [pr].
   JSON mode (PrintState.PrintJSON, builtin json2) is not data syntax and is not modelled.
   Executable definitions only. *)
From Coq Require Import ZArith List Bool.
From ZV Require Import Model.Regex Generated.LexTables Model.Lexer Model.Reader Model.Printer.
Import ListNotations.
Open Scope Z_scope.

(* a data value whose arrays say whether they carry an environment *)
Inductive pv : Type :=
| PLeaf (v : value)                       (* an atom (anything but a pair, an array, a hash) *)
| PPair (h t : pv)
| PArr (env : bool) (l : list pv)
| PHash (kvs : list (value * pv)).        (* keys as in Printer.v: strings or symbols *)

Fixpoint erase (p : pv) : value :=
  match p with
  | PLeaf v => v
  | PPair h t => VPair (erase h) (erase t)
  | PArr _ l => VArr (map erase l)
  | PHash kvs => VHash (map (fun kv => (fst kv, erase (snd kv))) kvs)
  end.

(* every array of a plain value carries the environment flag e *)
Fixpoint decorate (e : bool) (v : value) : pv :=
  match v with
  | VPair h t => PPair (decorate e h) (decorate e t)
  | VArr l => PArr e (map (decorate e) l)
  | VHash kvs => PHash (map (fun kv => (fst kv, decorate e (snd kv))) kvs)
  | _ => PLeaf v
  end.

Definition atomic (v : value) : bool :=
  match v with VPair _ _ | VArr _ | VHash _ => false | _ => true end.

(* leaves are atoms *)
Fixpoint pwf (p : pv) : bool :=
  match p with
  | PLeaf v => atomic v
  | PPair h t => pwf h && pwf t
  | PArr _ l => forallb pwf l
  | PHash kvs => forallb (fun kv => pwf (snd kv)) kvs
  end.

(* strings.Repeat(" ", n) *)
Definition spaces (n : nat) : list Z := repeat 32 n.

Section Layout.
Variable A : Type.
Variable f : A -> list Z.          (* how an element / a value is printed *)

(* SexpArray.SexpString, not pretty: elements separated by one blank *)
Fixpoint plain_elems (l : list A) : list Z :=
  match l with
  | [] => [93]
  | x :: r => f x ++ match r with [] => [93] | _ => 32 :: plain_elems r end
  end.

(* SexpArray.SexpString, pretty and not empty: [sp] = the inner indentation *)
Fixpoint pretty_elems (sp : list Z) (l : list A) : list Z :=
  match l with
  | [] => sp ++ [93]
  | x :: r => sp ++ f x ++ 10 :: pretty_elems sp r
  end.

Variable key : value -> list Z.    (* the key with its colon *)

(* SexpHash.SexpString, not pretty *)
Fixpoint plain_pairs (l : list (value * A)) : list Z :=
  match l with
  | [] => [125]
  | (k, x) :: r => key k ++ f x ++ match r with [] => [125] | _ => 32 :: plain_pairs r end
  end.

(* SexpHash.SexpString, pretty and not empty: [sp] = inner, [osp] = outer indentation *)
Fixpoint pretty_pairs (sp osp : list Z) (l : list (value * A)) : list Z :=
  match l with
  | [] => osp ++ [125]
  | (k, x) :: r => sp ++ key k ++ f x ++ 32 :: 10 :: pretty_pairs sp osp r
  end.

End Layout.

Section PPrint.
Variable is_print : Z -> bool.

(* hashutils.go SexpHash.SexpString, the switch on the key type *)
Definition key_text (k : value) : list Z :=
  match k with
  | VStr s | VBStr s => quote_str is_print s ++ [58]
  | VSym n => n ++ [58]
  | _ => pr is_print false k ++ [58]
  end.

(* [ppr pretty ind tail p]: SexpString of p under env.Pretty = pretty with PrintState.Indent = ind;
   tail = p stands in tail position of a pair (as in Printer.v [pr]) *)
Fixpoint ppr (pretty : bool) (ind : nat) (tail : bool) (p : pv) {struct p} : list Z :=
  let body :=
    match p with
    | PLeaf v => pr is_print false v
    | PPair h t => 40 :: ppr pretty ind false h ++ ppr pretty ind true t
    | PArr env l =>
        if pretty && env then
          match l with
          | [] => [91; 10; 93]
          | _ => 91 :: 10 :: pretty_elems pv (ppr pretty (ind + 4) false) (spaces (ind + 4)) l
          end
        else 91 :: plain_elems pv (ppr pretty ind false) l
    | PHash kvs =>
        if pretty then
          match kvs with
          | [] => 123 :: 10 :: 10 :: spaces ind ++ [125]
          | _ => 123 :: 10 :: pretty_pairs pv (ppr pretty (ind + 4) false) key_text (spaces (ind + 4)) (spaces ind) kvs
          end
        else 123 :: plain_pairs pv (ppr pretty (ind + 4) false) key_text kvs
    end in
  if tail then
    match p with
    | PPair h t => 32 :: ppr pretty ind false h ++ ppr pretty ind true t
    | PLeaf VNil => [41]
    | _ => [32; 92; 32] ++ body ++ [41]
    end
  else body.

(* (str v) with env.Pretty = pretty: StringifyFunction calls SexpString(nil), indentation 0 *)
Definition pprint (pretty : bool) (p : pv) : list Z := ppr pretty 0 false p.

(* slurp.go WriteToFileFunction under the pretty flag (same stripping of the outer quotes as [save_text]) *)
Definition psave_text (pretty : bool) (p : pv) : list Z :=
  let s := pprint pretty p in
  (match strip_outer 34 s with
   | Some t => t
   | None => match strip_outer 96 s with Some t => t | None => s end
   end) ++ [10].

End PPrint.
