(* Model of zygo/parser.go: ParseExpression / ParseList / ParseArray / ParseInfix /
   ParseBlockComment / ParseBacktickString / the '{' look-ahead / ParserPeekNextToken /
   ParsingIter / ParseTokens, and of the delivery of a text in pieces (ResetAddNewInput,
   NewInput, WholeText).

   The parser is a coroutine (iter.Pull): when the token stream runs dry inside an expression it
   yields ErrMoreInputNeeded and is resumed by the next ParseTokens call.  The model is written in
   continuation-passing style: a yield is the outcome [OSusp acc n toks k] ("blocked until more
   than n tokens are queued; toks are queued now; k is the rest of the coroutine"), and [resume]
   is the next ParseTokens call after NewInput.  Places where the Go code looks at the token
   stream WITHOUT yielding (it sees TokenEnd at the end of a piece) are modelled by [look]; the
   flag [strict] = true makes them yielding look-aheads.  strict = true is parser.go AS IT IS NOW
   (since the fix "inside a form the parser waits for the next token ..."); strict = false is the
   parser before that fix, kept so that the theorems can say exactly which look-aheads must yield.
   Executable definitions only. *)
From Coq Require Import ZArith List Bool.
From ZV Require Import Model.Regex Generated.LexTables Model.Lexer.
Import ListNotations.
Open Scope Z_scope.

(* ---- expressions (the Sexp nodes the parser builds) ---- *)

Inductive sexp : Type :=
| SNull | SEnd
| SPair (h t : sexp)
| SArr (infix : bool) (l : list sexp)
| SHashEmpty                                   (* MakeHash(nil, "hash", env) for {} *)
| SSym (colon dot : bool) (name : list Z)      (* colonTail, isDot *)
| SInt (v : Z) | SUint (v : Z)
| SFloat (sci : bool) (text : list Z)          (* the value is not modelled (strconv.ParseFloat) *)
| SChar (v : Z) | SBool (b : bool)
| SStr (backtick : bool) (s : list Z)
| SComment (block : bool) (s : list Z)
| SComma | SSemicolon.

Definition is_send (e : sexp) : bool := match e with SEnd => true | _ => false end.
Definition is_comment (e : sexp) : bool := match e with SComment _ _ => true | _ => false end.

Definition str_quote : list Z := [113; 117; 111; 116; 101].
Definition str_syntaxQuote : list Z := [115; 121; 110; 116; 97; 120; 81; 117; 111; 116; 101].
Definition str_unquote : list Z := [117; 110; 113; 117; 111; 116; 101].
Definition str_unquote_splicing : list Z := [117; 110; 113; 117; 111; 116; 101; 45; 115; 112; 108; 105; 99; 105; 110; 103].
Definition str_infix : list Z := [105; 110; 102; 105; 120].
Definition str_hash : list Z := [104; 97; 115; 104].
Definition str_for : list Z := [102; 111; 114].
Definition str_true : list Z := [116; 114; 117; 101].
Definition str_Inf : list Z := [73; 110; 102].
Definition str_inf : list Z := [105; 110; 102].
Definition str_NaN : list Z := [78; 97; 78].
Definition str_nil : list Z := [110; 105; 108].

Definition sym (name : list Z) : sexp := SSym false false name.
Definition list2 (a b : sexp) : sexp := SPair a (SPair b SNull).   (* MakeList([]Sexp{a, b}) *)

(* ---- literal conversion (strconv.ParseInt / ParseUint / ParseFloat: success or error) ---- *)

Definition digit_val (c : Z) : option Z :=
  if (48 <=? c) && (c <=? 57) then Some (c - 48)
  else if (97 <=? c) && (c <=? 122) then Some (c - 97 + 10)
  else if (65 <=? c) && (c <=? 90) then Some (c - 65 + 10)
  else None.

Fixpoint digits_val (base : Z) (s : list Z) (acc : Z) : option Z :=
  match s with
  | [] => Some acc
  | c :: t => match digit_val c with
              | Some d => if d <? base then digits_val base t (acc * base + d) else None
              | None => None
              end
  end.

(* strconv.ParseUint(s, base, 64), base in {8, 10, 16} *)
Definition parse_uint (base : Z) (s : list Z) : option Z :=
  match s with
  | [] => None
  | _ => match digits_val base s 0 with
         | Some v => if v <? 2 ^ 64 then Some v else None
         | None => None
         end
  end.

(* strconv.ParseInt(s, base, 64) *)
Definition parse_int (base : Z) (s : list Z) : option Z :=
  let '(neg, body) := match s with
                      | 45 :: t => (true, t)
                      | 43 :: t => (false, t)
                      | _ => (false, s)
                      end in
  match body with
  | [] => None
  | _ => match digits_val base body 0 with
         | Some v => if neg then (if v <=? 2 ^ 63 then Some (- v) else None)
                     else (if v <? 2 ^ 63 then Some v else None)
         | None => None
         end
  end.

Fixpoint remove_z (c : Z) (s : list Z) : list Z :=
  match s with [] => [] | x :: t => if x =? c then remove_z c t else x :: remove_z c t end.

Fixpoint starts_with (p s : list Z) : bool :=
  match p, s with
  | [], _ => true
  | x :: p', y :: s' => (x =? y) && starts_with p' s'
  | _, [] => false
  end.

(* parser.go: case TokenUint64 *)
Definition conv_uint64 (text : list Z) : option Z :=
  let inp := firstn (length text - 3) text in
  if (2 <? byte_len inp) && starts_with [48; 111] inp then parse_uint 8 (skipn 2 inp)
  else if (2 <? byte_len inp) && starts_with [48; 120] inp then parse_uint 16 (skipn 2 inp)
  else parse_uint 10 inp.

(* strconv.underscoreOK on a decimal float text (no base prefix can occur) *)
Fixpoint underscore_ok_from (saw : Z) (s : list Z) : bool :=   (* saw: 0 digit, 1 underscore, 2 other/start *)
  match s with
  | [] => negb (saw =? 1)
  | c :: t =>
      if (48 <=? c) && (c <=? 57) then underscore_ok_from 0 t
      else if c =? 95 then (if saw =? 0 then underscore_ok_from 1 t else false)
      else if saw =? 1 then false
      else underscore_ok_from 2 t
  end.
Definition underscore_ok (s : list Z) : bool :=
  match s with
  | 45 :: t | 43 :: t => underscore_ok_from 2 t
  | _ => underscore_ok_from 2 s
  end.

(* decimal float text -> (all mantissa digits as an integer, number of digits after the point,
   explicit exponent); the text has been accepted by FloatRegex *)
Fixpoint float_mant (s : list Z) (acc : Z) (after : Z) (dot : bool) : Z * Z * list Z :=
  match s with
  | [] => (acc, after, [])
  | c :: t =>
      if (48 <=? c) && (c <=? 57) then float_mant t (acc * 10 + (c - 48)) (if dot then after + 1 else after) dot
      else if c =? 95 then float_mant t acc after dot
      else if c =? 46 then float_mant t acc after true
      else (acc, after, s)
  end.

Fixpoint ndigits_fuel (f : nat) (v : Z) : Z :=
  match f with O => 0 | S f' => if v <=? 0 then 0 else 1 + ndigits_fuel f' (v / 10) end.

(* does strconv.ParseFloat(text, 64) succeed?  It fails on misplaced underscores and when the
   value rounds to infinity (|v| >= 2^1024 - 2^970). *)
Definition float_ok (text : list Z) : bool :=
  let body := match text with 45 :: t | 43 :: t => t | _ => text end in
  if list_eqb body str_Inf || list_eqb body str_inf then true
  else if negb (underscore_ok text) then false
  else
    let '(mant, after, rest) := float_mant body 0 0 false in
    let ex := match rest with
              | _ :: 45 :: ds => - (fst (fst (float_mant ds 0 0 false)))
              | _ :: 43 :: ds => fst (fst (float_mant ds 0 0 false))
              | _ :: ds => fst (fst (float_mant ds 0 0 false))
              | [] => 0
              end in
    if mant =? 0 then true
    else
      let nd := ndigits_fuel (length body) mant in
      let e10 := ex - after in
      let thr := 2 ^ 1024 - 2 ^ 970 in
      if nd + e10 <=? 308 then true
      else if 310 <? nd + e10 then false
      else if 0 <=? e10 then mant * 10 ^ e10 <? thr
      else mant <? thr * 10 ^ (- e10).

Definition contains_e (s : list Z) : bool := mem_z 101 s || mem_z 69 s.

(* ---- the token queue the parser reads ---- *)

(* tokens lexed and not yet consumed; q_err: the lexer reported an error after them;
   q_instr: the runes lexed so far end inside a string or char literal (Lexer.inStringOrRune) *)
Record queue : Type := mkQ { q_toks : list token; q_err : bool; q_instr : bool }.

(* the places where parser.go would panic *)
Inductive crash_site : Type :=
| CBlockComment     (* ParseBlockComment: panic("internal error: inside a block comment ...") *)
| CBacktick         (* ParseBacktickString: panic("internal error: inside a backtick string ...") *)
| CIndex            (* the '{' look-ahead: lexer.tokens[i] with i out of range *)
| CUintSlice.       (* case TokenUint64: tok.str[:len(tok.str)-3] with fewer than 3 bytes *)

Inductive outcome : Type :=
| ODone (acc : list sexp) (fuel : nat)   (* top level saw the end of the input: ParseTokens returns (acc, nil);
                                            fuel = the model's fuel for the next coroutine (that of the loop
                                            iteration of ParsingIter that saw the end) *)
| OMoreTop (acc : list sexp) (fuel : nat) (* top level saw the end of the input inside a string / char literal:
                                            ParseTokens returns (acc, ErrMoreInputNeeded); ParsingIter loops *)
| OErr (acc : list sexp)                 (* ParseTokens returns (acc, hard error) *)
| OCrash (site : crash_site)             (* a panic site of parser.go *)
| OFuel                                  (* the model ran out of fuel *)
| OSusp (acc : list sexp) (n : nat) (toks : list token) (k : queue -> outcome).
                                         (* ParseTokens returns (acc, ErrMoreInputNeeded); the coroutine is
                                            suspended in a look-ahead that wants more than n queued tokens *)

(* parser.go: ParserPeekNextToken(n) and the yield loops of ParseList/ParseArray/ParseInfix/
   ParseBlockComment/ParseBacktickString: make sure more than n tokens are queued, else yield *)
Definition need (acc : list sexp) (n : nat) (q : queue) (k : queue -> outcome) : outcome :=
  if (n <? length (q_toks q))%nat then k q
  else if q_err q then OErr acc
  else OSusp acc n (q_toks q) k.

Definition tok_at (q : queue) (n : nat) : token := nth n (q_toks q) empty_token.
Definition q_tail (q : queue) : queue := mkQ (tl (q_toks q)) (q_err q) (q_instr q).
Definition q_push (t : token) (q : queue) : queue := mkQ (t :: q_toks q) (q_err q) (q_instr q).
Definition kind_is (t : token) (k : tkind) : bool := tkind_eqb (t_kind t) k.
Definition q_drop (n : nat) (q : queue) : queue := mkQ (skipn n (q_toks q)) (q_err q) (q_instr q).

(* parser.go indexes lexer.tokens[n] directly in the '{' look-ahead; out of range is a Go panic *)
Definition idx (q : queue) (n : nat) (k : token -> outcome) : outcome :=
  match nth_error (q_toks q) n with Some t => k t | None => OCrash CIndex end.

(* lexer.GetNextToken / PeekNextToken(0) WITHOUT a yield loop: at the end of the queue the Go code
   sees TokenEnd (or the lexer's error).  With [strict] the look-ahead yields instead.
   (kend is a thunk only so that the extracted code does not evaluate it eagerly.) *)
Definition look (strict : bool) (acc : list sexp) (q : queue)
           (kend : unit -> outcome) (k : queue -> outcome) : outcome :=
  match q_toks q with
  | _ :: _ => k q
  | [] => if q_err q then OErr acc
          else if strict then OSusp acc 0 [] k
          else kend tt
  end.

Section Parser.
Variable strict : bool.
(* cfix = true: parser.go as it is now (`lexer.tokens = lexer.tokens[extra:]`); false: before that fix,
   when tokens[0] (the first skipped comment token) was popped instead of the brace *)
Variable cfix : bool.

(* parser.go: ParseBlockComment *)
Fixpoint pblock (f : nat) (acc : list sexp) (q : queue) (text : list Z) (k : sexp -> queue -> outcome) : outcome :=
  match f with
  | O => OFuel
  | S f' =>
      need acc 0 q (fun q1 =>
        let tok := tok_at q1 0 in
        if kind_is tok TEndBlockComment then k (SComment true (text ++ t_str tok)) (q_tail q1)
        else if kind_is tok TComment then pblock f' acc (q_tail q1) (text ++ t_str tok) k
        else OCrash CBlockComment)
  end.

(* parser.go: ParseBacktickString *)
Definition pbacktick (acc : list sexp) (q : queue) (k : sexp -> queue -> outcome) : outcome :=
  need acc 0 q (fun q1 =>
    let tok := tok_at q1 0 in
    if kind_is tok TBacktickString then k (SStr true (t_str tok)) (q_tail q1) else OCrash CBacktick).

(* parser.go: ParseExpression, case TokenLCurly: the loop that skips comments in the look-ahead.
   Invariant of the Go code: tok2 = tokens[extra-1]. *)
Fixpoint curly_skip (f : nat) (acc : list sexp) (q : queue) (tok2 : token) (extra : nat)
         (k : queue -> token -> nat -> outcome) : outcome :=
  match f with
  | O => OFuel
  | S f' =>
      if kind_is tok2 TBeginBlockComment then
        need acc (extra + 2) q (fun q1 =>
          idx q1 (extra + 2) (fun tok2' =>
          let extra' := (extra + 3)%nat in
          if kind_is tok2' TComment then
            need acc extra' q1 (fun q2 => idx q2 extra' (fun t => curly_skip f' acc q2 t (extra' + 1) k))
          else curly_skip f' acc q1 tok2' extra' k))
      else if kind_is tok2 TComment then
        need acc extra q (fun q1 => idx q1 extra (fun t => curly_skip f' acc q1 t (extra + 1) k))
      else k q tok2 extra
  end.

Definition hash_tok : token := mkTok TSymbol str_hash.

Fixpoint pexpr (f : nat) (acc : list sexp) (top : bool) (q : queue) (k : sexp -> queue -> outcome) {struct f} : outcome :=
  match f with
  | O => OFuel
  | S f' =>
    (* tok, err := lexer.GetNextToken(): no yield; at depth 0 the end of the input ends ParsingIter *)
    look (if top then false else strict) acc q (fun _ => k SEnd q) (fun q0 =>
    let tok := tok_at q0 0 in
    let q1 := q_tail q0 in
    let sugar name := pprefix f' acc q1 name k in
    match t_kind tok with
    | TLParen => plist f' acc q1 TRParen k
    | TLSquare => parray f' acc q1 [] k
    | TLCurly =>
        need acc 0 q1 (fun q2 =>
          curly_skip f' acc q2 (tok_at q2 0) 1 (fun q3 tok2 extra =>
            let as_hash q := plist f' acc (q_push hash_tok q) TRCurly k in
            let as_infix q := pinfix f' acc q [] k in
            match t_kind tok2 with
            | TSymbolColon =>
                need acc extra q3 (fun q4 => idx q4 extra (fun second =>
                  if kind_is second TSymbol && list_eqb (t_str second) str_for then as_infix q4
                  else as_hash q4))
            | TRCurly =>
                (* drop the skipped comment tokens and the brace (before the fix: only tokens[0]) *)
                k SHashEmpty (if cfix then q_drop extra q3 else q_tail q3)
            | TString =>
                need acc extra q3 (fun q4 => idx q4 extra (fun second =>
                  if kind_is second TColonOperator then as_hash q4 else as_infix q4))
            | TBeginBacktickString =>
                need acc (extra + 1) q3 (fun q4 => idx q4 extra (fun second => idx q4 (extra + 1) (fun third =>
                  if kind_is second TBacktickString && kind_is third TColonOperator
                  then as_hash q4 else as_infix q4)))
            | _ => as_infix q3
            end))
    | TQuote => sugar str_quote
    | TCaret => sugar str_syntaxQuote
    | TTilde => sugar str_unquote
    | TTildeAt => sugar str_unquote_splicing
    | TFreshAssign | TColonOperator | TDollar => k (sym (t_str tok)) q1
    | TBool => k (SBool (list_eqb (t_str tok) str_true)) q1
    | TUint64 =>
        if (length (t_str tok) <? 3)%nat then OCrash CUintSlice
        else match conv_uint64 (t_str tok) with Some v => k (SUint v) q1 | None => OErr acc end
    | TDecimal => match parse_int 10 (remove_z 95 (t_str tok)) with Some v => k (SInt v) q1 | None => OErr acc end
    | THex => match parse_int 16 (t_str tok) with Some v => k (SInt v) q1 | None => OErr acc end
    | TOct => match parse_int 8 (t_str tok) with Some v => k (SInt v) q1 | None => OErr acc end
    | TBinary => match parse_int 2 (t_str tok) with Some v => k (SInt v) q1 | None => OErr acc end
    | TChar => k (SChar (hd 0 (t_str tok))) q1      (* utf8.DecodeRuneInString: the rune written *)
    | TString => k (SStr false (t_str tok)) q1
    | TBeginBacktickString => pbacktick acc q1 k
    | TBacktickString => k (SStr true (t_str tok)) q1
    | TFloat =>
        if list_eqb (t_str tok) str_NaN then k (SFloat false (t_str tok)) q1
        else if float_ok (t_str tok) then k (SFloat (contains_e (t_str tok)) (t_str tok)) q1
        else OErr acc
    | TEnd => OErr acc   (* never produced by the lexer (DecodeBrace is only called on braces) *)
    | TSymbol =>
        if list_eqb (t_str tok) [45] || list_eqb (t_str tok) [43] then
          (* are we -Inf ?  ParserPeekNextToken(0): yields *)
          need acc 0 q1 (fun q2 =>
            let tok2 := tok_at q2 0 in
            if kind_is tok2 TFloat && (list_eqb (t_str tok2) str_Inf || list_eqb (t_str tok2) str_inf)
            then k (SFloat false (t_str tok ++ str_Inf)) (q_tail q2)
            else k (sym (t_str tok)) q2)
        else if list_eqb (t_str tok) str_nil then k SNull q1    (* the symbol nil reads as the empty list *)
        else k (sym (t_str tok)) q1
    | TSymbolColon => k (SSym true false (t_str tok)) q1
    | TDot | TDotSymbol => k (SSym false true (t_str tok)) q1
    | TComment => k (SComment false (t_str tok)) q1
    | TBeginBlockComment => pblock f' acc q1 (t_str tok) k
    | TComma => k SComma q1
    | TSemicolon => k SSemicolon q1
    | _ => OErr acc     (* Invalid syntax, don't know what to do with ... *)
    end)
  end

(* parser.go: parsePrefixOperand: the form a reader prefix applies to; comments (expressions to the parser)
   between the prefix and its form are skipped *)
with pprefix (f : nat) (acc : list sexp) (q : queue) (name : list Z) (k : sexp -> queue -> outcome) {struct f} : outcome :=
  match f with
  | O => OFuel
  | S f' =>
      pexpr f' acc false q (fun e q2 =>
        if is_comment e then pprefix f' acc q2 name k else k (list2 (sym name) e) q2)
  end

(* parser.go: ParseList *)
with plist (f : nat) (acc : list sexp) (q : queue) (endk : tkind) (k : sexp -> queue -> outcome) {struct f} : outcome :=
  match f with
  | O => OFuel
  | S f' =>
      need acc 0 q (fun q1 =>
        if kind_is (tok_at q1 0) endk then k SNull (q_tail q1)
        else
          pexpr f' acc false q1 (fun head q2 =>
            let rest q := plist f' acc q endk (fun tl q' => k (SPair head tl) q') in
            (* tok, err = lexer.PeekNextToken(0): no yield *)
            look strict acc q2 (fun _ => rest q2) (fun q3 =>
              if kind_is (tok_at q3 0) TBackslash then
                pexpr f' acc false (q_tail q3) (fun tail q4 =>
                  (* tok, err = lexer.GetNextToken(): no yield; must be the end paren *)
                  look strict acc q4 (fun _ => OErr acc) (fun q5 =>
                    if kind_is (tok_at q5 0) TRParen then k (SPair head tail) (q_tail q5) else OErr acc))
              else rest q3)))
  end

(* parser.go: ParseArray; arr is reversed *)
with parray (f : nat) (acc : list sexp) (q : queue) (arr : list sexp) (k : sexp -> queue -> outcome) {struct f} : outcome :=
  match f with
  | O => OFuel
  | S f' =>
      need acc 0 q (fun q1 =>
        let tok := tok_at q1 0 in
        if kind_is tok TComma then parray f' acc (q_tail q1) arr k
        else if kind_is tok TRSquare then k (SArr false (rev arr)) (q_tail q1)
        else pexpr f' acc false q1 (fun e q2 => parray f' acc q2 (e :: arr) k))
  end

(* parser.go: ParseInfix; arr is reversed *)
with pinfix (f : nat) (acc : list sexp) (q : queue) (arr : list sexp) (k : sexp -> queue -> outcome) {struct f} : outcome :=
  match f with
  | O => OFuel
  | S f' =>
      need acc 0 q (fun q1 =>
        let tok := tok_at q1 0 in
        if kind_is tok TRCurly then
          k (SPair (sym str_infix) (match arr with [] => SNull | _ => SPair (SArr true (rev arr)) SNull end)) (q_tail q1)
        else pexpr f' acc false q1 (fun e q2 => pinfix f' acc q2 (e :: arr) k))
  end.

(* parser.go: ParsingIter (one coroutine) *)
Fixpoint ptop (f : nat) (acc : list sexp) (q : queue) : outcome :=
  match f with
  | O => OFuel
  | S f' => pexpr f' acc true q (fun e q' =>
              if is_send e then (if q_instr q' then OMoreTop acc f else ODone acc f)
              else ptop f' (acc ++ [e]) q')
  end.

(* the next ParseTokens call after NewInput: the suspended coroutine goes on; after ODone a new
   coroutine starts with the reply accumulator (sendMe) it inherited; after an error the
   protocol is over *)
Definition resume (o : outcome) (u : queue) : outcome :=
  match o with
  | OSusp acc n toks k => need acc n (mkQ (toks ++ q_toks u) (q_err u) (q_instr u)) k
  | ODone acc f => ptop f acc u
  | OMoreTop acc f => ptop f acc u
  | other => other
  end.

End Parser.

(* ---- delivery of a text ---- *)

(* the parser of an interpreter between two calls: the lexer (its token queue is held by the
   suspended coroutine / is empty) and what the last ParseTokens call returned *)
Record pstate : Type := mkP { ps_lex : lstate; ps_out : outcome }.

Definition default_fuel : nat := 4000.

(* parser.go: ResetAddNewInput starts from Lexer.Reset and an empty reply accumulator *)
Definition p_reset (fuel : nat) (p : pstate) : pstate := mkP (reset (ps_lex p)) (ODone [] fuel).

Definition p_init (fuel : nat) : pstate := mkP init_lstate (ODone [] fuel).

(* NewInput(piece); ParseTokens() *)
Definition p_deliver (strict cfix : bool) (p : pstate) (piece : list Z) : pstate :=
  let x := lex_all (ps_lex p) piece in
  let s := lres_state x in
  mkP (set_tokens [] s) (resume strict cfix (ps_out p) (mkQ (l_tokens s) (negb (lres_ok x)) (in_string_or_rune s))).

Fixpoint p_deliver_all (strict cfix : bool) (p : pstate) (pieces : list (list Z)) : pstate :=
  match pieces with
  | [] => p
  | x :: rest => p_deliver_all strict cfix (p_deliver strict cfix p x) rest
  end.

(* WholeText: one final newline *)
Definition nl : list Z := [10].

(* the whole text in one delivery on a parser in any state *)
Definition parse_after (strict cfix : bool) (fuel : nat) (p : pstate) (text : list Z) : outcome :=
  ps_out (p_deliver strict cfix (p_reset fuel p) (text ++ nl)).

Definition parse_whole (strict cfix : bool) (fuel : nat) (text : list Z) : outcome :=
  parse_after strict cfix fuel (p_init fuel) text.

(* the text in pieces; the last piece is marked as the end of the text *)
Fixpoint mark_last (pieces : list (list Z)) : list (list Z) :=
  match pieces with
  | [] => [nl]
  | [x] => [x ++ nl]
  | x :: rest => x :: mark_last rest
  end.

Definition parse_pieces (strict cfix : bool) (fuel : nat) (pieces : list (list Z)) : outcome :=
  ps_out (p_deliver_all strict cfix (p_reset fuel (p_init fuel)) (mark_last pieces)).

(* what the caller of ParseTokens observes *)
Inductive status : Type := StDone | StMore | StErr | StCrash | StFuel.
Definition observe (o : outcome) : status * list sexp :=
  match o with
  | ODone acc _ => (StDone, acc)
  | OMoreTop acc _ => (StMore, acc)
  | OErr acc => (StErr, acc)
  | OCrash _ => (StCrash, [])
  | OFuel => (StFuel, [])
  | OSusp acc _ _ _ => (StMore, acc)
  end.

(* ---- an independent reading of "unfinished prefix": open bracket, string, raw string or
   block comment, or a reader prefix (% ^ ~ ~@) whose datum has not started (comments between the
   prefix and its datum do not count: the parser skips them).  A plain scanner
   over the runes; it shares nothing with the lexer model. ---- *)

Inductive smode : Type := MCode | MStr | MStrEsc | MRaw | MLine | MBlock | MBlockStar | MSlash | MRune | MRuneEsc | MTilde.

(* scanner state: mode, bracket depth, "a reader prefix is waiting for its datum" *)
Definition sstate : Type := (smode * Z * bool)%type.

Definition scan_code (depth : Z) (pending : bool) (c : Z) : sstate :=
  if c =? 34 then (MStr, depth, false)
  else if c =? 96 then (MRaw, depth, false)
  else if c =? 39 then (MRune, depth, false)
  else if c =? 47 then (MSlash, depth, pending)
  else if (c =? 40) || (c =? 91) || (c =? 123) then (MCode, depth + 1, false)
  else if (c =? 41) || (c =? 93) || (c =? 125) then (MCode, depth - 1, false)
  else if (c =? 37) || (c =? 94) then (MCode, depth, true)
  else if c =? 126 then (MTilde, depth, true)
  else if (c =? 32) || (c =? 9) || (c =? 10) || (c =? 13) then (MCode, depth, pending)
  else (MCode, depth, false).

Definition scan_step (st : sstate) (c : Z) : sstate :=
  let '(m, depth, pending) := st in
  match m with
  | MCode => scan_code depth pending c
  | MSlash => if c =? 47 then (MLine, depth, pending) else if c =? 42 then (MBlock, depth, pending) else scan_code depth false c
  | MStr => if c =? 92 then (MStrEsc, depth, false) else if c =? 34 then (MCode, depth, false) else (MStr, depth, false)
  | MStrEsc => (MStr, depth, false)
  | MRaw => if c =? 96 then (MCode, depth, false) else (MRaw, depth, false)
  | MLine => if c =? 10 then (MCode, depth, pending) else (MLine, depth, pending)
  | MBlock => if c =? 42 then (MBlockStar, depth, pending) else (MBlock, depth, pending)
  | MBlockStar => if c =? 47 then (MCode, depth, pending) else if c =? 42 then (MBlockStar, depth, pending) else (MBlock, depth, pending)
  | MRune => if c =? 92 then (MRuneEsc, depth, false) else if c =? 39 then (MCode, depth, false) else (MRune, depth, false)
  | MRuneEsc => (MRune, depth, false)
  | MTilde => if c =? 64 then (MCode, depth, true) else scan_code depth true c   (* ~@ or ~ form *)
  end.

Definition scan (text : list Z) : sstate := fold_left scan_step text (MCode, 0, false).

(* Some true: unfinished; Some false: finished; None: the scanner has no opinion
   (an unterminated rune literal, more closing than opening brackets) *)
Definition unfinished (text : list Z) : option bool :=
  let '(m, depth, pending) := scan (text ++ nl) in
  match m with
  | MStr | MStrEsc | MRaw | MBlock | MBlockStar | MRune | MRuneEsc | MTilde => Some true
  | _ => if depth <? 0 then None else Some ((0 <? depth) || pending)
  end.
