(* Sessions on one parser (zygo/parser.go, zygo/repl.go), on top of Model/Reader.v:

   1. the REPL's line reader, repl.go:getExpressionWithLiner: the first line goes through
      ResetAddNewInput, the parser's replies are consumed one by one (`for reply := range
      ParsingIter()`), and after every reply "more input needed" one more line is read and handed
      over with NewInput(line + "\n"); the text reported is strings.Join(lines, "\n").

   2. the Parser struct as the API sees it: the reply accumulator sendMe, the suspended coroutine
      (next / stop / yield), the lexer and the streams queued by NewInput that no ParseTokens call
      has read yet (Lexer.stream / Lexer.next), under ANY sequence of the calls ResetAddNewInput,
      NewInput, ParseTokens, Parser.Reset, Parser.Stop - also sequences that do not follow the
      delivery protocol (ParseTokens twice, NewInput without ParseTokens, Stop or Reset while the
      coroutine is suspended deep inside a form).

   Executable definitions only. *)
From Coq Require Import ZArith List Bool.
From ZV Require Import Model.Regex Generated.LexTables Model.Lexer Model.Reader.
Import ListNotations.
Open Scope Z_scope.

(* ---- 1. repl.go: getExpressionWithLiner ---- *)

(* strings.Join(lines, "\n") *)
Definition join_lines (ls : list (list Z)) : list Z :=
  match ls with
  | [] => []
  | l :: rest => l ++ concat (map (fun x => nl ++ x) rest)
  end.

Definition with_nl (ls : list (list Z)) : list (list Z) := map (fun l => l ++ nl) ls.

(* the loop `for reply := range env.parser.ParsingIter()`: p is the parser after the last reply.
   used: the lines read so far; rest: what Getline will return from now on ([] = it fails, EOF).
   Result: the lines consumed and the final reply (None: Getline failed, the entry is dropped). *)
Fixpoint repl_loop (strict cfix : bool) (p : pstate) (used rest : list (list Z)) {struct rest}
  : list (list Z) * option outcome :=
  match fst (observe (ps_out p)) with
  | StMore =>
      (* err == ErrMoreInputNeeded: nextline = Getline(); lines = append(lines, nextline);
         parser.NewInput(nextline + "\n"); continue *)
      match rest with
      | [] => (used, None)
      | l :: rest' => repl_loop strict cfix (p_deliver strict cfix p (l ++ nl)) (used ++ [l]) rest'
      end
  | _ => (used, Some (ps_out p))     (* err == nil: return Join(lines), xs; any other error: return it *)
  end.

(* p: the parser of the interpreter in whatever state earlier inputs left it *)
Definition repl_read (strict cfix : bool) (fuel : nat) (p : pstate) (lines : list (list Z))
  : list (list Z) * option outcome :=
  match lines with
  | [] => ([], None)                 (* the first Getline fails *)
  | l :: rest => repl_loop strict cfix (p_deliver strict cfix (p_reset fuel p) (l ++ nl)) [l] rest
  end.

(* ---- 2. the Parser struct under arbitrary call sequences ---- *)

(* par_out: what the last reply was and where the coroutine stands (ODone/OMoreTop: the record sendMe
   holds acc and no coroutine is suspended inside a form; OSusp: p.next != nil, suspended inside a form
   with the tokens it has not consumed; OErr: the coroutine ended with a hard error).
   par_pending: streams handed over by NewInput that no ParseTokens call has reached yet
   (Lexer.stream and the queue Lexer.next, oldest first). *)
Record parser : Type := mkPar { par_lex : lstate; par_pending : list (list Z); par_out : outcome }.

Inductive call : Type :=
| CNewInput (s : list Z)        (* Parser.NewInput: Lexer.AddNextStream *)
| CResetAdd (s : list Z)        (* Parser.ResetAddNewInput *)
| CReset                        (* Parser.Reset *)
| CStop                         (* Parser.Stop *)
| CParse.                       (* Parser.ParseTokens *)

Section Calls.
Variables strict cfix : bool.
Variable fuel : nat.

(* What p.stop() does to a coroutine suspended inside a form: every pending yield returns false and the
   Go call chain unwinds (ParseList/ParseArray/ParseInfix/ParseBlockComment/ParseBacktickString return
   SexpEnd, ParserPeekNextToken returns ParserHaltRequested); on the way it may append a partial
   expression to the reply record it holds and consume queued tokens.  Its footprint is the reply record
   the coroutine holds and the lexer; WHAT it leaves there is left open in the model (a section variable: the theorems hold for
   every such function), THAT it touches nothing else is checked on the implementation on every run
   (field dump after Reset / ResetAddNewInput in every class of suspended state). *)
Variable unwind : outcome -> lstate -> outcome * lstate.

Definition new_parser : parser := mkPar init_lstate [] (ODone [] fuel).

(* p.stop() if a coroutine is suspended (p.stop != nil), on the record sendMe it holds *)
Definition stop_coroutine (p : parser) : parser :=
  match par_out p with
  | OSusp _ _ _ _ => let '(o, l) := unwind (par_out p) (par_lex p) in mkPar l (par_pending p) o
  | _ => p
  end.

(* parser.go: Parser.Reset / Parser.ResetAddNewInput, statement by statement:
   p.next = nil; p.stop() [unwinding: on the OLD reply record, BEFORE the lexer is reset];
   p.yield = nil; p.sendMe = &ParserReply{}; p.lexer.Reset() [also drops the queued streams] *)
Definition do_reset (p : parser) : parser :=
  let p1 := stop_coroutine p in
  mkPar (reset (par_lex p1)) [] (ODone [] fuel).

(* ParseTokens: the coroutine (a new one if none is suspended) reads the queued streams in the order they
   were added; lexing them one after the other is lexing their concatenation (lex_chunks) *)
Definition do_parse (p : parser) : parser :=
  let x := lex_all (par_lex p) (concat (par_pending p)) in
  let s := lres_state x in
  mkPar (set_tokens [] s) []
        (resume strict cfix (par_out p) (mkQ (l_tokens s) (negb (lres_ok x)) (in_string_or_rune s))).

Definition do_call (p : parser) (c : call) : parser :=
  match c with
  | CNewInput s => mkPar (par_lex p) (par_pending p ++ [s]) (par_out p)
  | CResetAdd s => let p1 := do_reset p in mkPar (par_lex p1) [s] (par_out p1)
  | CReset => do_reset p
  | CStop => stop_coroutine p     (* sendMe and the lexer are NOT reset by Stop *)
  | CParse => do_parse p
  end.

Definition do_calls (p : parser) (cs : list call) : parser := fold_left do_call cs p.

(* reading a complete text on a parser with ANY earlier calls behind it, by either route:
   ResetAddNewInput(WholeText(text)); ParseTokens()        (EvalString, LoadStream, source)
   Reset(); NewInput(WholeText(text)); ParseTokens()       (ParseFile / include) *)
Definition read_after (via_reset : bool) (history : list call) (text : list Z) : outcome :=
  par_out (do_calls (do_calls new_parser history)
                    (if via_reset then [CReset; CNewInput (text ++ nl); CParse]
                     else [CResetAdd (text ++ nl); CParse])).

(* the same text in pieces, some of them only queued (ParseTokens is called after piece i iff sched i;
   always after the last one) *)
Fixpoint piece_calls (pieces : list (list Z)) (sched : list bool) : list call :=
  match pieces with
  | [] => [CParse]
  | [x] => [CNewInput x; CParse]
  | x :: rest => CNewInput x :: (if hd true sched then [CParse] else []) ++ piece_calls rest (tl sched)
  end.

Definition read_pieces_after (history : list call) (pieces : list (list Z)) (sched : list bool) : outcome :=
  par_out (do_calls (do_calls new_parser history) (CReset :: piece_calls (mark_last pieces) sched)).

End Calls.
