(* RefSem: the reference evaluator of the core language of zygomys (package zygo).

   It is BOTH the specification the properties C02/C03 speak of (a direct, environment
   passing, big-step evaluator with lexical scoping) AND the formal model that the
   correspondence run ties to the real compiler + VM (generator.go, vm.go, environment.go,
   closing.go, scopes.go, functions.go).  Executable definitions only; proofs are in
   Proofs/RefSemProofs.v, statements in Properties/C02.v and Properties/C03.v.

   Layout of this file (everything another engineer may want to extend is here):
     1. syntax      : datum, expr           (core language AST)
     2. values      : prim, value, ty, sval (runtime values, types used by the re-definition
                                             rule of scopes.go:BindSymbol, printed snapshots)
     3. store       : frames (lexical scopes, identity = index, never removed), arrays
                      (mutable objects), trace of the host function `trace`, failure counter
     4. outcomes    : err, sig, res, the state monad M
     5. helpers     : lookup along a static chain, typed re-definition, comparison, snapshots
     6. compile check `cc` (what the real code rejects when a compile unit is generated)
     7. the evaluator: eval / apply (mutual, fuel indexed), eval_program

   Facts of the real interpreter that this evaluator mirrors (each was probed on /repo):
     * a frame (zygo.Scope) is opened by: a function activation (vm.go:AddFuncScopeInstr),
       let / letseq (generator.go:GenerateLet: BEFORE the initialisers are evaluated),
       newScope (GenerateNewScope), and ONE frame per execution of a for loop
       (GenerateForLoop: init, test, step and all iterations of the body share it).
       begin / cond / and / or open none.
     * def binds in the innermost frame (vm.go:PopStackPutEnvInstr -> scopes.go:BindSymbol),
       with the type rule of BindSymbol when the name is already bound in that same frame;
       set updates the frame where the name is found along the static chain
       (vm.go:UpdateInstr), and behaves like def in the innermost frame when it is not found.
     * a closure captures the static chain where it is created (closing.go:NewClosing,
       vm.go:CreateClosureInstr); a call evaluates the callee, then the arguments left to
       right, each exactly once (vm.go:CallExprInstr, environment.go:CallResolved /
       PrepareCallExprArgs), then checks the arity (environment.go:CallFunction), opens the
       activation frame and binds the parameters last-to-first (generator.go:buildSexpFun).
     * every argument (and a non-symbol callee) of a call is a separate compile unit,
       generated when the call is executed (environment.go:EvalCallExpression): break /
       continue in it cannot see an enclosing loop ("not inside a loop"), see `cc`.
     * no tail-call optimisation here (C09 compares the optimised code against this). *)
From Coq Require Import ZArith Bool List.
Require Import ZV.Model.Num.
Import ListNotations.
Open Scope Z_scope.

(* ------------------------------------------------------------------ 1. syntax *)

Definition ident := Z.   (* symbol; the runner interns names, primitives have fixed numbers *)

Inductive datum :=       (* quoted data: (quote d) *)
| DInt (z : Z)
| DSym (s : ident)
| DFlt (h : Z)         (* the float literal h/2 (0.0, 0.5, -1.5 ..) *)
| DChr (c : Z)         (* the character literal with code point c *)
| DList (ds : list datum).

Inductive expr :=
| EInt (z : Z)                                   (* int64 literal, in range *)
| EBool (b : bool)
| ENil
| EStr (s : list Z)                              (* bytes *)
| EQuote (d : datum)
| EVar (x : ident)
| EArr (es : list expr)                          (* [e1 .. en]: elements generated inline *)
| ECall (f : expr) (args : list expr)            (* (f a1 .. an) *)
| EBegin (es : list expr)
| ECond (arms : list (expr * expr)) (dflt : expr)
| EAnd (es : list expr)
| EOr (es : list expr)
| EDef (x : ident) (e : expr)
| ESet (x : ident) (e : expr)
| ELet (seq : bool) (bs : list (ident * expr)) (body : list expr)   (* seq = letseq *)
| EScope (es : list expr)                        (* newScope *)
| EFor (lbl : option ident) (init test step : expr) (body : list expr)
| EBreak (lbl : option ident)
| ECont (lbl : option ident)
| EFn (ps : list ident) (rest : option ident) (body : list expr)    (* rest = `& r` *)
| EDefn (name : ident) (ps : list ident) (rest : option ident) (body : list expr).

(* ------------------------------------------------------------------ 2. values *)

(* builtin and host functions: first-class values, bound in the global frame *)
Inductive prim :=
| PAdd | PSub | PMul
| PLt | PGt | PLe | PGe | PEq | PNe
| PNot
| PCons | PFirst | PRest | PList
| PArray | PAget | PAset | PAppend | PLen | PConcat | PDiv
| PMap | PApply
| PTrace            (* host: records its arguments, returns the first *)
| PFailK.           (* host: counts its calls, raises a user error on call number fail_at *)

Inductive value :=
| VInt (z : Z)
| VBool (b : bool)
| VNil
| VStr (s : list Z)
| VSym (s : ident)
| VFlt (m e : Z)                                  (* the float m * 2^e, m odd (or 0 0): literals and the result of an inexact integer division; arithmetic and comparison on floats are declined *)
| VChr (c : Z)                                    (* a character (rune); arithmetic and comparison on characters are declined *)
| VPair (h t : value)
| VArr (a : nat)                                  (* address in the array store *)
| VClos (name : option ident) (ps : list ident) (rest : option ident)
        (body : list expr) (env : list nat)      (* env = static chain, innermost first *)
| VPrim (p : prim).

(* the types zygo.Sexp.Type() distinguishes on the values above (None = untyped) *)
Inductive ty := TInt | TBool | TStr | TSym | TSlice | TEmpty | TFloat | TChar.

(* printable snapshot of a value (arrays by content at the time of the snapshot) *)
Inductive sval :=
| SvInt (z : Z) | SvBool (b : bool) | SvNil | SvStr (s : list Z) | SvSym (s : ident)
| SvPair (h t : sval) | SvArr (l : list sval) | SvFn | SvPrim (p : prim) | SvCut | SvFlt (m e : Z) | SvChr (c : Z).

(* ------------------------------------------------------------------ 3. store *)

Definition frame := list (ident * value).
Record arrobj := mkArr { a_elems : list value; a_ty : option ty }.  (* a_ty: SexpArray.Typ cache *)

Record store := mkStore {
  frames : list frame;        (* frame id = index; frames are never removed *)
  arrays : list arrobj;
  trace  : list (list sval);  (* newest first *)
  fail_ctr : nat;
  fail_at  : nat              (* 0 = never *)
}.

Definition with_frames (s : store) (f : list frame) : store :=
  mkStore f (arrays s) (trace s) (fail_ctr s) (fail_at s).
Definition with_arrays (s : store) (a : list arrobj) : store :=
  mkStore (frames s) a (trace s) (fail_ctr s) (fail_at s).

(* ------------------------------------------------------------------ 4. outcomes *)

Inductive err :=
| EUnbound      (* symbol not found *)
| EUser         (* raised by the host function failk *)
| ELoop         (* break/continue that does not reach a loop of the running function *)
| EOther        (* wrong type / arity / not callable / index / re-definition type clash *)
| EUnspec.      (* the model declines: behaviour outside the modelled core *)

Inductive sig :=
| SBreak (l : option ident)
| SCont (l : option ident)
| SErr (e : err).

Inductive res (A : Type) :=
| Done (a : A)
| Sig (g : sig)
| Fuel.                       (* out of fuel: a distinct outcome *)
Arguments Done {A} a.
Arguments Sig {A} g.
Arguments Fuel {A}.

Definition M (A : Type) := store -> res A * store.
Definition ret {A} (a : A) : M A := fun s => (Done a, s).
Definition raise {A} (e : err) : M A := fun s => (Sig (SErr e), s).
Definition bindM {A B} (m : M A) (k : A -> M B) : M B :=
  fun s => match m s with
           | (Done a, s1) => k a s1
           | (Sig g, s1) => (Sig g, s1)
           | (Fuel, s1) => (Fuel, s1)
           end.
Notation "x <- m ;; k" := (bindM m (fun x => k)) (at level 61, m at next level, right associativity).

(* ------------------------------------------------------------------ 5. helpers *)

Fixpoint set_nth {A} (n : nat) (x : A) (l : list A) : list A :=
  match l, n with
  | [], _ => []
  | _ :: t, O => x :: t
  | h :: t, S n' => h :: set_nth n' x t
  end.

Fixpoint assoc (x : ident) (fr : frame) : option value :=
  match fr with
  | [] => None
  | (y, v) :: r => if x =? y then Some v else assoc x r
  end.

Fixpoint fr_set (x : ident) (v : value) (fr : frame) : frame :=
  match fr with
  | [] => [(x, v)]
  | (y, w) :: r => if x =? y then (y, v) :: r else (y, w) :: fr_set x v r
  end.

(* environment.go:LexicalLookupSymbol as the reference semantics has it: the innermost
   frame of the static chain that binds x *)
Fixpoint lookup_chain (fs : list frame) (env : list nat) (x : ident) : option (nat * value) :=
  match env with
  | [] => None
  | f :: env' =>
    match nth_error fs f with
    | Some fr => match assoc x fr with
                 | Some v => Some (f, v)
                 | None => lookup_chain fs env' x
                 end
    | None => lookup_chain fs env' x
    end
  end.

Definition upd_frame (f : nat) (x : ident) (v : value) (s : store) : store :=
  match nth_error (frames s) f with
  | Some fr => with_frames s (set_nth f (fr_set x v fr) (frames s))
  | None => s
  end.

Definition push_frame (s : store) : nat * store :=
  (length (frames s), with_frames s (frames s ++ [[]])).

Definition alloc_arr (vs : list value) (t : option ty) : M value :=
  fun s => (Done (VArr (length (arrays s))), with_arrays s (arrays s ++ [mkArr vs t])).

Definition get_arr (a : nat) : M arrobj :=
  fun s => match nth_error (arrays s) a with
           | Some o => (Done o, s)
           | None => (Sig (SErr EUnspec), s)
           end.

Definition truthy (v : value) : bool :=        (* expressions.go:IsTruthy *)
  match v with
  | VBool b => b
  | VInt z => negb (z =? 0)
  | VNil => false
  | VChr c => negb (c =? 0)
  | _ => true
  end.

Definition ty_eqb (a b : ty) : bool :=
  match a, b with
  | TInt, TInt | TBool, TBool | TStr, TStr | TSym, TSym | TSlice, TSlice | TEmpty, TEmpty | TFloat, TFloat | TChar, TChar => true
  | _, _ => false
  end.

Definition depth_limit : nat := 64.

(* Sexp.Type() with the SexpArray.Typ cache (expressions.go: SexpArray.Type) *)
Fixpoint type_of (d : nat) (ars : list arrobj) (v : value) : option ty * list arrobj :=
  match v with
  | VInt _ => (Some TInt, ars)
  | VBool _ => (Some TBool, ars)
  | VStr _ => (Some TStr, ars)
  | VSym _ => (Some TSym, ars)
  | VFlt _ _ => (Some TFloat, ars)
  | VChr _ => (Some TChar, ars)
  | VArr a =>
    match d with
    | O => (None, ars)
    | S d' =>
      match nth_error ars a with
      | None => (None, ars)
      | Some o =>
        match a_ty o with
        | Some t => (Some t, ars)
        | None =>
          match a_elems o with
          | [] => (Some TEmpty, set_nth a (mkArr [] (Some TEmpty)) ars)
          | v0 :: _ =>
            match type_of d' ars v0 with
            | (None, ars1) => (None, ars1)
            | (Some _, ars1) =>
              match nth_error ars1 a with
              | Some o1 => (Some TSlice, set_nth a (mkArr (a_elems o1) (Some TSlice)) ars1)
              | None => (Some TSlice, ars1)
              end
            end
          end
        end
      end
    end
  | _ => (None, ars)
  end.

(* scopes.go:BindSymbol on frame f (the innermost one of the running code) *)
Definition bind (f : nat) (x : ident) (v : value) : M unit :=
  fun s =>
    match nth_error (frames s) f with
    | None => (Sig (SErr EUnspec), s)
    | Some fr =>
      match assoc x fr with
      | None => (Done tt, upd_frame f x v s)
      | Some cur =>
        let '(lt, ars1) := type_of depth_limit (arrays s) cur in
        let '(rt, ars2) := type_of depth_limit ars1 v in
        let s2 := with_arrays s ars2 in
        match lt, rt with
        | Some a, Some b => if ty_eqb a b then (Done tt, upd_frame f x v s2)
                            else (Sig (SErr EOther), s2)
        | _, _ => (Done tt, upd_frame f x v s2)
        end
      end
    end.

Fixpoint bind_all (f : nat) (xs : list (ident * value)) : M unit :=
  match xs with
  | [] => ret tt
  | (x, v) :: r => _ <- bind f x v ;; bind_all f r
  end.

Definition zsgn (c : comparison) : Z := match c with Lt => -1 | Eq => 0 | Gt => 1 end.

Fixpoint cmp_bytes (a b : list Z) : Z :=       (* bytes.Compare *)
  match a, b with
  | [], [] => 0
  | [], _ => -1
  | _, [] => 1
  | x :: a', y :: b' => match x ?= y with Eq => cmp_bytes a' b' | c => zsgn c end
  end.

Inductive cmpres := CmpOk (z : Z) | CmpErr | CmpUnspec.

(* comparisons.go:Compare on the values of this model *)
Fixpoint cmp_val (d : nat) (ars : list arrobj) (a b : value) : cmpres :=
  match d with
  | O => CmpUnspec
  | S d' =>
    match a with
    | VInt x => match b with VInt y => CmpOk (zsgn (x ?= y)) | VFlt _ _ | VChr _ => CmpUnspec | _ => CmpErr end
    | VFlt _ _ | VChr _ => CmpUnspec              (* numeric comparison with a float or a character: declined *)
    | VBool x => match b with
                 | VBool y => CmpOk (if x then (if y then 0 else 1) else (if y then -1 else 0))
                 | _ => CmpErr end
    | VStr x => match b with VStr y => CmpOk (cmp_bytes x y) | _ => CmpErr end
    | VSym x => match b with VSym y => CmpOk (zsgn (x ?= y)) | _ => CmpErr end
    | VNil => match b with VNil => CmpOk 0 | _ => CmpOk (-1) end
    | VPair h t =>
      match b with
      | VPair h2 t2 =>
        match cmp_val d' ars h h2 with
        | CmpOk 0 => cmp_val d' ars t t2
        | r => r
        end
      | _ => CmpErr
      end
    | VArr p =>
      match b with
      | VArr q =>
        match nth_error ars p, nth_error ars q with
        | Some op, Some oq =>
          (fix go (xs ys : list value) : cmpres :=
             match xs, ys with
             | x :: xs', y :: ys' =>
               match cmp_val d' ars x y with
               | CmpOk 0 => go xs' ys'
               | r => r
               end
             | _, _ => CmpOk (zsgn (Nat.compare (length (a_elems op)) (length (a_elems oq))))
             end) (a_elems op) (a_elems oq)
        | _, _ => CmpUnspec
        end
      | _ => CmpErr
      end
    | VClos _ _ _ _ _ | VPrim _ => CmpErr
    end
  end.

Definition snap_depth : nat := 6.

Fixpoint snap (d : nat) (ars : list arrobj) (v : value) {struct d} : sval :=
  match d with
  | O => SvCut
  | S d' =>
    (fix go (v : value) : sval :=
       match v with
       | VInt z => SvInt z
       | VBool b => SvBool b
       | VNil => SvNil
       | VStr s => SvStr s
       | VSym s => SvSym s
       | VFlt m e => SvFlt m e
       | VChr c => SvChr c
       | VPair h t => SvPair (go h) (go t)
       | VArr a => match nth_error ars a with
                   | Some o => SvArr (map (snap d' ars) (a_elems o))
                   | None => SvCut
                   end
       | VClos _ _ _ _ _ => SvFn
       | VPrim p => SvPrim p
       end) v
  end.

(* m * 2^e with the factors of two moved into the exponent (0 is 0 * 2^0) *)
Fixpoint norm2 (fuel : nat) (m e : Z) : Z * Z :=
  match fuel with
  | O => (m, e)
  | S k => if m =? 0 then (0, 0) else if Z.even m then norm2 k (m / 2) (e + 1) else (m, e)
  end.

(* float64 division of two int64 operands as Go computes it, float64(a) / float64(b), in integer arithmetic
   (no real numbers: the evaluator stays free of the axioms of the reals).  rnd53 n d rounds the positive
   rational n/d to 53 significant bits, ties to even, as m * 2^e; operands of 64 bits keep every result
   far from the subnormal and overflow ranges.  Compared with Flocq's b64_div on examples in
   Properties/C02.v and with the real interpreter by the correspondence run. *)
Definition rnd53 (n d : Z) : Z * Z :=
  let e := Z.log2 n - Z.log2 d - 53 in
  let q0 := if e >=? 0 then n / (d * 2 ^ e) else (n * 2 ^ (- e)) / d in
  let e1 := if q0 >=? 2 ^ 53 then e + 1 else e in
  let num := if e1 >=? 0 then n else n * 2 ^ (- e1) in
  let den := if e1 >=? 0 then d * 2 ^ e1 else d in
  let q := num / den in
  let r := num mod den in
  (if (2 * r >? den) || ((2 * r =? den) && Z.odd q) then q + 1 else q, e1).

Definition fl_of_Z (a : Z) : Z * Z := rnd53 a 1.      (* a > 0: float64(a) *)

Definition fdiv_z (a b : Z) : Z * Z :=                 (* a, b <> 0 *)
  let '(ma, ea) := fl_of_Z (Z.abs a) in
  let '(mb, eb) := fl_of_Z (Z.abs b) in
  let n := if ea >=? eb then ma * 2 ^ (ea - eb) else ma in
  let d := if ea >=? eb then mb else mb * 2 ^ (eb - ea) in
  let '(m, e) := rnd53 n d in
  norm2 80 (if Z.eqb (Z.sgn a) (Z.sgn b) then m else - m) e.

(* a computed quotient m * 2^e lies in the finite range of binary64 (always so for 64-bit operands; kept as an
   explicit check so that a result outside the model is declined, and under the name other proofs destructure) *)
Definition flt_of_f64 (me : Z * Z) : option (Z * Z) :=
  if (-1074 <=? snd me) && (snd me <=? 971) then Some me else None.

(* Go's string(rune): the UTF-8 encoding; code points that are not valid give U+FFFD *)
Definition utf8 (c : Z) : list Z :=
  if (c <? 0) || (1114111 <? c) || ((55296 <=? c) && (c <=? 57343)) then [239; 191; 189]
  else if c <? 128 then [c]
  else if c <? 2048 then [192 + c / 64; 128 + c mod 64]
  else if c <? 65536 then [224 + c / 4096; 128 + (c / 64) mod 64; 128 + c mod 64]
  else [240 + c / 262144; 128 + (c / 4096) mod 64; 128 + (c / 64) mod 64; 128 + c mod 64].

Fixpoint datum_val (d : datum) : value :=
  match d with
  | DInt z => VInt z
  | DSym s => VSym s
  | DFlt h => let '(m, e) := norm2 80 h (-1) in VFlt m e
  | DChr c => VChr c
  | DList ds => fold_right (fun x acc => VPair (datum_val x) acc) VNil ds
  end.

Fixpoint list_val (vs : list value) : value :=     (* listutils.go:MakeList *)
  match vs with [] => VNil | v :: r => VPair v (list_val r) end.

(* listutils.go:ListToArray; None = improper list *)
Fixpoint val_list (v : value) : option (list value) :=
  match v with
  | VNil => Some []
  | VPair h t => match val_list t with Some r => Some (h :: r) | None => None end
  | _ => None
  end.

Definition is_fn (v : value) : bool :=
  match v with VClos _ _ _ _ _ | VPrim _ => true | _ => false end.

(* ------------------------------------------------------------------ 6. compile check *)

Definition label_in (l : ident) (loops : list (option ident)) : bool :=
  existsb (fun o => match o with Some y => l =? y | None => false end) loops.

Definition loop_ok (l : option ident) (loops : list (option ident)) : bool :=
  match l with
  | None => match loops with [] => false | _ => true end
  | Some x => label_in x loops
  end.

(* What generator.go rejects when it generates one compile unit: break/continue that has
   no (matching) loop on the generator's loop stack.  The loop stack is global to the
   interpreter, so function bodies see the loops around the fn form (the break then fails
   at run time, vm.go:BreakInstr -> FindLoop); the arguments and a non-symbol callee of a
   call are NOT part of the unit (they are generated when the call executes). *)
Fixpoint cc (loops : list (option ident)) (e : expr) : bool :=
  match e with
  | EBreak l | ECont l => loop_ok l loops
  | ECall _ _ => true
  | EArr es | EBegin es | EAnd es | EOr es | EScope es => forallb (cc loops) es
  | ECond arms d => forallb (fun cb => cc loops (fst cb) && cc loops (snd cb)) arms && cc loops d
  | EDef _ e1 | ESet _ e1 => cc loops e1
  | ELet _ bs body => forallb (fun xb => cc loops (snd xb)) bs && forallb (cc loops) body
  | EFor l i t st body =>
    let loops' := l :: loops in
    cc loops' i && cc loops' t && cc loops' st && forallb (cc loops') body
  | EFn _ _ body | EDefn _ _ _ body => forallb (cc loops) body
  | _ => true
  end.

(* ------------------------------------------------------------------ 7. evaluator *)

(* does a break/continue signal with label l address the loop labelled mine? *)
Definition hits (l mine : option ident) : bool :=
  match l with
  | None => true
  | Some x => match mine with Some y => x =? y | None => false end
  end.

(* a loop-control signal escaping where the real code cannot express it *)
Definition no_loop_sig {A} (e : err) (m : M A) : M A :=
  fun s => match m s with
           | (Sig (SBreak _), s1) | (Sig (SCont _), s1) => (Sig (SErr e), s1)
           | r => r
           end.

Section Open.
  (* the evaluator and the applicator with less fuel *)
  Variable ev : list nat -> expr -> M value.
  Variable ap : value -> list value -> M value.

  Fixpoint ev_list (env : list nat) (es : list expr) : M (list value) :=
    match es with
    | [] => ret []
    | e :: r => v <- ev env e ;; vs <- ev_list env r ;; ret (v :: vs)
    end.

  (* generator.go:GenerateBegin: the value is that of the last form *)
  Fixpoint ev_begin (env : list nat) (es : list expr) : M value :=
    match es with
    | [] => ret VNil
    | [e] => ev env e
    | e :: r => _ <- ev env e ;; ev_begin env r
    end.

  (* generator.go:GenerateCond *)
  Fixpoint ev_cond (env : list nat) (arms : list (expr * expr)) (d : expr) : M value :=
    match arms with
    | [] => ev env d
    | (c, b) :: r => v <- ev env c ;; if truthy v then ev env b else ev_cond env r d
    end.

  (* generator.go:GenerateShortCircuit; (and)/(or) without arguments is a compile error *)
  Fixpoint ev_and (env : list nat) (es : list expr) : M value :=
    match es with
    | [] => raise EOther
    | [e] => ev env e
    | e :: r => v <- ev env e ;; if truthy v then ev_and env r else ret v
    end.
  Fixpoint ev_or (env : list nat) (es : list expr) : M value :=
    match es with
    | [] => raise EOther
    | [e] => ev env e
    | e :: r => v <- ev env e ;; if truthy v then ret v else ev_or env r
    end.

  (* environment.go:PrepareCallExprArgs: each argument is generated, then run, in order *)
  Fixpoint ev_args (env : list nat) (es : list expr) : M (list value) :=
    match es with
    | [] => ret []
    | e :: r =>
      if cc [] e then v <- ev env e ;; vs <- ev_args env r ;; ret (v :: vs)
      else raise ELoop
    end.

  (* letseq: evaluate and bind one after the other *)
  Fixpoint ev_letseq (f : nat) (env : list nat) (bs : list (ident * expr)) : M unit :=
    match bs with
    | [] => ret tt
    | (x, e) :: r => v <- ev env e ;; _ <- bind f x v ;; ev_letseq f env r
    end.

  (* generator.go:GenerateForLoop after the init code; k bounds the iterations *)
  Fixpoint for_loop (k : nat) (env : list nat) (lbl : option ident)
           (test step : expr) (body : list expr) : M value :=
    match k with
    | O => fun s => (Fuel, s)
    | S k' =>
      t <- no_loop_sig EUnspec (ev env test) ;;
      if truthy t then
        fun s =>
          let next := _ <- no_loop_sig EUnspec (ev env step) ;; for_loop k' env lbl test step body in
          match ev_begin env body s with
          | (Done _, s1) => next s1
          | (Sig (SCont l), s1) => if hits l lbl then next s1 else (Sig (SCont l), s1)
          | (Sig (SBreak l), s1) => if hits l lbl then (Done VNil, s1) else (Sig (SBreak l), s1)
          | r => r
          end
      else ret VNil
    end.

  (* vm.go:CallExprInstr + environment.go:CallResolved *)
  Definition call_expr (env : list nat) (f : expr) (args : list expr) : M value :=
    fv <- (match f with
           | EVar _ => ev env f
           | _ => if cc [] f then ev env f else raise ELoop
           end) ;;
    match fv with
    | VClos _ _ _ _ _ | VPrim _ => vs <- ev_args env args ;; ap fv vs
    | VSym _ | VArr _ | VFlt _ _ | VChr _ => raise EUnspec
    | _ => match args with [] => ret fv | _ => raise EOther end
    end.

  (* ---- builtins (functions.go) ---- *)

  Fixpoint arith (op : Z -> Z -> Z) (acc : value) (r : list value) : M value :=
    match r with
    | [] => ret acc
    | b :: r' => match acc with
                 | VInt x => match b with
                             | VInt y => arith op (VInt (wrap64 (op x y))) r'
                             | VFlt _ _ | VChr _ => raise EUnspec      (* float / character arithmetic: declined *)
                             | _ => raise EOther
                             end
                 | VFlt _ _ | VChr _ => raise EUnspec
                 | _ => raise EOther
                 end
    end.

  (* numerictower.go:NumericIntDo Div, folded over the arguments like + - *: an exact quotient is an
     integer, otherwise the result is the float64 quotient of the operands converted to float64
     (fdiv_z); dividing a float further is declined *)
  Fixpoint divide (acc : value) (r : list value) : M value :=
    match r with
    | [] => ret acc
    | b :: r' => match acc with
                 | VInt x => match b with
                             | VInt y =>
                               if y =? 0 then raise EOther
                               else if Z.rem x y =? 0 then divide (VInt (wrap64 (Z.quot x y))) r'
                               else match flt_of_f64 (fdiv_z x y) with
                                    | Some me => divide (VFlt (fst me) (snd me)) r'
                                    | None => raise EUnspec
                                    end
                             | VFlt _ _ | VChr _ => raise EUnspec
                             | _ => raise EOther
                             end
                 | VFlt _ _ | VChr _ => raise EUnspec
                 | _ => raise EOther
                 end
    end.

  (* strutils.go:ConcatStr: strings and characters (as UTF-8) appended to the first string *)
  Fixpoint cat_strs (acc : list Z) (rest : list value) : option (list Z) :=
    match rest with
    | [] => Some acc
    | VStr t :: r => cat_strs (acc ++ t) r
    | VChr c :: r => cat_strs (acc ++ utf8 c) r
    | _ => None
    end.

  Definition compare_prim (test : Z -> bool) (args : list value) : M value :=
    match args with
    | [a; b] => fun s => match cmp_val depth_limit (arrays s) a b with
                         | CmpOk z => (Done (VBool (test z)), s)
                         | CmpErr => (Sig (SErr EOther), s)
                         | CmpUnspec => (Sig (SErr EUnspec), s)
                         end
    | _ => raise EOther
    end.

  (* arrayutils.go:MapArray: apply in order; the result carries the type of the first
     typed result as its cached type *)
  Fixpoint map_arr (f : value) (xs : list value) (t : option ty) : M (list value * option ty) :=
    match xs with
    | [] => ret ([], t)
    | x :: r =>
      y <- ap f [x] ;;
      t1 <- (match t with
             | Some _ => ret t
             | None => fun s => let '(ty1, ars1) := type_of depth_limit (arrays s) y in
                                (Done ty1, with_arrays s ars1)
             end) ;;
      yt <- map_arr f r t1 ;;
      ret (y :: fst yt, snd yt)
    end.

  (* listutils.go:MapList *)
  Fixpoint map_pairs (f : value) (v : value) : M value :=
    match v with
    | VNil => ret VNil
    | VPair h t => h' <- ap f [h] ;; t' <- map_pairs f t ;; ret (VPair h' t')
    | _ => raise EOther
    end.

  (* listutils.go:ConcatLists / ConcatTwoLists as the reference semantics has it: lists are values, the
     result is the elements of all lists in order and no argument is changed; an argument that is not a
     proper list (nil is the empty list) is an error *)
  Fixpoint cat_lists (acc : list value) (rest : list value) : option (list value) :=
    match rest with
    | [] => Some acc
    | b :: r => match val_list b with Some lb => cat_lists (acc ++ lb) r | None => None end
    end.

  (* arrayutils.go:ConcatArray as the reference semantics has it: the elements of the arrays, in order;
     the first argument that is not an array is an error *)
  Fixpoint cat_arrs (acc : list value) (rest : list value) : M (list value) :=
    match rest with
    | [] => ret acc
    | VArr b :: r => o <- get_arr b ;; cat_arrs (acc ++ a_elems o) r
    | _ => raise EOther
    end.

  Definition prim_apply (p : prim) (args : list value) : M value :=
    match p with
    | PAdd => match args with a :: r => arith Z.add a r | [] => raise EOther end
    | PSub => match args with a :: r => arith Z.sub a r | [] => raise EOther end
    | PDiv => match args with a :: r => divide a r | [] => raise EOther end
    | PMul => match args with            (* functions.go:PointerOrNumericFunction *)
              | a :: b :: r => arith Z.mul a (b :: r)
              | [_] => raise EUnspec     (* one argument: pointer-to-type constructor *)
              | [] => raise EOther
              end
    | PLt => compare_prim (fun z => z <? 0) args
    | PGt => compare_prim (fun z => z >? 0) args
    | PLe => compare_prim (fun z => z <=? 0) args
    | PGe => compare_prim (fun z => z >=? 0) args
    | PEq => compare_prim (fun z => z =? 0) args
    | PNe => compare_prim (fun z => negb (z =? 0)) args
    | PNot => match args with [a] => ret (VBool (negb (truthy a))) | _ => raise EOther end
    | PCons => match args with [a; b] => ret (VPair a b) | _ => raise EOther end
    | PFirst =>
      match args with
      | [VPair h _] => ret h
      | [VArr a] => o <- get_arr a ;; match a_elems o with v :: _ => ret v | [] => raise EOther end
      | _ => raise EOther
      end
    | PRest =>
      match args with
      | [VPair _ t] => ret t
      | [VNil] => ret VNil
      | [VArr _] => raise EUnspec      (* shares the backing slice of its argument *)
      | _ => raise EOther
      end
    | PList => ret (list_val args)
    | PArray => alloc_arr args None
    | PAget =>
      match args with
      | VArr a :: VInt i :: r =>
        match r with
        | [] | [_] =>
          o <- get_arr a ;;
          if (0 <=? i) && (i <? Z.of_nat (length (a_elems o)))
          then ret (nth (Z.to_nat i) (a_elems o) VNil)
          else match r with [dflt] => ret dflt | _ => raise EOther end
        | _ => raise EOther
        end
      | VArr _ :: _ :: r => match r with [] | [_] => raise EUnspec | _ => raise EOther end
      | _ => raise EOther
      end
    | PAset =>
      match args with
      | [VArr a; VInt i; v] =>
        o <- get_arr a ;;
        if (0 <=? i) && (i <? Z.of_nat (length (a_elems o)))
        then fun s => (Done VNil,
                       with_arrays s (set_nth a (mkArr (set_nth (Z.to_nat i) v (a_elems o)) (a_ty o))
                                              (arrays s)))
        else raise EOther
      | [VArr _; VInt _] => raise EOther
      | [VArr _; _] | [VArr _; _; _] => raise EUnspec
      | _ => raise EOther
      end
    | PAppend =>
      match args with
      | [VArr a; v] => o <- get_arr a ;; alloc_arr (a_elems o ++ [v]) (a_ty o)
      | [VStr s; VStr t] => ret (VStr (s ++ t))          (* strutils.go:AppendStr *)
      | [VStr s; VChr c] => ret (VStr (s ++ utf8 c))
      | _ => raise EOther
      end
    | PLen =>
      match args with
      | [VNil] => ret (VInt 0)
      | [VArr a] => o <- get_arr a ;; ret (VInt (Z.of_nat (length (a_elems o))))
      | [VStr s] => ret (VInt (Z.of_nat (length s)))
      | [VPair h t] => match val_list (VPair h t) with
                       | Some l => ret (VInt (Z.of_nat (length l)))
                       | None => raise EUnspec
                       end
      | [VSym _] => raise EUnspec
      | _ => raise EOther
      end
    | PConcat =>
      (* functions.go:ConcatFunction.  A symbol argument is resolved as a variable path, strings and
         lists have their own concatenation (cat_lists); strings: declined.  arrayutils.go:ConcatArray: always a fresh array
         (also when nothing is appended), without a type cache. *)
      if existsb (fun v => match v with VSym _ => true | _ => false end) args then raise EUnspec
      else match args with
           | VArr a :: rest =>
             o <- get_arr a ;;
             els <- cat_arrs (a_elems o) rest ;;
             alloc_arr els None
           | VPair h t :: rest =>
             match rest with
             | [] => ret (VPair h t)               (* ConcatFunction: one list argument is returned as it is *)
             | _ :: _ =>
               match val_list (VPair h t) with
               | Some la => match cat_lists la rest with
                            | Some l => ret (list_val l)
                            | None => raise EOther
                            end
               | None => raise EOther
               end
             end
           | VStr s0 :: rest => match cat_strs s0 rest with Some r => ret (VStr r) | None => raise EOther end
           | _ => raise EOther
           end
    | PMap =>
      match args with
      | [f; c] =>
        if is_fn f then
          match c with
          | VArr a => o <- get_arr a ;; rt <- map_arr f (a_elems o) None ;; alloc_arr (fst rt) (snd rt)
          | VPair _ _ => map_pairs f c
          | _ => raise EOther
          end
        else raise EOther
      | _ => raise EOther
      end
    | PApply =>
      match args with
      | [f; c] =>
        if is_fn f then
          match c with
          | VArr a => o <- get_arr a ;; ap f (a_elems o)
          | VPair _ _ => match val_list c with Some l => ap f l | None => raise EOther end
          | _ => raise EOther
          end
        else raise EOther
      | _ => raise EOther
      end
    | PTrace =>
      fun s => (Done (hd VNil args),
                mkStore (frames s) (arrays s) (map (snap snap_depth (arrays s)) args :: trace s)
                        (fail_ctr s) (fail_at s))
    | PFailK =>
      fun s => let c := S (fail_ctr s) in
               let s1 := mkStore (frames s) (arrays s) (trace s) c (fail_at s) in
               if Nat.eqb c (fail_at s) then (Sig (SErr EUser), s1) else (Done (hd VNil args), s1)
    end.

  (* parameters to bind, in the order the real code binds them
     (generator.go:buildSexpFun emits PopStackPutEnv for the last formal first);
     None = arity mismatch (environment.go:CallFunction / wrangleOptargs) *)
  Fixpoint zip_params (ps : list ident) (rest : option ident) (args : list value)
           (acc : list (ident * value)) : option (list (ident * value)) :=
    match ps, args with
    | [], _ => match rest with
               | Some r => Some ((r, list_val args) :: acc)
               | None => match args with [] => Some acc | _ => None end
               end
    | p :: ps', a :: args' => zip_params ps' rest args' ((p, a) :: acc)
    | _ :: _, [] => None
    end.
End Open.

Fixpoint eval (n : nat) (env : list nat) (e : expr) {struct n} : M value :=
  match n with
  | O => fun s => (Fuel, s)
  | S n' =>
    let ev := eval n' in
    let ap := apply n' in
    match e with
    | EInt z => ret (VInt z)
    | EBool b => ret (VBool b)
    | ENil => ret VNil
    | EStr s => ret (VStr s)
    | EQuote d => ret (datum_val d)
    | EVar x => fun s => match lookup_chain (frames s) env x with
                         | Some (_, v) => (Done v, s)
                         | None => (Sig (SErr EUnbound), s)
                         end
    | EArr es => vs <- ev_list ev env es ;; alloc_arr vs None
    | ECall f args => call_expr ev ap env f args
    | EBegin es => ev_begin ev env es
    | ECond arms d => ev_cond ev env arms d
    | EAnd es => ev_and ev env es
    | EOr es => ev_or ev env es
    | EDef x e1 => v <- ev env e1 ;; _ <- bind (hd O env) x v ;; ret v
    | ESet x e1 =>
      v <- ev env e1 ;;
      fun s => match lookup_chain (frames s) env x with
               | Some (f, _) => (Done v, upd_frame f x v s)
               | None => (_ <- bind (hd O env) x v ;; ret v) s
               end
    | ELet false bs body =>
      fun s => let '(f, s1) := push_frame s in
               (vs <- ev_list ev (f :: env) (map snd bs) ;;
                _ <- bind_all f (rev (combine (map fst bs) vs)) ;;
                ev_begin ev (f :: env) body) s1
    | ELet true bs body =>
      fun s => let '(f, s1) := push_frame s in
               (_ <- ev_letseq ev f (f :: env) bs ;; ev_begin ev (f :: env) body) s1
    | EScope es =>
      fun s => let '(f, s1) := push_frame s in ev_begin ev (f :: env) es s1
    | EFor lbl init test step body =>
      fun s => let '(f, s1) := push_frame s in
               (_ <- no_loop_sig EUnspec (ev (f :: env) init) ;;
                for_loop ev n' (f :: env) lbl test step body) s1
    | EBreak l => fun s => (Sig (SBreak l), s)
    | ECont l => fun s => (Sig (SCont l), s)
    | EFn ps rest body => ret (VClos None ps rest body env)
    | EDefn name ps rest body =>
      _ <- bind (hd O env) name (VClos (Some name) ps rest body env) ;; ret VNil
    end
  end

with apply (n : nat) (f : value) (args : list value) {struct n} : M value :=
  match n with
  | O => fun s => (Fuel, s)
  | S n' =>
    match f with
    | VClos _ ps rest body cenv =>
      match zip_params ps rest args [] with
      | None => raise EOther
      | Some binds =>
        fun s => let '(fid, s1) := push_frame s in
                 (_ <- bind_all fid binds ;;
                  no_loop_sig ELoop (ev_begin (eval n') (fid :: cenv) body)) s1
      end
    | VPrim p => prim_apply (apply n') p args
    | _ => raise EOther
    end
  end.

(* ---- the global frame ---- *)

Definition all_prims : list prim :=
  [PAdd; PSub; PMul; PLt; PGt; PLe; PGe; PEq; PNe; PNot; PCons; PFirst; PRest; PList;
   PArray; PAget; PAset; PAppend; PLen; PMap; PApply; PTrace; PFailK; PConcat; PDiv].

Definition prim_ident (p : prim) : ident :=
  match p with
  | PAdd => 1 | PSub => 2 | PMul => 3 | PLt => 4 | PGt => 5 | PLe => 6 | PGe => 7 | PEq => 8
  | PNe => 9 | PNot => 10 | PCons => 11 | PFirst => 12 | PRest => 13 | PList => 14
  | PArray => 15 | PAget => 16 | PAset => 17 | PAppend => 18 | PLen => 19 | PMap => 20
  | PApply => 21 | PTrace => 22 | PFailK => 23 | PConcat => 24 | PDiv => 25
  end.

Definition global_frame : frame := map (fun p => (prim_ident p, VPrim p)) all_prims.

Definition init_store (failat : nat) : store := mkStore [global_frame] [] [] O failat.

(* ---- programs: the forms of one text, generated as one unit, run in the global frame ---- *)

Record outcome := mkOutcome {
  o_res : res sval;            (* Done value | Sig (SErr class) | Fuel *)
  o_trace : list (list sval)   (* oldest first *)
}.

Definition finish (r : res value * store) : outcome :=
  let '(rv, s) := r in
  mkOutcome (match rv with
             | Done v => Done (snap snap_depth (arrays s) v)
             | Sig (SErr e) => Sig (SErr e)
             | Sig _ => Sig (SErr ELoop)
             | Fuel => Fuel
             end) (rev (trace s)).

Definition eval_program_cfg (n : nat) (failat : nat) (forms : list expr) : outcome :=
  if forallb (cc []) forms
  then finish (ev_begin (eval n) [O] forms (init_store failat))
  else mkOutcome (Sig (SErr ELoop)) [].

Definition eval_program (n : nat) (forms : list expr) : outcome := eval_program_cfg n O forms.
