(* RefSemLazy: the reference evaluator of Model/RefSem.v (a COPY, see docs/RefSem.md) extended
   with lazy (#-prefixed) parameters.  Specification and model of property C16; executable
   definitions only; proofs in Proofs/RefSemLazyProofs.v, statements in Properties/C16.v.

   What is new with respect to RefSem.v
     * formals are (name, lazy?) pairs (expressions.go:SexpFunction.lazyFormals, isLazyFormalSymbol);
     * a value VThunk c (expressions.go:SexpLazyArg) and a thunk table in the store: cell c holds
       the source (TSrc e env: the unevaluated argument expression and the static chain of the
       CALLER at the call -- NewSourceLazyArg clones env.linearstack; TVal v: a value wrapped by
       apply/map -- NewValueLazyArg) and the memo (SexpLazyArg.Forced / Value);
     * prep_args = environment.go:PrepareCallExprArgs (the one call route of the current code:
       vm.go:CallExprInstr -> CallResolved evaluates the callee first and decides per position, from
       the FUNCTION VALUE, whether the argument becomes a thunk (IsLazyCallArg: fixed formals
       only, never the variadic tail) or is generated and evaluated now); generator.go:
       GenerateCallArgsForFunction + vm.go:PushLazyArgInstr (self tail calls) make the same
       decision from the function known under the callee's name at compile time: the same
       function unless the name was re-defined inside its own body (see docs/C16.md, finding);
     * wrap_args / ap_values = environment.go:Apply (used by apply, map): lazy positions get an
       already forced thunk holding the value;
     * force_cell = SexpLazyArg.Force (generate the expression as a compile unit of its own,
       run it on a clone of the captured stack, memoise on success);
       subst_cell = functions.go:SubstituteFunction (the source as data);
     * ghost components (never read by the evaluator): `touched`, the cells that force /
       substitute were applied to; `gh`, which evaluations of cell sources are in progress,
       how many were started, and whether one was started re-entrantly.

   Structure chosen for the proofs: everything that cannot see the thunk table is a
   computation C A over the core store `cstore` (exactly RefSem's store) and enters the
   evaluator through liftC; the thunk table is read and written by new_thunk, read_thunk,
   set_memo, begin_force, finish_force only; sequencing is on_result (bindM, no_loop_sig and the loop-exit dispatch of
   for_loop are instances).  Proofs/RefSemLazyProofs.v proves once that any predicate closed
   under these seven combinators holds of the whole evaluator. *)
From Coq Require Import ZArith Bool List.
Require Import ZV.Model.Num.
Import ListNotations.
Open Scope Z_scope.

(* ------------------------------------------------------------------ 1. syntax *)

Definition ident := Z.   (* symbol; the runner interns names, primitives have fixed numbers *)

Inductive datum :=       (* quoted data: (quote d) *)
| DInt (z : Z)
| DSym (s : ident)
| DList (ds : list datum)
| DFlt (h : Z).        (* the float literal h/2: floats enter only as literals (as in RefSem.v) *)

Inductive expr :=
| EInt (z : Z)                                   (* int64 literal, in range *)
| EBool (b : bool)
| ENil
| EStr (s : list Z)                              (* bytes *)
| EQuote (d : datum)
| EVar (x : ident)
| EArr (es : list expr)                          (* [e1 .. en]: elements generated inline *)
| ECall (f : expr) (args : list expr)            (* (f a1 .. an) *)
| EBegin (es : list expr)
| ECond (arms : list (expr * expr)) (dflt : expr)
| EAnd (es : list expr)
| EOr (es : list expr)
| EDef (x : ident) (e : expr)
| ESet (x : ident) (e : expr)
| ELet (seq : bool) (bs : list (ident * expr)) (body : list expr)   (* seq = letseq *)
| EScope (es : list expr)                        (* newScope *)
| EFor (lbl : option ident) (init test step : expr) (body : list expr)
| EBreak (lbl : option ident)
| ECont (lbl : option ident)
| EFn (ps : list (ident * bool)) (rest : option ident) (body : list expr)   (* (name, lazy?) ; rest = `& r` *)
| EDefn (name : ident) (ps : list (ident * bool)) (rest : option ident) (body : list expr).

(* ------------------------------------------------------------------ 2. values *)

(* builtin and host functions: first-class values, bound in the global frame *)
Inductive prim :=
| PAdd | PSub | PMul
| PLt | PGt | PLe | PGe | PEq | PNe
| PNot
| PCons | PFirst | PRest | PList
| PArray | PAget | PAset | PAppend | PLen | PConcat
| PMap | PApply
| PTrace            (* host: records its arguments, returns the first *)
| PFailK            (* host: counts its calls, raises a user error on call number fail_at *)
| PForce            (* functions.go:ForceFunction *)
| PSubst.           (* functions.go:SubstituteFunction *)

Inductive value :=
| VInt (z : Z)
| VBool (b : bool)
| VNil
| VStr (s : list Z)
| VSym (s : ident)
| VPair (h t : value)
| VArr (a : nat)                                  (* address in the array store *)
| VClos (name : option ident) (ps : list (ident * bool)) (rest : option ident)
        (body : list expr) (env : list nat)      (* env = static chain, innermost first *)
| VPrim (p : prim)
| VFlt (h : Z)                                    (* the float h/2; arithmetic and comparison on floats are declined *)
| VThunk (c : nat).                               (* expressions.go:SexpLazyArg; c = cell in the thunk table *)

(* the types zygo.Sexp.Type() distinguishes on the values above (None = untyped) *)
Inductive ty := TInt | TBool | TStr | TSym | TSlice | TEmpty | TFloat.

(* printable snapshot of a value (arrays by content at the time of the snapshot) *)
Inductive sval :=
| SvInt (z : Z) | SvBool (b : bool) | SvNil | SvStr (s : list Z) | SvSym (s : ident)
| SvPair (h t : sval) | SvArr (l : list sval) | SvFn | SvPrim (p : prim) | SvCut | SvThunk | SvFlt (h : Z).

(* ------------------------------------------------------------------ 3. store *)

Definition frame := list (ident * value).
Record arrobj := mkArr { a_elems : list value; a_ty : option ty }.  (* a_ty: SexpArray.Typ cache *)

Record cstore := mkC {
  frames : list frame;        (* frame id = index; frames are never removed *)
  arrays : list arrobj;
  trace  : list (list sval);  (* newest first *)
  fail_ctr : nat;
  fail_at  : nat              (* 0 = never *)
}.

Definition with_frames (s : cstore) (f : list frame) : cstore :=
  mkC f (arrays s) (trace s) (fail_ctr s) (fail_at s).
Definition with_arrays (s : cstore) (a : list arrobj) : cstore :=
  mkC (frames s) a (trace s) (fail_ctr s) (fail_at s).

(* ------------------------------------------------------------------ 4. outcomes *)

Inductive err :=
| EUnbound      (* symbol not found *)
| EUser         (* raised by the host function failk *)
| ELoop         (* break/continue that does not reach a loop of the running function *)
| EOther        (* wrong type / arity / not callable / index / re-definition type clash *)
| EUnspec.      (* the model declines: behaviour outside the modelled core *)

Inductive sig :=
| SBreak (l : option ident)
| SCont (l : option ident)
| SErr (e : err).

Inductive res (A : Type) :=
| Done (a : A)
| Sig (g : sig)
| Fuel.                       (* out of fuel: a distinct outcome *)
Arguments Done {A} a.
Arguments Sig {A} g.
Arguments Fuel {A}.

Definition C (A : Type) := cstore -> res A * cstore.   (* computations that cannot see the thunk table *)
Definition cret {A} (a : A) : C A := fun s => (Done a, s).
Definition craise {A} (e : err) : C A := fun s => (Sig (SErr e), s).
Definition cbind {A B} (m : C A) (k : A -> C B) : C B :=
  fun s => match m s with
           | (Done a, s1) => k a s1
           | (Sig g, s1) => (Sig g, s1)
           | (Fuel, s1) => (Fuel, s1)
           end.
Notation "x <-- m ;; k" := (cbind m (fun x => k)) (at level 61, m at next level, right associativity).

(* ------------------------------------------------------------------ 5. helpers *)

Fixpoint set_nth {A} (n : nat) (x : A) (l : list A) : list A :=
  match l, n with
  | [], _ => []
  | _ :: t, O => x :: t
  | h :: t, S n' => h :: set_nth n' x t
  end.

Fixpoint assoc (x : ident) (fr : frame) : option value :=
  match fr with
  | [] => None
  | (y, v) :: r => if x =? y then Some v else assoc x r
  end.

Fixpoint fr_set (x : ident) (v : value) (fr : frame) : frame :=
  match fr with
  | [] => [(x, v)]
  | (y, w) :: r => if x =? y then (y, v) :: r else (y, w) :: fr_set x v r
  end.

(* environment.go:LexicalLookupSymbol as the reference semantics has it: the innermost
   frame of the static chain that binds x *)
Fixpoint lookup_chain (fs : list frame) (env : list nat) (x : ident) : option (nat * value) :=
  match env with
  | [] => None
  | f :: env' =>
    match nth_error fs f with
    | Some fr => match assoc x fr with
                 | Some v => Some (f, v)
                 | None => lookup_chain fs env' x
                 end
    | None => lookup_chain fs env' x
    end
  end.

Definition upd_frame (f : nat) (x : ident) (v : value) (s : cstore) : cstore :=
  match nth_error (frames s) f with
  | Some fr => with_frames s (set_nth f (fr_set x v fr) (frames s))
  | None => s
  end.

Definition push_frame : C nat :=
  fun s => (Done (length (frames s)), with_frames s (frames s ++ [[]])).

Definition alloc_arr (vs : list value) (t : option ty) : C value :=
  fun s => (Done (VArr (length (arrays s))), with_arrays s (arrays s ++ [mkArr vs t])).

Definition get_arr (a : nat) : C arrobj :=
  fun s => match nth_error (arrays s) a with
           | Some o => (Done o, s)
           | None => (Sig (SErr EUnspec), s)
           end.

Definition truthy (v : value) : bool :=        (* expressions.go:IsTruthy *)
  match v with
  | VBool b => b
  | VInt z => negb (z =? 0)
  | VNil => false
  | _ => true
  end.

Definition ty_eqb (a b : ty) : bool :=
  match a, b with
  | TInt, TInt | TBool, TBool | TStr, TStr | TSym, TSym | TSlice, TSlice | TEmpty, TEmpty | TFloat, TFloat => true
  | _, _ => false
  end.

Definition depth_limit : nat := 64.

(* Sexp.Type() with the SexpArray.Typ cache (expressions.go: SexpArray.Type) *)
Fixpoint type_of (d : nat) (ars : list arrobj) (v : value) : option ty * list arrobj :=
  match v with
  | VInt _ => (Some TInt, ars)
  | VBool _ => (Some TBool, ars)
  | VStr _ => (Some TStr, ars)
  | VSym _ => (Some TSym, ars)
  | VFlt _ => (Some TFloat, ars)
  | VArr a =>
    match d with
    | O => (None, ars)
    | S d' =>
      match nth_error ars a with
      | None => (None, ars)
      | Some o =>
        match a_ty o with
        | Some t => (Some t, ars)
        | None =>
          match a_elems o with
          | [] => (Some TEmpty, set_nth a (mkArr [] (Some TEmpty)) ars)
          | v0 :: _ =>
            match type_of d' ars v0 with
            | (None, ars1) => (None, ars1)
            | (Some _, ars1) =>
              match nth_error ars1 a with
              | Some o1 => (Some TSlice, set_nth a (mkArr (a_elems o1) (Some TSlice)) ars1)
              | None => (Some TSlice, ars1)
              end
            end
          end
        end
      end
    end
  | _ => (None, ars)
  end.

(* scopes.go:BindSymbol on frame f (the innermost one of the running code) *)
Definition bind (f : nat) (x : ident) (v : value) : C unit :=
  fun s =>
    match nth_error (frames s) f with
    | None => (Sig (SErr EUnspec), s)
    | Some fr =>
      match assoc x fr with
      | None => (Done tt, upd_frame f x v s)
      | Some cur =>
        let '(lt, ars1) := type_of depth_limit (arrays s) cur in
        let '(rt, ars2) := type_of depth_limit ars1 v in
        let s2 := with_arrays s ars2 in
        match lt, rt with
        | Some a, Some b => if ty_eqb a b then (Done tt, upd_frame f x v s2)
                            else (Sig (SErr EOther), s2)
        | _, _ => (Done tt, upd_frame f x v s2)
        end
      end
    end.

Fixpoint bind_all (f : nat) (xs : list (ident * value)) : C unit :=
  match xs with
  | [] => cret tt
  | (x, v) :: r => _ <-- bind f x v ;; bind_all f r
  end.

Definition zsgn (c : comparison) : Z := match c with Lt => -1 | Eq => 0 | Gt => 1 end.

Fixpoint cmp_bytes (a b : list Z) : Z :=       (* bytes.Compare *)
  match a, b with
  | [], [] => 0
  | [], _ => -1
  | _, [] => 1
  | x :: a', y :: b' => match x ?= y with Eq => cmp_bytes a' b' | c => zsgn c end
  end.

Inductive cmpres := CmpOk (z : Z) | CmpErr | CmpUnspec.

(* comparisons.go:Compare on the values of this model *)
Fixpoint cmp_val (d : nat) (ars : list arrobj) (a b : value) : cmpres :=
  match d with
  | O => CmpUnspec
  | S d' =>
    match a with
    | VInt x => match b with VInt y => CmpOk (zsgn (x ?= y)) | VFlt _ => CmpUnspec | _ => CmpErr end
    | VFlt _ => CmpUnspec                        (* numeric comparison with a float: declined *)
    | VBool x => match b with
                 | VBool y => CmpOk (if x then (if y then 0 else 1) else (if y then -1 else 0))
                 | _ => CmpErr end
    | VStr x => match b with VStr y => CmpOk (cmp_bytes x y) | _ => CmpErr end
    | VSym x => match b with VSym y => CmpOk (zsgn (x ?= y)) | _ => CmpErr end
    | VNil => match b with VNil => CmpOk 0 | _ => CmpOk (-1) end
    | VPair h t =>
      match b with
      | VPair h2 t2 =>
        match cmp_val d' ars h h2 with
        | CmpOk 0 => cmp_val d' ars t t2
        | r => r
        end
      | _ => CmpErr
      end
    | VArr p =>
      match b with
      | VArr q =>
        match nth_error ars p, nth_error ars q with
        | Some op, Some oq =>
          (fix go (xs ys : list value) : cmpres :=
             match xs, ys with
             | x :: xs', y :: ys' =>
               match cmp_val d' ars x y with
               | CmpOk 0 => go xs' ys'
               | r => r
               end
             | _, _ => CmpOk (zsgn (Nat.compare (length (a_elems op)) (length (a_elems oq))))
             end) (a_elems op) (a_elems oq)
        | _, _ => CmpUnspec
        end
      | _ => CmpErr
      end
    | VClos _ _ _ _ _ | VPrim _ | VThunk _ => CmpErr
    end
  end.

Definition snap_depth : nat := 6.

Fixpoint snap (d : nat) (ars : list arrobj) (v : value) {struct d} : sval :=
  match d with
  | O => SvCut
  | S d' =>
    (fix go (v : value) : sval :=
       match v with
       | VInt z => SvInt z
       | VBool b => SvBool b
       | VNil => SvNil
       | VStr s => SvStr s
       | VSym s => SvSym s
       | VPair h t => SvPair (go h) (go t)
       | VArr a => match nth_error ars a with
                   | Some o => SvArr (map (snap d' ars) (a_elems o))
                   | None => SvCut
                   end
       | VClos _ _ _ _ _ => SvFn
       | VPrim p => SvPrim p
       | VThunk _ => SvThunk
       | VFlt h => SvFlt h
       end) v
  end.

Fixpoint datum_val (d : datum) : value :=
  match d with
  | DInt z => VInt z
  | DSym s => VSym s
  | DFlt h => VFlt h
  | DList ds => fold_right (fun x acc => VPair (datum_val x) acc) VNil ds
  end.

Fixpoint list_val (vs : list value) : value :=     (* listutils.go:MakeList *)
  match vs with [] => VNil | v :: r => VPair v (list_val r) end.

(* listutils.go:ListToArray; None = improper list *)
Fixpoint val_list (v : value) : option (list value) :=
  match v with
  | VNil => Some []
  | VPair h t => match val_list t with Some r => Some (h :: r) | None => None end
  | _ => None
  end.

Definition is_fn (v : value) : bool :=
  match v with VClos _ _ _ _ _ | VPrim _ => true | _ => false end.

(* ------------------------------------------------------------------ 6. compile check *)

Definition label_in (l : ident) (loops : list (option ident)) : bool :=
  existsb (fun o => match o with Some y => l =? y | None => false end) loops.

Definition loop_ok (l : option ident) (loops : list (option ident)) : bool :=
  match l with
  | None => match loops with [] => false | _ => true end
  | Some x => label_in x loops
  end.

(* What generator.go rejects when it generates one compile unit: break/continue that has
   no (matching) loop on the generator's loop stack.  The loop stack is global to the
   interpreter, so function bodies see the loops around the fn form (the break then fails
   at run time, vm.go:BreakInstr -> FindLoop); the arguments and a non-symbol callee of a
   call are NOT part of the unit (they are generated when the call executes). *)
Fixpoint cc (loops : list (option ident)) (e : expr) : bool :=
  match e with
  | EBreak l | ECont l => loop_ok l loops
  | ECall _ _ => true
  | EArr es | EBegin es | EAnd es | EOr es | EScope es => forallb (cc loops) es
  | ECond arms d => forallb (fun cb => cc loops (fst cb) && cc loops (snd cb)) arms && cc loops d
  | EDef _ e1 | ESet _ e1 => cc loops e1
  | ELet _ bs body => forallb (fun xb => cc loops (snd xb)) bs && forallb (cc loops) body
  | EFor l i t st body =>
    let loops' := l :: loops in
    cc loops' i && cc loops' t && cc loops' st && forallb (cc loops') body
  | EFn _ _ body | EDefn _ _ _ body => forallb (cc loops) body
  | _ => true
  end.

(* ------------------------------------------------------------------ 7. store with thunks *)

Inductive tsrc :=
| TSrc (e : expr) (env : list nat)   (* NewSourceLazyArg: expression + captured static chain *)
| TVal (v : value).                  (* NewValueLazyArg: Expr = Value = v, Forced *)

Record thunk := mkThunk { t_src : tsrc; t_memo : option value }.

(* ghost bookkeeping of forcing (no influence on results; read only by the theorems):
   forcing = cells whose source is being evaluated right now (innermost first),
   evals   = one entry per evaluation of a cell's source that was ever started,
   reent   = some force started evaluating a cell that was already being evaluated *)
Record ghost := mkGhost { forcing : list nat; evals : list nat; reent : bool }.

Record store := mkStore {
  core : cstore;
  thunks : list thunk;     (* cell = index; cells are never removed *)
  touched : list nat;      (* ghost: cells that force / substitute were applied to, newest first *)
  gh : ghost
}.

Definition add_cell (s : store) (t : thunk) : store :=
  mkStore (core s) (thunks s ++ [t]) (touched s) (gh s).
Definition memo_of (s : store) (c : nat) : option value :=
  match nth_error (thunks s) c with Some t => t_memo t | None => None end.
Fixpoint remove1 (c : nat) (l : list nat) : list nat :=
  match l with [] => [] | x :: r => if Nat.eqb c x then r else x :: remove1 c r end.

Definition M (A : Type) := store -> res A * store.

Definition pure {A} (r : res A) : M A := fun s => (r, s).
Definition on_result {A B} (m : M A) (k : res A -> M B) : M B :=
  fun s => let (r, s1) := m s in k r s1.
Definition liftC {A} (f : C A) : M A :=
  fun s => let (r, c1) := f (core s) in (r, mkStore c1 (thunks s) (touched s) (gh s)).
Definition new_thunk (src : tsrc) (memo : option value) : M value :=
  fun s => (Done (VThunk (length (thunks s))), add_cell s (mkThunk src memo)).
Definition read_thunk (c : nat) : M (option thunk) :=
  fun s => (Done (nth_error (thunks s) c), mkStore (core s) (thunks s) (c :: touched s) (gh s)).
Definition set_memo (c : nat) (v : value) : M unit :=
  fun s => (Done tt,
            mkStore (core s)
                    (match nth_error (thunks s) c with
                     | Some t => set_nth c (mkThunk (t_src t) (Some v)) (thunks s)
                     | None => thunks s
                     end) (touched s) (gh s)).

(* ghost: the evaluation of the source of cell c starts (called by force_cell when the memo it
   read is empty).  It is RE-ENTRANT when c is already being evaluated. *)
Definition begin_force (c : nat) : M unit :=
  fun s => match memo_of s c with
           | Some _ => (Done tt, s)
           | None =>
             let g := gh s in
             (Done tt, mkStore (core s) (thunks s) (touched s)
                               (mkGhost (c :: forcing g) (c :: evals g)
                                        (reent g || existsb (Nat.eqb c) (forcing g))))
           end.

(* the evaluation of the source of cell c ended with value v: memoise, no longer in progress *)
Definition finish_force (c : nat) (v : value) : M unit :=
  fun s => match nth_error (thunks s) c with
           | Some t =>
             let g := gh s in
             (Done tt, mkStore (core s) (set_nth c (mkThunk (t_src t) (Some v)) (thunks s)) (touched s)
                               (mkGhost (remove1 c (forcing g)) (evals g) (reent g)))
           | None => (Done tt, s)
           end.

Definition ret {A} (a : A) : M A := pure (Done a).
Definition raise {A} (e : err) : M A := pure (Sig (SErr e)).
Definition bindM {A B} (m : M A) (k : A -> M B) : M B :=
  on_result m (fun r => match r with
                        | Done a => k a
                        | Sig g => pure (Sig g)
                        | Fuel => pure Fuel
                        end).
Notation "x <- m ;; k" := (bindM m (fun x => k)) (at level 61, m at next level, right associativity).

(* a loop-control signal escaping where the real code cannot express it *)
Definition no_loop_sig {A} (e : err) (m : M A) : M A :=
  on_result m (fun r => match r with
                        | Sig (SBreak _) | Sig (SCont _) => pure (Sig (SErr e))
                        | r => pure r
                        end).

(* does a break/continue signal with label l address the loop labelled mine? *)
Definition hits (l mine : option ident) : bool :=
  match l with
  | None => true
  | Some x => match mine with Some y => x =? y | None => false end
  end.

(* ---- core-store primitives used by the evaluator ---- *)

Definition lookup_var (env : list nat) (x : ident) : C value :=
  fun s => match lookup_chain (frames s) env x with
           | Some (_, v) => (Done v, s)
           | None => (Sig (SErr EUnbound), s)
           end.

(* vm.go:UpdateInstr *)
Definition set_var (env : list nat) (x : ident) (v : value) : C value :=
  fun s => match lookup_chain (frames s) env x with
           | Some (f, _) => (Done v, upd_frame f x v s)
           | None => (_ <-- bind (hd O env) x v ;; cret v) s
           end.

Definition compare_prim (test : Z -> bool) (args : list value) : C value :=
  match args with
  | [a; b] => fun s => match cmp_val depth_limit (arrays s) a b with
                       | CmpOk z => (Done (VBool (test z)), s)
                       | CmpErr => (Sig (SErr EOther), s)
                       | CmpUnspec => (Sig (SErr EUnspec), s)
                       end
  | _ => craise EOther
  end.

Definition type_of_c (v : value) : C (option ty) :=
  fun s => let '(ty1, ars1) := type_of depth_limit (arrays s) v in (Done ty1, with_arrays s ars1).

Definition aset_write (a : nat) (i : Z) (v : value) (o : arrobj) : C value :=
  fun s => (Done VNil,
            with_arrays s (set_nth a (mkArr (set_nth (Z.to_nat i) v (a_elems o)) (a_ty o)) (arrays s))).

Definition trace_c (args : list value) : C value :=
  fun s => (Done (hd VNil args),
            mkC (frames s) (arrays s) (map (snap snap_depth (arrays s)) args :: trace s)
                (fail_ctr s) (fail_at s)).

Definition failk_c (args : list value) : C value :=
  fun s => let c := S (fail_ctr s) in
           let s1 := mkC (frames s) (arrays s) (trace s) c (fail_at s) in
           if Nat.eqb c (fail_at s) then (Sig (SErr EUser), s1) else (Done (hd VNil args), s1).

(* ---- the source of an argument as data (what the reader produced for it) ---- *)

Definition kw_begin : ident := 101.
Definition kw_cond  : ident := 102.
Definition kw_and   : ident := 103.
Definition kw_or    : ident := 104.
Definition kw_def   : ident := 105.
Definition kw_set   : ident := 106.
Definition kw_quote : ident := 107.
Definition kw_nil   : ident := 108.

Definition opt_cons (a : option value) (b : option (list value)) : option (list value) :=
  match a, b with Some v, Some vs => Some (v :: vs) | _, _ => None end.

(* None: a form whose reader representation is outside the modelled data (arrays, let, for,
   fn ..): the model declines (EUnspec) *)
Fixpoint expr_datum (e : expr) : option value :=
  let all := fix all (es : list expr) : option (list value) :=
               match es with [] => Some [] | e1 :: r => opt_cons (expr_datum e1) (all r) end in
  match e with
  | EInt z => Some (VInt z)
  | EBool b => Some (VBool b)
  | ENil => Some VNil              (* the reader yields SexpNull for nil *)
  | EStr s => Some (VStr s)
  | EVar x => Some (VSym x)
  | EQuote (DFlt h) => Some (VFlt h)          (* a float literal is written bare: the reader yields the float *)
  | EQuote d => Some (list_val [VSym kw_quote; datum_val d])
  | ECall f args => option_map list_val (opt_cons (expr_datum f) (all args))
  | EBegin es => option_map (fun vs => list_val (VSym kw_begin :: vs)) (all es)
  | EAnd es => option_map (fun vs => list_val (VSym kw_and :: vs)) (all es)
  | EOr es => option_map (fun vs => list_val (VSym kw_or :: vs)) (all es)
  | ECond arms d =>
    let arms_d := fix arms_d (l : list (expr * expr)) : option (list value) :=
                    match l with
                    | [] => opt_cons (expr_datum d) (Some [])
                    | (c, b) :: r => opt_cons (expr_datum c) (opt_cons (expr_datum b) (arms_d r))
                    end in
    option_map (fun vs => list_val (VSym kw_cond :: vs)) (arms_d arms)
  | EDef x e1 => option_map (fun v => list_val [VSym kw_def; VSym x; v]) (expr_datum e1)
  | ESet x e1 => option_map (fun v => list_val [VSym kw_set; VSym x; v]) (expr_datum e1)
  | _ => None
  end.

(* ------------------------------------------------------------------ 8. evaluator *)

Section Open.
  (* the evaluator and the applicator with less fuel *)
  Variable ev : list nat -> expr -> M value.
  Variable ap : value -> list value -> M value.

  Fixpoint ev_list (env : list nat) (es : list expr) : M (list value) :=
    match es with
    | [] => ret []
    | e :: r => v <- ev env e ;; vs <- ev_list env r ;; ret (v :: vs)
    end.

  (* generator.go:GenerateBegin: the value is that of the last form *)
  Fixpoint ev_begin (env : list nat) (es : list expr) : M value :=
    match es with
    | [] => ret VNil
    | [e] => ev env e
    | e :: r => _ <- ev env e ;; ev_begin env r
    end.

  (* generator.go:GenerateCond *)
  Fixpoint ev_cond (env : list nat) (arms : list (expr * expr)) (d : expr) : M value :=
    match arms with
    | [] => ev env d
    | (c, b) :: r => v <- ev env c ;; if truthy v then ev env b else ev_cond env r d
    end.

  (* generator.go:GenerateShortCircuit; (and)/(or) without arguments is a compile error *)
  Fixpoint ev_and (env : list nat) (es : list expr) : M value :=
    match es with
    | [] => raise EOther
    | [e] => ev env e
    | e :: r => v <- ev env e ;; if truthy v then ev_and env r else ret v
    end.
  Fixpoint ev_or (env : list nat) (es : list expr) : M value :=
    match es with
    | [] => raise EOther
    | [e] => ev env e
    | e :: r => v <- ev env e ;; if truthy v then ret v else ev_or env r
    end.

  (* one argument position of environment.go:PrepareCallExprArgs:
     lazy  -> NewSourceLazyArg(env, expr): a new cell holding the expression and the CALLER's
              static chain, nothing is evaluated (not even generated: a break outside a loop in
              it is found when it is forced);
     strict -> EvalCallExpression: generated as a unit of its own, then run, now *)
  Definition prep_arg (env : list nat) (lz : bool) (e : expr) : M value :=
    if lz then new_thunk (TSrc e env) None
    else if cc [] e then ev env e else raise ELoop.

  (* environment.go:PrepareCallExprArgs: positions left to right; flags = lazy flags of the
     fixed formals (positions beyond them, i.e. the variadic tail or surplus arguments, are strict) *)
  Fixpoint prep_args (env : list nat) (flags : list bool) (es : list expr) : M (list value) :=
    match es with
    | [] => ret []
    | e :: r => v <- prep_arg env (hd false flags) e ;;
                vs <- prep_args env (tl flags) r ;; ret (v :: vs)
    end.

  (* environment.go:Apply: values given to apply / map; a lazy position gets an already
     forced thunk around the value (NewValueLazyArg) *)
  Definition wrap_arg (lz : bool) (v : value) : M value :=
    if lz then new_thunk (TVal v) (Some v) else ret v.

  Fixpoint wrap_args (flags : list bool) (vs : list value) : M (list value) :=
    match vs with
    | [] => ret []
    | v :: r => w <- wrap_arg (hd false flags) v ;; ws <- wrap_args (tl flags) r ;; ret (w :: ws)
    end.

  Definition lazy_flags (f : value) : list bool :=
    match f with VClos _ ps _ _ _ => map snd ps | _ => [] end.

  Definition ap_values (f : value) (vs : list value) : M value :=
    ws <- wrap_args (lazy_flags f) vs ;; ap f ws.

  (* letseq: evaluate and bind one after the other *)
  Fixpoint ev_letseq (f : nat) (env : list nat) (bs : list (ident * expr)) : M unit :=
    match bs with
    | [] => ret tt
    | (x, e) :: r => v <- ev env e ;; _ <- liftC (bind f x v) ;; ev_letseq f env r
    end.

  (* generator.go:GenerateForLoop after the init code; k bounds the iterations *)
  Fixpoint for_loop (k : nat) (env : list nat) (lbl : option ident)
           (test step : expr) (body : list expr) : M value :=
    match k with
    | O => pure Fuel
    | S k' =>
      t <- no_loop_sig EUnspec (ev env test) ;;
      if truthy t then
        let next := _ <- no_loop_sig EUnspec (ev env step) ;; for_loop k' env lbl test step body in
        on_result (ev_begin env body)
                  (fun r => match r with
                            | Done _ => next
                            | Sig (SCont l) => if hits l lbl then next else pure (Sig (SCont l))
                            | Sig (SBreak l) => if hits l lbl then ret VNil else pure (Sig (SBreak l))
                            | Sig (SErr e) => pure (Sig (SErr e))
                            | Fuel => pure Fuel
                            end)
      else ret VNil
    end.

  (* vm.go:CallExprInstr + environment.go:CallResolved: the callee first, then the argument
     positions as the function value demands, then the call *)
  Definition call_expr (env : list nat) (f : expr) (args : list expr) : M value :=
    fv <- (match f with
           | EVar _ => ev env f
           | _ => if cc [] f then ev env f else raise ELoop
           end) ;;
    match fv with
    | VClos _ _ _ _ _ | VPrim _ => vs <- prep_args env (lazy_flags fv) args ;; ap fv vs
    | VSym _ | VArr _ | VFlt _ => raise EUnspec
    | _ => match args with [] => ret fv | _ => raise EOther end
    end.

  (* expressions.go:SexpLazyArg.Force *)
  Definition force_cell (c : nat) : M value :=
    ot <- read_thunk c ;;
    match ot with
    | None => raise EUnspec
    | Some t =>
      match t_memo t with
      | Some v => ret v
      | None =>
        match t_src t with
        | TVal v => _ <- set_memo c v ;; ret v
        | TSrc e env =>
          if cc [] e then _ <- begin_force c ;; v <- ev env e ;; _ <- finish_force c v ;; ret v
          else raise ELoop
        end
      end
    end.

  (* functions.go:SubstituteFunction *)
  Definition subst_cell (c : nat) : M value :=
    ot <- read_thunk c ;;
    match ot with
    | None => raise EUnspec
    | Some t =>
      match t_src t with
      | TVal v => ret v
      | TSrc e _ => match expr_datum e with Some d => ret d | None => raise EUnspec end
      end
    end.

  (* ---- builtins (functions.go) ---- *)

  Fixpoint arith (op : Z -> Z -> Z) (acc : value) (r : list value) : M value :=
    match r with
    | [] => ret acc
    | b :: r' => match acc with
                 | VInt x => match b with
                             | VInt y => arith op (VInt (wrap64 (op x y))) r'
                             | VFlt _ => raise EUnspec      (* float arithmetic: declined *)
                             | _ => raise EOther
                             end
                 | VFlt _ => raise EUnspec
                 | _ => raise EOther
                 end
    end.

  (* arrayutils.go:MapArray: apply in order; the result carries the type of the first
     typed result as its cached type *)
  Fixpoint map_arr (f : value) (xs : list value) (t : option ty) : M (list value * option ty) :=
    match xs with
    | [] => ret ([], t)
    | x :: r =>
      y <- ap_values f [x] ;;
      t1 <- (match t with
             | Some _ => ret t
             | None => liftC (type_of_c y)
             end) ;;
      yt <- map_arr f r t1 ;;
      ret (y :: fst yt, snd yt)
    end.

  (* listutils.go:MapList *)
  Fixpoint map_pairs (f : value) (v : value) : M value :=
    match v with
    | VNil => ret VNil
    | VPair h t => h' <- ap_values f [h] ;; t' <- map_pairs f t ;; ret (VPair h' t')
    | _ => raise EOther
    end.

  (* arrayutils.go:ConcatArray as the reference semantics has it (RefSem.v:cat_arrs) *)
  Fixpoint cat_arrs (acc : list value) (rest : list value) : M (list value) :=
    match rest with
    | [] => ret acc
    | VArr b :: r => o <- liftC (get_arr b) ;; cat_arrs (acc ++ a_elems o) r
    | _ => raise EOther
    end.

  (* listutils.go:ConcatLists as the reference semantics has it (RefSem.v:cat_lists) *)
  Fixpoint cat_lists (acc : list value) (rest : list value) : option (list value) :=
    match rest with
    | [] => Some acc
    | b :: r => match val_list b with Some lb => cat_lists (acc ++ lb) r | None => None end
    end.

  Definition prim_apply (p : prim) (args : list value) : M value :=
    match p with
    | PAdd => match args with a :: r => arith Z.add a r | [] => raise EOther end
    | PSub => match args with a :: r => arith Z.sub a r | [] => raise EOther end
    | PMul => match args with            (* functions.go:PointerOrNumericFunction *)
              | a :: b :: r => arith Z.mul a (b :: r)
              | [_] => raise EUnspec     (* one argument: pointer-to-type constructor *)
              | [] => raise EOther
              end
    | PLt => liftC (compare_prim (fun z => z <? 0) args)
    | PGt => liftC (compare_prim (fun z => z >? 0) args)
    | PLe => liftC (compare_prim (fun z => z <=? 0) args)
    | PGe => liftC (compare_prim (fun z => z >=? 0) args)
    | PEq => liftC (compare_prim (fun z => z =? 0) args)
    | PNe => liftC (compare_prim (fun z => negb (z =? 0)) args)
    | PNot => match args with [a] => ret (VBool (negb (truthy a))) | _ => raise EOther end
    | PCons => match args with [a; b] => ret (VPair a b) | _ => raise EOther end
    | PFirst =>
      match args with
      | [VPair h _] => ret h
      | [VArr a] => o <- liftC (get_arr a) ;; match a_elems o with v :: _ => ret v | [] => raise EOther end
      | _ => raise EOther
      end
    | PRest =>
      match args with
      | [VPair _ t] => ret t
      | [VNil] => ret VNil
      | [VArr _] => raise EUnspec      (* shares the backing slice of its argument *)
      | _ => raise EOther
      end
    | PList => ret (list_val args)
    | PArray => liftC (alloc_arr args None)
    | PAget =>
      match args with
      | VArr a :: VInt i :: r =>
        match r with
        | [] | [_] =>
          o <- liftC (get_arr a) ;;
          if (0 <=? i) && (i <? Z.of_nat (length (a_elems o)))
          then ret (nth (Z.to_nat i) (a_elems o) VNil)
          else match r with [dflt] => ret dflt | _ => raise EOther end
        | _ => raise EOther
        end
      | VArr _ :: _ :: r => match r with [] | [_] => raise EUnspec | _ => raise EOther end
      | _ => raise EOther
      end
    | PAset =>
      match args with
      | [VArr a; VInt i; v] =>
        o <- liftC (get_arr a) ;;
        if (0 <=? i) && (i <? Z.of_nat (length (a_elems o)))
        then liftC (aset_write a i v o)
        else raise EOther
      | [VArr _; VInt _] => raise EOther
      | [VArr _; _] | [VArr _; _; _] => raise EUnspec
      | _ => raise EOther
      end
    | PAppend =>
      match args with
      | [VArr a; v] => o <- liftC (get_arr a) ;; liftC (alloc_arr (a_elems o ++ [v]) (a_ty o))
      | [VStr _; _] => raise EUnspec
      | _ => raise EOther
      end
    | PLen =>
      match args with
      | [VNil] => ret (VInt 0)
      | [VArr a] => o <- liftC (get_arr a) ;; ret (VInt (Z.of_nat (length (a_elems o))))
      | [VStr s] => ret (VInt (Z.of_nat (length s)))
      | [VPair h t] => match val_list (VPair h t) with
                       | Some l => ret (VInt (Z.of_nat (length l)))
                       | None => raise EUnspec
                       end
      | [VSym _] => raise EUnspec
      | _ => raise EOther
      end
    | PMap =>
      match args with
      | [f; c] =>
        if is_fn f then
          match c with
          | VArr a => o <- liftC (get_arr a) ;; rt <- map_arr f (a_elems o) None ;;
                      liftC (alloc_arr (fst rt) (snd rt))
          | VPair _ _ => map_pairs f c
          | _ => raise EOther
          end
        else raise EOther
      | _ => raise EOther
      end
    | PApply =>
      match args with
      | [f; c] =>
        if is_fn f then
          match c with
          | VArr a => o <- liftC (get_arr a) ;; ap_values f (a_elems o)
          | VPair _ _ => match val_list c with Some l => ap_values f l | None => raise EOther end
          | _ => raise EOther
          end
        else raise EOther
      | _ => raise EOther
      end
    | PConcat =>                       (* functions.go:ConcatFunction, as in RefSem.v *)
      if existsb (fun v => match v with VSym _ => true | _ => false end) args then raise EUnspec
      else match args with
           | VArr a :: rest =>
             o <- liftC (get_arr a) ;;
             els <- cat_arrs (a_elems o) rest ;;
             liftC (alloc_arr els None)
           | VPair h t :: rest =>
             match rest with
             | [] => ret (VPair h t)               (* ConcatFunction: one list argument is returned as it is *)
             | _ :: _ =>
               match val_list (VPair h t) with
               | Some la => match cat_lists la rest with
                            | Some l => ret (list_val l)
                            | None => raise EOther
                            end
               | None => raise EOther
               end
             end
           | VStr _ :: _ => raise EUnspec
           | _ => raise EOther
           end
    | PTrace => liftC (trace_c args)
    | PFailK => liftC (failk_c args)
    | PForce =>                       (* functions.go:ForceFunction: a non-thunk is returned as it is *)
      match args with
      | [VThunk c] => force_cell c
      | [v] => ret v
      | _ => raise EOther
      end
    | PSubst =>
      match args with
      | [VThunk c] => subst_cell c
      | [v] => ret v
      | _ => raise EOther
      end
    end.

  (* parameters to bind, in the order the real code binds them
     (generator.go:buildSexpFun emits PopStackPutEnv for the last formal first);
     None = arity mismatch (environment.go:CallFunction / wrangleOptargs) *)
  Fixpoint zip_params (ps : list ident) (rest : option ident) (args : list value)
           (acc : list (ident * value)) : option (list (ident * value)) :=
    match ps, args with
    | [], _ => match rest with
               | Some r => Some ((r, list_val args) :: acc)
               | None => match args with [] => Some acc | _ => None end
               end
    | p :: ps', a :: args' => zip_params ps' rest args' ((p, a) :: acc)
    | _ :: _, [] => None
    end.
End Open.

Fixpoint eval (n : nat) (env : list nat) (e : expr) {struct n} : M value :=
  match n with
  | O => pure Fuel
  | S n' =>
    let ev := eval n' in
    let ap := apply n' in
    match e with
    | EInt z => ret (VInt z)
    | EBool b => ret (VBool b)
    | ENil => ret VNil
    | EStr s => ret (VStr s)
    | EQuote d => ret (datum_val d)
    | EVar x => liftC (lookup_var env x)
    | EArr es => vs <- ev_list ev env es ;; liftC (alloc_arr vs None)
    | ECall f args => call_expr ev ap env f args
    | EBegin es => ev_begin ev env es
    | ECond arms d => ev_cond ev env arms d
    | EAnd es => ev_and ev env es
    | EOr es => ev_or ev env es
    | EDef x e1 => v <- ev env e1 ;; _ <- liftC (bind (hd O env) x v) ;; ret v
    | ESet x e1 => v <- ev env e1 ;; liftC (set_var env x v)
    | ELet false bs body =>
      f <- liftC push_frame ;;
      vs <- ev_list ev (f :: env) (map snd bs) ;;
      _ <- liftC (bind_all f (rev (combine (map fst bs) vs))) ;;
      ev_begin ev (f :: env) body
    | ELet true bs body =>
      f <- liftC push_frame ;;
      _ <- ev_letseq ev f (f :: env) bs ;; ev_begin ev (f :: env) body
    | EScope es => f <- liftC push_frame ;; ev_begin ev (f :: env) es
    | EFor lbl init test step body =>
      f <- liftC push_frame ;;
      _ <- no_loop_sig EUnspec (ev (f :: env) init) ;;
      for_loop ev n' (f :: env) lbl test step body
    | EBreak l => pure (Sig (SBreak l))
    | ECont l => pure (Sig (SCont l))
    | EFn ps rest body => ret (VClos None ps rest body env)
    | EDefn name ps rest body =>
      _ <- liftC (bind (hd O env) name (VClos (Some name) ps rest body env)) ;; ret VNil
    end
  end

with apply (n : nat) (f : value) (args : list value) {struct n} : M value :=
  match n with
  | O => pure Fuel
  | S n' =>
    match f with
    | VClos _ ps rest body cenv =>
      match zip_params (map fst ps) rest args [] with
      | None => raise EOther
      | Some binds =>
        fid <- liftC push_frame ;;
        _ <- liftC (bind_all fid binds) ;;
        no_loop_sig ELoop (ev_begin (eval n') (fid :: cenv) body)
      end
    | VPrim p => prim_apply (eval n') (apply n') p args
    | _ => raise EOther
    end
  end.

(* ---- the global frame ---- *)

Definition all_prims : list prim :=
  [PAdd; PSub; PMul; PLt; PGt; PLe; PGe; PEq; PNe; PNot; PCons; PFirst; PRest; PList;
   PArray; PAget; PAset; PAppend; PLen; PMap; PApply; PTrace; PFailK; PConcat; PForce; PSubst].

Definition prim_ident (p : prim) : ident :=
  match p with
  | PAdd => 1 | PSub => 2 | PMul => 3 | PLt => 4 | PGt => 5 | PLe => 6 | PGe => 7 | PEq => 8
  | PNe => 9 | PNot => 10 | PCons => 11 | PFirst => 12 | PRest => 13 | PList => 14
  | PArray => 15 | PAget => 16 | PAset => 17 | PAppend => 18 | PLen => 19 | PMap => 20
  | PApply => 21 | PTrace => 22 | PFailK => 23 | PConcat => 24 | PForce => 25 | PSubst => 26
  end.

Definition global_frame : frame := map (fun p => (prim_ident p, VPrim p)) all_prims.

Definition init_store (failat : nat) : store :=
  mkStore (mkC [global_frame] [] [] O failat) [] [] (mkGhost [] [] false).

(* ---- programs: the forms of one text, generated as one unit, run in the global frame ---- *)

Record outcome := mkOutcome {
  o_res : res sval;            (* Done value | Sig (SErr class) | Fuel *)
  o_trace : list (list sval)   (* oldest first *)
}.

Definition finish (r : res value * store) : outcome :=
  let '(rv, s) := r in
  mkOutcome (match rv with
             | Done v => Done (snap snap_depth (arrays (core s)) v)
             | Sig (SErr e) => Sig (SErr e)
             | Sig _ => Sig (SErr ELoop)
             | Fuel => Fuel
             end) (rev (trace (core s))).

Definition eval_program_cfg (n : nat) (failat : nat) (forms : list expr) : outcome :=
  if forallb (cc []) forms
  then finish (ev_begin (eval n) [O] forms (init_store failat))
  else mkOutcome (Sig (SErr ELoop)) [].

Definition eval_program (n : nat) (forms : list expr) : outcome := eval_program_cfg n O forms.

(* ------------------------------------------------------------------ 9. the self tail call route *)

(* generator.go:GenerateCallBySymbol (selfTail) -> GenerateCallArgsForFunction + vm.go:PushLazyArgInstr.
   A call of the function's own name in tail position is not a CallExprInstr: the decision per
   argument position is made when the ENCLOSING function is generated, from the function
   LookupKnownFunction finds under the name (`known`):
     lazy   -> PushLazyArgInstr{expr}; executing it is NewSourceLazyArg(env, expr): a new cell
               with the expression and the static chain at the jump.  An argument that is itself
               a lazy formal, (f #x ..), is the SYMBOL #x wrapped again; the thunk #x holds is not
               passed through;
     strict -> the code of the expression inline, as part of the enclosing unit (no compile
               unit of its own: strict_cc is what generating the enclosing function checked);
   then RemoveScope.., PrepareCallInstr, Goto 0: the body of the function being run (`self`)
   is entered again with the prepared values.  The jump is taken only when the number of
   arguments fits `known` (tail_arity_ok), else an ordinary CallExprInstr is emitted. *)
Fixpoint tail_prep_args (ev : list nat -> expr -> M value) (env : list nat) (flags : list bool)
         (es : list expr) : M (list value) :=
  match es with
  | [] => ret []
  | e :: r => v <- (if hd false flags then new_thunk (TSrc e env) None else ev env e) ;;
              vs <- tail_prep_args ev env (tl flags) r ;; ret (v :: vs)
  end.

Fixpoint strict_cc (flags : list bool) (es : list expr) : bool :=
  match es with
  | [] => true
  | e :: r => (hd false flags || cc [] e) && strict_cc (tl flags) r
  end.

Definition tail_arity_ok (f : value) (nargs : nat) : bool :=
  match f with
  | VClos _ ps None _ _ => Nat.eqb nargs (length ps)
  | VClos _ ps (Some _) _ _ => Nat.leb (length ps) nargs
  | _ => false
  end.

Definition self_tail_call (ev : list nat -> expr -> M value) (ap : value -> list value -> M value)
           (env : list nat) (known self : value) (args : list expr) : M value :=
  vs <- tail_prep_args ev env (lazy_flags known) args ;; ap self vs.

(* k nested forces, (force (force .. v)) *)
Fixpoint force_n (n k : nat) (v : value) : M value :=
  match k with
  | O => ret v
  | S k' => w <- apply n (VPrim PForce) [v] ;; force_n n k' w
  end.


Definition call_by_symbol (ev : list nat -> expr -> M value) (ap : value -> list value -> M value)
           (env : list nat) (x : ident) (known self : value) (args : list expr) : M value :=
  if tail_arity_ok known (length args) then self_tail_call ev ap env known self args
  else call_expr ev ap env (EVar x) args.
