(* Regular expressions over runes (Z) and a Brzozowski-derivative matcher.
   The terms are produced by translator/cmd/lexregex from the regexes of zygo/lexer.go
   (regexp/syntax parse trees, Perl flags): character classes are lists of inclusive rune
   ranges, Bol / Eol are the anchors \A and \z (Go's ^ and $ without the m flag).
   Executable definitions only. *)
From Coq Require Import ZArith List Bool.
Import ListNotations.
Open Scope Z_scope.

Inductive re : Type :=
| Empty                       (* matches nothing *)
| Eps                         (* matches the empty string *)
| Cls (ranges : list (Z * Z)) (* one rune in one of the inclusive ranges *)
| Cat (r s : re)
| Alt (r s : re)
| Star (r : re)
| Bol                         (* empty string at the beginning of the text *)
| Eol.                        (* empty string at the end of the text *)

Fixpoint in_cls (c : Z) (rs : list (Z * Z)) : bool :=
  match rs with
  | [] => false
  | (lo, hi) :: rest => ((lo <=? c) && (c <=? hi)) || in_cls c rest
  end.

Fixpoint ranges_eqb (a b : list (Z * Z)) : bool :=
  match a, b with
  | [], [] => true
  | (x1, y1) :: a', (x2, y2) :: b' => (x1 =? x2) && (y1 =? y2) && ranges_eqb a' b'
  | _, _ => false
  end.

Fixpoint re_eqb (a b : re) : bool :=
  match a, b with
  | Empty, Empty => true
  | Eps, Eps => true
  | Cls x, Cls y => ranges_eqb x y
  | Cat a1 a2, Cat b1 b2 => re_eqb a1 b1 && re_eqb a2 b2
  | Alt a1 a2, Alt b1 b2 => re_eqb a1 b1 && re_eqb a2 b2
  | Star a1, Star b1 => re_eqb a1 b1
  | Bol, Bol => true
  | Eol, Eol => true
  | _, _ => false
  end.

(* smart constructors: keep derivatives small (no change of the language) *)
Definition cat (r s : re) : re :=
  match r, s with
  | Empty, _ => Empty
  | _, Empty => Empty
  | Eps, _ => s
  | _, Eps => r
  | _, _ => Cat r s
  end.

Definition alt (r s : re) : re :=
  match r, s with
  | Empty, _ => s
  | _, Empty => r
  | _, _ => if re_eqb r s then r else Alt r s
  end.

(* first = no rune has been consumed yet (Bol can still match) *)
Fixpoint nullable (first : bool) (r : re) : bool :=
  match r with
  | Empty => false
  | Eps => true
  | Cls _ => false
  | Cat a b => nullable first a && nullable first b
  | Alt a b => nullable first a || nullable first b
  | Star _ => true
  | Bol => first
  | Eol => true     (* asked only at the end of the text *)
  end.

(* nullable when more input follows: Eol does not match *)
Fixpoint nullable_mid (first : bool) (r : re) : bool :=
  match r with
  | Empty => false
  | Eps => true
  | Cls _ => false
  | Cat a b => nullable_mid first a && nullable_mid first b
  | Alt a b => nullable_mid first a || nullable_mid first b
  | Star _ => true
  | Bol => first
  | Eol => false
  end.

Fixpoint deriv (first : bool) (c : Z) (r : re) : re :=
  match r with
  | Empty | Eps | Bol | Eol => Empty
  | Cls rs => if in_cls c rs then Eps else Empty
  | Cat a b =>
      let d1 := cat (deriv first c a) b in
      if nullable_mid first a then alt d1 (deriv first c b) else d1
  | Alt a b => alt (deriv first c a) (deriv first c b)
  | Star a => cat (deriv first c a) (Star a)
  end.

Fixpoint matches_from (first : bool) (r : re) (s : list Z) : bool :=
  match s with
  | [] => nullable first r
  | c :: s' => matches_from false (deriv first c r) s'
  end.

(* regexp.MatchString for a pattern whose alternatives are all anchored at both ends:
   the whole string must match *)
Definition re_match (r : re) (s : list Z) : bool := matches_from true r s.
