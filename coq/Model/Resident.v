(* C04 — everything a text can leave in the interpreter, not only the four VM stacks.

   The interpreter-resident structures an EvalString(text) touches, and the Go code that touches them:

     data / scope / address stack     vm.go Execute methods (Model/Bytecode.v, Model/Verifier.v),
                                      environment.go:Run (result popped; on an error restoreControlState
                                      to the sizes captured at entry), stack.go:TruncateToSize
     env.loopstack (loop records)     generator.go:GenerateForLoop  (Push .. defer Pop),
                                      GenerateBreak / GenerateContinue (look the loop up, reject if none)
     env.pc versus len(mainfunc.fun)  environment.go:LoadExpressions (append the chunk), Run (runs to the
                                      end; on an error pc := functionSize(curfunc))
     parser / lexer                   parser.go:ResetAddNewInput (drops the suspended parsing coroutine,
                                      lexer.Reset), ParseTokens (a failed parse leaves the coroutine
                                      suspended and the lexer wherever it was)

   [compile] mirrors the recursion of the generator as far as env.loopstack and rejection are concerned;
   [exec_fate] is the executable summary of one EvalString on the resident state (run by bin/check against
   the real interpreter after EVERY evaluation of generated histories, failed ones included);
   [eval_text] is the detailed relation (the real chunk, run by the abstract machine of Verifier.v).
   Proofs/ResidentProofs.v: eval_text refines exec_fate, and the history theorems.
   Executable definitions only. *)
From Coq Require Import List ZArith Bool Arith.
Require Import ZV.Model.Bytecode ZV.Model.Verifier.
Import ListNotations.

(* ---------- compile time: the loop stack ---------- *)

(* generator.go: Loop{label, scopeDepth} *)
Record looprec := mkLoop { l_label : option Z; l_depth : nat }.

(* the shape of a text as the generator walks it *)
Inductive ctree :=
| TLeaf (ok : bool)                        (* a form without for / break / continue inside: compiles or is rejected *)
| TNode (subs : list ctree)                (* a form that compiles its sub-forms in turn (begin, let, cond, and, or, call arguments ..) *)
| TFor (lbl : option Z) (subs : list ctree)(* GenerateForLoop: body forms, then init, test, increment *)
| TJump (lbl : option Z).                  (* GenerateBreak / GenerateContinue *)

(* the loop a (break) / (break lbl:) addresses: any loop without a label, else the label must match *)
Definition lbl_hits (want : option Z) (r : looprec) : bool :=
  match want with
  | None => true
  | Some w => match l_label r with Some l => Z.eqb w l | None => false end
  end.

(* (accepted?, loop stack afterwards).  A failing sub-form stops the walk (the Go functions return err). *)
Fixpoint compile (t : ctree) (ls : list looprec) {struct t} : bool * list looprec :=
  let fix compile_list (l : list ctree) (ls : list looprec) {struct l} : bool * list looprec :=
    match l with
    | [] => (true, ls)
    | t :: r => let (ok, ls1) := compile t ls in if ok then compile_list r ls1 else (false, ls1)
    end in
  match t with
  | TLeaf ok => (ok, ls)
  | TNode subs => compile_list subs ls
  | TFor lbl subs =>
    (* gen.env.loopstack.Push(loop); defer gen.env.loopstack.Pop(): popped on EVERY way out *)
    let (ok, ls1) := compile_list subs (mkLoop lbl (length ls) :: ls) in (ok, tl ls1)
  | TJump lbl =>
    (* loopstack.IsEmpty() -> error; scan from the innermost loop; label not found -> error *)
    (existsb (lbl_hits lbl) ls, ls)
  end.

Fixpoint compile_list (l : list ctree) (ls : list looprec) : bool * list looprec :=
  match l with
  | [] => (true, ls)
  | t :: r => let (ok, ls1) := compile t ls in if ok then compile_list r ls1 else (false, ls1)
  end.

(* ---------- the parser ---------- *)

Record pstate := mkP {
  p_live : bool;      (* parser.next != nil: a parsing coroutine is suspended inside the parser *)
  p_lex : nat;        (* lexer.state (0 = LexerNormal) *)
  p_queued : nat;     (* len(lexer.tokens) *)
  p_recur : nat;      (* parser.recur: nesting depth of the suspended parse *)
  p_exprs : nat       (* len(parser.sendMe.Expr): the forms of the last text *)
}.

(* parser.go:ResetAddNewInput + lexer.go:Reset *)
Definition p_reset (p : pstate) : pstate := mkP false 0 0 0 0.
(* ParseTokens that delivers n forms: the coroutine has finished, the lexer is drained *)
Definition p_parsed (n : nat) (p : pstate) : pstate := mkP false 0 0 0 n.

Definition p_idle (p : pstate) : bool :=
  negb (p_live p) && Nat.eqb (p_lex p) 0 && Nat.eqb (p_queued p) 0 && Nat.eqb (p_recur p) 0.

(* ---------- the resident state ---------- *)

Record istate := mkI {
  i_data : list item;          (* env.datastack *)
  i_sc : nat;                  (* env.linearstack.Size() *)
  i_ad : nat;                  (* env.addrstack.Size() *)
  i_loops : list looprec;      (* env.loopstack *)
  i_pend : nat;                (* len(mainfunc.fun) - pc: loaded but not yet executed *)
  i_par : pstate
}.

Definition cs_of (s : istate) : cstate := mkc 0 (i_data s) (i_sc s) (i_ad s) (length (i_loops s)).

(* a new interpreter *)
Definition i_new : istate := mkI [] 1 0 [] 0 (mkP false 0 0 0 0).

(* the four stacks at rest, no loop record, nothing pending: holds after EVERY evaluation, failed or not *)
Definition quiet (s : istate) : bool :=
  match i_data s with [] => true | _ => false end && Nat.eqb (i_sc s) 1 && Nat.eqb (i_ad s) 0 &&
  match i_loops s with [] => true | _ => false end && Nat.eqb (i_pend s) 0.

(* at rest: quiet, and the parser holds no suspended parse, no token, no unfinished atom *)
Definition at_rest_all (s : istate) : bool := quiet s && p_idle (i_par s).

(* stack.go:TruncateToSize n (shorter stacks are padded with empty slots) *)
Definition resize (n : nat) (l : list item) : list item :=
  if length l <? n then rep (n - length l) Val ++ l else skipn (length l - n) l.

(* what EvalString(text) does; the data of each case is what decides the resident state *)
Inductive fclass :=
| KParse (residue : pstate)        (* ParseTokens fails and leaves the parser in this state *)
| KCompile (n : nat) (t : ctree)   (* n forms parsed; GenerateBegin rejects the text *)
| KRunErr (n : nat) (t : ctree) (fd : list item)
                                   (* compiled and appended; an instruction fails with this data stack *)
| KOk (n : nat) (t : ctree).       (* a value is returned *)

Definition set_par (s : istate) (p : pstate) : istate :=
  mkI (i_data s) (i_sc s) (i_ad s) (i_loops s) (i_pend s) p.
Definition set_loops (s : istate) (ls : list looprec) : istate :=
  mkI (i_data s) (i_sc s) (i_ad s) ls (i_pend s) (i_par s).

(* executable summary of one EvalString on the resident state; None = this fate is impossible for
   this text (the generator accepts / rejects it, contrary to the class) *)
Definition exec_fate (k : fclass) (s : istate) : option istate :=
  match k with
  | KParse res => Some (set_par s res)
  | KCompile n t =>
    let (ok, ls) := compile t (i_loops s) in
    if ok then None else Some (set_loops (set_par s (p_parsed n (p_reset (i_par s)))) ls)
  | KRunErr n t fd =>
    let (ok, ls) := compile t (i_loops s) in
    if ok then
      (* Run: captureControlState at entry; restoreControlState (every stack truncated to the size
         captured at entry); pc := functionSize(curfunc) *)
      Some (mkI (resize (length (i_data s)) fd) (i_sc s) (i_ad s) ls 0 (p_parsed n (p_reset (i_par s))))
    else None
  | KOk n t =>
    let (ok, ls) := compile t (i_loops s) in
    if ok then
      (* summary of Run on a verified chunk (ResidentProofs.eval_text_refines): stacks as before *)
      Some (mkI (i_data s) (i_sc s) (i_ad s) ls 0 (p_parsed n (p_reset (i_par s))))
    else None
  end.

Fixpoint exec_history (ks : list fclass) (s : istate) : option istate :=
  match ks with
  | [] => Some s
  | k :: r => match exec_fate k s with Some s1 => exec_history r s1 | None => None end
  end.

(* the observables of the correspondence run *)
Definition obs_of (s : istate) : (nat * nat * nat * nat) * nat * (bool * nat * nat * nat * nat) :=
  ((length (i_data s), i_sc s, i_ad s, length (i_loops s)), i_pend s,
   (p_live (i_par s), p_lex (i_par s), p_queued (i_par s), p_recur (i_par s), p_exprs (i_par s))).
