(* C08: capability semantics of a sandboxed interpreter over the GENERATED tables
   (Generated/SandboxTables.v, written by translator/cmd/sandbox from the Go source).

   A script can reach a Go primitive only through
     (1) global lookup of a bound name      (environment.go NewZlispWithFuncs / AddFunction / AddBuilder,
                                             vm.go CallInstr: env.builtins, then the scopes),
     (2) a special form                     (generator.go GenerateCallBySymbol: switch sym.name; GenerateCall),
     (3) a function value it already holds  (vm.go DispatchInstr / CallExprInstr),
     (4) eval / apply / map / macro expansion of such (generator.go: gen.env.macros; EvalFunction),
   plus the function values the VM itself holds (sxSliceOf, baseTypeCtor, struct constructors) and
   the VM / compiler core that runs any program at all.

   Executable definitions only; the proofs are in Proofs/SandboxProofs.v. *)
From Coq Require Import String List Bool.
Require Import ZV.Generated.SandboxTables.
Import ListNotations.
Open Scope string_scope.
Open Scope list_scope.

Inductive cfg := Bare | Std | Bin | Full.

(* An interpreter as the capability semantics sees it: the value of its sandbox flag (environment.go
   Zlisp.sandboxed), what its binding tables hold (global scope, env.builtins, env.macros with Go functions)
   and its script-text macros.  The four fixed configurations are instances (ctx_of, a coercion); the
   interpreter FAMILY of Model/Family.v (Duplicate, Clone, StandardSetup, ReplMain ...) produces others. *)
Record ctx := { cflag : bool; cbind : list (string * bkind * string); cmac : list (string * list string) }.

(* Full (NewZlisp + StandardSetup) is the unrestricted control configuration, not a sandbox. *)
Definition ctx_of (c : cfg) : ctx :=
  match c with
  | Bare => {| cflag := true; cbind := bindings_bare; cmac := script_macros_bare |}
  | Std => {| cflag := true; cbind := bindings_std; cmac := script_macros_std |}
  | Bin => {| cflag := true; cbind := bindings_bin; cmac := script_macros_bin |}
  | Full => {| cflag := false; cbind := bindings_full; cmac := script_macros_full |}
  end.
Coercion ctx_of : cfg >-> ctx.

Definition sandboxed (c : ctx) : bool := cflag c.

Definition bindings (c : ctx) : list (string * bkind * string) := cbind c.

Definition script_macros (c : ctx) : list (string * list string) := cmac c.

Definition cfg_name (c : cfg) : string :=
  match c with Bare => "bare" | Std => "std" | Bin => "bin" | Full => "full" end.

Definition is_value (k : bkind) : bool := match k with KValue => true | _ => false end.

Definition effect_eqb (a b : effect) : bool :=
  match a, b with
  | Efileread, Efileread | Efilewrite, Efilewrite | Eprocess, Eprocess | Eenvread, Eenvread
  | Eenvwrite, Eenvwrite | Eexit, Eexit | Enet, Enet | Echdir, Echdir | Estdinread, Estdinread
  | Eterminal, Eterminal | Eunknown, Eunknown => true
  | _, _ => false
  end.

Fixpoint assoc {A : Type} (k : string) (l : list (string * A)) : option A :=
  match l with
  | [] => None
  | (k', v) :: r => if String.eqb k k' then Some v else assoc k r
  end.

(* A Go function identifier without an entry in the effect table is NOT assumed pure.
   Sandboxed configurations use the table in which functions that start with a guard on the
   interpreter's sandbox flag are cut (identical to fn_effects while the source has no such flag). *)
Definition effect_of (c : ctx) (f : string) : list effect :=
  match assoc f (if sandboxed c then fn_effects_sandboxed else fn_effects) with Some e => e | None => [Eunknown] end.

Definition effects_of (c : ctx) (fs : list string) : list effect := flat_map (effect_of c) fs.

Definition pure (c : ctx) (f : string) : bool := match effect_of c f with [] => true | _ => false end.

(* Go functions behind the non-value bindings of a configuration *)
Definition prim_fns (bs : list (string * bkind * string)) : list string :=
  flat_map (fun b => match b with (_, k, f) => if is_value k then [] else [f] end) bs.

Definition fns_named (n : string) (bs : list (string * bkind * string)) : list string :=
  flat_map (fun b => match b with (n', k, f) => if andb (String.eqb n n') (negb (is_value k)) then [f] else [] end) bs.

Definition specials_named (n : string) : list string :=
  flat_map (fun s => if String.eqb n (fst s) then [snd s] else []) special_forms.

Definition implicit_fns : list string := prim_fns implicit_prims.

(* Everything the text of a script can name in configuration c resolves through this function:
   bound names (global scope and builtins table), special forms, Go macros (bound with KGoMacro),
   and script-text macros, whose expansion can only mention the names listed by the translator. *)
Fixpoint resolve (c : ctx) (fuel : nat) (n : string) : list string :=
  fns_named n (bindings c) ++ specials_named n ++
  match fuel with
  | O => []
  | S fuel' =>
      match assoc n (script_macros c) with
      | Some mentions => flat_map (resolve c fuel') mentions
      | None => []
      end
  end.

Definition macro_fuel (c : ctx) : nat := S (length (script_macros c)).

(* The closure: every primitive a script could possibly reach in configuration c. *)
Definition closure (c : ctx) : list string :=
  prim_fns (bindings c) ++ map snd special_forms ++ implicit_fns ++ vm_core.

(* ---- abstract programs ---- *)
Inductive prog :=
| PConst                                   (* literal data *)
| PRef (n : string)                        (* reference to a name: global lookup or alias *)
| PCall (f : prog) (args : list prog)      (* call of a held value (direct, apply, map, dot call ...) *)
| PSpecial (n : string) (args : list prog) (* special form use *)
| PMacro (n : string) (args : list prog)   (* macro use *)
| PDef (n : string) (e : prog)             (* alias definition: def / let / defn / defmac binding *)
| PSeq (es : list prog)
| PEval (e : prog).                        (* eval of a program built as data *)

(* alias environment: name -> primitives the value may hold *)
Definition aenv := list (string * list string).

Definition lookup_alias (n : string) (env : aenv) : list string :=
  flat_map (fun a => if String.eqb n (fst a) then snd a else []) env.

(* result: new alias environment, primitives held by the value, primitives reached *)
Definition res := (aenv * list string * list string)%type.

Definition run_list (f : aenv -> prog -> res) : aenv -> list prog -> res :=
  fix go (env : aenv) (l : list prog) : res :=
    match l with
    | [] => (env, [], [])
    | x :: xs =>
        match f env x with
        | (e1, h1, r1) =>
            match go e1 xs with
            | (e2, h2, r2) => (e2, h1 ++ h2, r1 ++ r2)
            end
        end
    end.

Fixpoint run (c : ctx) (env : aenv) (p : prog) : res :=
  match p with
  | PConst => (env, [], [])
  | PRef n => (env, lookup_alias n env ++ resolve c (macro_fuel c) n, [])
  | PCall f args =>
      match run c env f with
      | (e1, hf, rf) =>
          match run_list (run c) e1 args with
          | (e2, ha, ra) =>
              (* the callee's primitives run; function values among the arguments may be called by
                 them (apply, map, ->, timeit ...); calling a non-function value goes through the
                 function values the VM holds; the result may hold anything that went in *)
              (e2, hf ++ ha, rf ++ ra ++ hf ++ ha ++ implicit_fns)
          end
      end
  | PSpecial n args | PMacro n args =>
      match run_list (run c) env args with
      | (e2, ha, ra) =>
          let r := resolve c (macro_fuel c) n in
          (e2, ha ++ r, ra ++ r ++ ha)
      end
  | PDef n e =>
      match run c env e with
      | (e1, h, r) => ((n, h) :: e1, h, r)
      end
  | PSeq es => run_list (run c) env es
  | PEval e =>
      match run c env e with
      | (e1, h, r) => (e1, h, r ++ h ++ resolve c (macro_fuel c) "eval")
      end
  end.

Definition prims_reached (c : ctx) (p : prog) : list string :=
  match run c [] p with (_, _, r) => r ++ vm_core end.

Definition run_abs := prims_reached.

(* ---- purity of the tables ---- *)

Definition binding_pure (c : ctx) (b : string * bkind * string) : bool :=
  match b with (_, k, f) => orb (is_value k) (pure c f) end.

Definition special_pure (c : ctx) (s : string * string) : bool := pure c (snd s).

(* every primitive of the closure of configuration c is effect-free *)
Definition tables_ok (c : ctx) : bool :=
  andb (forallb (binding_pure c) (bindings c))
       (andb (forallb (special_pure c) special_forms)
             (andb (forallb (binding_pure c) implicit_prims) (forallb (pure c) vm_core))).

(* the impure entries, as (table, script name, Go function) -- what the check reports *)
Definition impure_entries (c : ctx) : list (string * string * string) :=
  flat_map (fun b => match b with (n, k, f) => if orb (is_value k) (pure c f) then [] else [("binding", n, f)] end) (bindings c) ++
  flat_map (fun s => if pure c (snd s) then [] else [("special", fst s, snd s)]) special_forms ++
  flat_map (fun b => match b with (n, k, f) => if pure c f then [] else [("implicit", n, f)] end) implicit_prims ++
  flat_map (fun f => if pure c f then [] else [("vm", f, f)]) vm_core.

(* ---- decoding of the harness's abstract program text (used by the model runner only) ---- *)
Definition effect_name (e : effect) : string :=
  match e with
  | Efileread => "file_read" | Efilewrite => "file_write" | Eprocess => "process" | Eenvread => "env_read"
  | Eenvwrite => "env_write" | Eexit => "exit" | Enet => "net" | Echdir => "chdir" | Estdinread => "stdin_read"
  | Eterminal => "terminal" | Eunknown => "unknown"
  end.

Definition all_effects : list effect :=
  [Echdir; Eenvread; Eenvwrite; Eexit; Efileread; Efilewrite; Enet; Eprocess; Estdinread; Eterminal; Eunknown].

(* the effect classes of a run, without duplicates, in a fixed order *)
Definition effect_set (c : ctx) (fs : list string) : list effect :=
  let es := effects_of c fs in filter (fun e => existsb (effect_eqb e) es) all_effects.

Definition predicted_effects (c : ctx) (p : prog) : list string :=
  map effect_name (effect_set c (run_abs c p)).
