(* ScopeImpl: the REAL scope mechanism of zygomys as an abstract machine.

   Mirrors (names of the Go functions in comments):
     scopes.go      Scope{Map, IsFunction, MyFunction}, Stack.LookupSymbolUntilFunction, Stack.BindSymbol
     environment.go Zlisp.linearstack (live scope stack), Zlisp.curfunc, LexicalLookupSymbol,
                    LexicalBindSymbol, EvalCallExpression (the callExprEval pseudo function), CallFunction,
                    ReturnFromFunction
     closing.go     NewClosing (snapshot of the live stack, trimmed at the innermost function scope)
     expressions.go SexpFunction{closingOverScopes, parent}, LookupSymbolInParentChainOfClosures,
                    ClosingLookupSymbolUntilFunc
     vm.go          AddScopeInstr, AddFuncScopeInstr, RemoveScopeInstr, CreateClosureInstr (copy + parent)

   State = live scope stack (scope id + function-boundary flag, top first), the current function
   (its captured stack and its parent function), the saved current functions of the callers.
   The CONTENTS of the scopes are the frames of the RefSem store (scope id = frame id), so that the
   staged lookup of the real code can be compared with RefSem.lookup_chain on a static chain.

   Modelling assumption checked by the C03 harness on every run: the function object stored in a
   function scope (Scope.MyFunction, the template SexpFunction of buildSexpFun) never has captured
   scopes, so the third stage of LexicalLookupSymbol (LookupSymbolUntilFunction with checkCaptures)
   finds nothing and is omitted here.
   Executable definitions only; proofs in Proofs/ScopeImplProofs.v. *)
From Coq Require Import ZArith Bool List.
Require Import ZV.Model.Num ZV.Model.RefSem.
Import ListNotations.
Open Scope Z_scope.

Record scope := mkScope { sc_id : nat; sc_fun : bool }.      (* Scope: identity, IsFunction *)

(* SexpFunction as far as lookup is concerned: captured stack (top first; None = nil) and parent *)
Inductive fn :=
| FMain                                                     (* env.mainfunc: no captures, no parent *)
| FSub (closing : option (list scope)) (parent : fn).       (* a closure instance, or a callExprEval function *)

Record istate := mkI {
  live : list scope;      (* env.linearstack, top first *)
  cur : fn;               (* env.curfunc *)
  saved : list fn         (* env.addrstack: the callers' curfunc *)
}.

(* the scopes Stack.LookupSymbolUntilFunction(sym, setVal, 1, false) visits: from the top down to and
   including the first function scope (the whole stack when there is none) *)
Fixpoint until_fun (l : list scope) : list scope :=
  match l with
  | [] => []
  | s :: r => if sc_fun s then [s] else s :: until_fun r
  end.

(* what is below the innermost function scope *)
Fixpoint after_fun (l : list scope) : list scope :=
  match l with
  | [] => []
  | s :: r => if sc_fun s then r else after_fun r
  end.

(* closing.go:NewClosing: clone the live stack; when it contains a function scope keep only the part
   from the innermost function scope up to the top *)
Definition new_closing (l : list scope) : list scope :=
  if existsb sc_fun l then until_fun l else l.

(* scopes.go:Stack.LookupSymbolUntilFunction(sym, nil, 1, false) over the frames fs of the store *)
Fixpoint scan_until_fun (fs : list frame) (l : list scope) (x : ident) : option (nat * value) :=
  match l with
  | [] => None
  | s :: r =>
    match (match nth_error fs (sc_id s) with Some fr => assoc x fr | None => None end) with
    | Some v => Some (sc_id s, v)
    | None => if sc_fun s then None else scan_until_fun fs r x
    end
  end.

(* expressions.go:ClosingLookupSymbolUntilFunc *)
Definition closing_lookup (fs : list frame) (cl : option (list scope)) (x : ident) : option (nat * value) :=
  match cl with Some l => scan_until_fun fs l x | None => None end.

(* expressions.go:LookupSymbolInParentChainOfClosures:
     cur := f; par := f.parent; for par != nil { try cur's captured stack; cur = par; par = par.parent } *)
Fixpoint look_parents (fs : list frame) (f : fn) (x : ident) : option (nat * value) :=
  match f with
  | FMain => None
  | FSub cl par =>
    match closing_lookup fs cl x with
    | Some r => Some r
    | None => look_parents fs par x
    end
  end.

(* environment.go:LexicalLookupSymbol *)
Definition impl_lookup (fs : list frame) (st : istate) (x : ident) : option (nat * value) :=
  match scan_until_fun fs (live st) x with
  | Some r => Some r                              (* stage 1: live scopes up to one function boundary *)
  | None =>
    match cur st with
    | FMain => closing_lookup fs None x           (* parent == nil: own captures (mainfunc has none) *)
    | f => look_parents fs f x                    (* stage 2: captured stacks along the parent chain *)
    end
  end.

(* environment.go:LexicalBindSymbol -> Stack.BindSymbol: the top scope of the live stack *)
Definition bind_target (st : istate) : nat := sc_id (hd (mkScope O false) (live st)).

(* vm.go:UpdateInstr: where the name is found, else the top scope *)
Definition set_target (fs : list frame) (st : istate) (x : ident) : nat :=
  match impl_lookup fs st x with Some (f, _) => f | None => bind_target st end.

(* ---- transitions ---- *)

Definition add_scope (id : nat) (st : istate) : istate :=            (* AddScopeInstr *)
  mkI (mkScope id false :: live st) (cur st) (saved st).
Definition add_func_scope (id : nat) (st : istate) : istate :=       (* AddFuncScopeInstr *)
  mkI (mkScope id true :: live st) (cur st) (saved st).
Definition remove_scope (st : istate) : istate :=                    (* RemoveScopeInstr / PopScope *)
  mkI (tl (live st)) (cur st) (saved st).
Fixpoint pop_scopes (k : nat) (st : istate) : istate :=              (* BreakInstr / ContinueInstr scopesToPop *)
  match k with O => st | S k' => pop_scopes k' (remove_scope st) end.

(* vm.go:CreateClosureInstr: the new function value (a copy of the template with captures and parent) *)
Definition create_closure (st : istate) : fn := FSub (Some (new_closing (live st))) (cur st).

(* environment.go:CallFunction (curfunc := callee, the caller's is pushed on the address stack) *)
Definition enter_fn (f : fn) (st : istate) : istate := mkI (live st) f (cur st :: saved st).
(* environment.go:ReturnFromFunction *)
Definition leave_fn (st : istate) : istate :=
  match saved st with c :: r => mkI (live st) c r | [] => st end.
(* environment.go:EvalCallExpression: a fresh function "callExprEval" without captures, parent = curfunc *)
Definition enter_arg (st : istate) : istate := enter_fn (FSub None (cur st)) st.

Definition init_istate : istate := mkI [mkScope O false] FMain [].   (* the global scope, mainfunc *)

(* the sequence of scopes LexicalLookupSymbol consults, in order *)
Definition seg (cl : option (list scope)) : list scope :=
  match cl with Some l => until_fun l | None => [] end.
Fixpoint pchain (f : fn) : list scope :=
  match f with FMain => [] | FSub cl par => seg cl ++ pchain par end.
Definition impl_chain (st : istate) : list scope := until_fun (live st) ++ pchain (cur st).

(* ================================================================================================
   The faithful layer.  Three facts of the Go code that the core machine above leaves out (they add
   only scopes that are consulted AFTER the ones that decide; Proofs/ScopeImplProofs.v shows they
   never change the result):
     * functions.go:MakeFunction snapshots the live stack for EVERY function it makes: mainfunc
       captures [global]; a callExprEval function captures the live stack of the moment the argument
       is evaluated; the template function of a fn/defn form captures the live stack of the moment the
       form is compiled;
     * LexicalLookupSymbol consults the current function's own captures when it has no parent
       (mainfunc), and the captures of every function of the parent chain, callExprEval ones included;
     * its third stage consults the captures of the TEMPLATE function stored in the innermost live
       function scope (Scope.MyFunction), scanning that whole captured stack.
   ================================================================================================ *)

Record scopeF := mkScopeF { sf_id : nat; sf_fun : bool; sf_tmpl : list nat }.
   (* sf_tmpl: ids of the captured stack of Scope.MyFunction (function scopes), top first *)

Inductive fnF :=
| GMain (closing : list scopeF)                                   (* mainfunc *)
| GSub (pseudo : bool) (closing : option (list scopeF)) (parent : fnF).
   (* pseudo = true: a callExprEval function (ghost tag; the Go code tells them apart by nothing) *)

Record istateF := mkIF { liveF : list scopeF; curF : fnF; savedF : list fnF }.

Fixpoint until_funF (l : list scopeF) : list scopeF :=
  match l with
  | [] => []
  | s :: r => if sf_fun s then [s] else s :: until_funF r
  end.

Definition new_closingF (l : list scopeF) : list scopeF :=
  if existsb sf_fun l then until_funF l else l.

Definition frame_lookup (fs : list frame) (id : nat) (x : ident) : option (nat * value) :=
  match nth_error fs id with
  | Some fr => match assoc x fr with Some v => Some (id, v) | None => None end
  | None => None
  end.

(* Stack.LookupSymbolUntilFunction(sym, nil, 1, false) *)
Fixpoint scan_until_funF (fs : list frame) (l : list scopeF) (x : ident) : option (nat * value) :=
  match l with
  | [] => None
  | s :: r =>
    match frame_lookup fs (sf_id s) x with
    | Some r1 => Some r1
    | None => if sf_fun s then None else scan_until_funF fs r x
    end
  end.

(* Stack.LookupSymbol over a captured stack given by ids (stage 3) *)
Fixpoint scan_ids (fs : list frame) (ids : list nat) (x : ident) : option (nat * value) :=
  match ids with
  | [] => None
  | i :: r => match frame_lookup fs i x with Some r1 => Some r1 | None => scan_ids fs r x end
  end.

Definition closing_lookupF (fs : list frame) (cl : option (list scopeF)) (x : ident) : option (nat * value) :=
  match cl with Some l => scan_until_funF fs l x | None => None end.

Fixpoint look_parentsF (fs : list frame) (f : fnF) (x : ident) : option (nat * value) :=
  match f with
  | GMain _ => None                                    (* the loop stops before the function without parent *)
  | GSub _ cl par =>
    match closing_lookupF fs cl x with
    | Some r => Some r
    | None => look_parentsF fs par x
    end
  end.

(* stage 3: LookupSymbolUntilFunction(sym, nil, 1, true) after stages 1 and 2 failed: the captures of
   the template function of the innermost live function scope *)
Fixpoint stage3 (fs : list frame) (l : list scopeF) (x : ident) : option (nat * value) :=
  match l with
  | [] => None
  | s :: r => if sf_fun s then scan_ids fs (sf_tmpl s) x else stage3 fs r x
  end.

(* environment.go:LexicalLookupSymbol, all three stages *)
Definition impl_lookupF (fs : list frame) (st : istateF) (x : ident) : option (nat * value) :=
  match scan_until_funF fs (liveF st) x with
  | Some r => Some r
  | None =>
    match (match curF st with
           | GMain cl => closing_lookupF fs (Some cl) x
           | f => look_parentsF fs f x
           end) with
    | Some r => Some r
    | None => stage3 fs (liveF st) x
    end
  end.

Definition add_scopeF (id : nat) (st : istateF) : istateF :=
  mkIF (mkScopeF id false [] :: liveF st) (curF st) (savedF st).
Definition add_func_scopeF (id : nat) (tmpl : list nat) (st : istateF) : istateF :=
  mkIF (mkScopeF id true tmpl :: liveF st) (curF st) (savedF st).
Definition remove_scopeF (st : istateF) : istateF := mkIF (tl (liveF st)) (curF st) (savedF st).
Fixpoint pop_scopesF (k : nat) (st : istateF) : istateF :=
  match k with O => st | S k' => pop_scopesF k' (remove_scopeF st) end.
Definition create_closureF (st : istateF) : fnF := GSub false (Some (new_closingF (liveF st))) (curF st).
Definition pseudoF (st : istateF) : fnF := GSub true (Some (new_closingF (liveF st))) (curF st).
Definition enter_fnF (f : fnF) (st : istateF) : istateF := mkIF (liveF st) f (curF st :: savedF st).
Definition leave_fnF (st : istateF) : istateF :=
  match savedF st with c :: r => mkIF (liveF st) c r | [] => st end.
Definition enter_argF (st : istateF) : istateF := enter_fnF (pseudoF st) st.
Definition set_curF (f : fnF) (st : istateF) : istateF := mkIF (liveF st) f (savedF st).

Definition globalF : scopeF := mkScopeF O false [].
Definition init_istateF : istateF := mkIF [globalF] (GMain [globalF]) [].

(* erasure to the core machine *)
Definition eraseS (s : scopeF) : scope := mkScope (sf_id s) (sf_fun s).
Fixpoint eraseFn (f : fnF) : fn :=
  match f with
  | GMain _ => FMain
  | GSub true _ par => FSub None (eraseFn par)
  | GSub false cl par => FSub (match cl with Some l => Some (map eraseS l) | None => None end) (eraseFn par)
  end.
Definition erase (st : istateF) : istate :=
  mkI (map eraseS (liveF st)) (eraseFn (curF st)) (map eraseFn (savedF st)).

(* ---- the redundancy condition of the faithful layer, decidable form (tested by the replay) ---- *)

Definition segF (cl : option (list scopeF)) : list nat :=
  match cl with Some l => map sf_id (until_funF l) | None => [] end.

(* every captured stack of the parent chain, callExprEval functions included *)
Fixpoint fullp (f : fnF) : list nat :=
  match f with GMain _ => [] | GSub _ cl par => segF cl ++ fullp par end.
(* the captured stacks of the closures only: what the core machine consults *)
Fixpoint corep (f : fnF) : list nat :=
  match f with
  | GMain _ => []
  | GSub true _ par => corep par
  | GSub false cl par => segF cl ++ corep par
  end.

Fixpoint tmpl_of (l : list scopeF) : list nat :=
  match l with [] => [] | s :: r => if sf_fun s then sf_tmpl s else tmpl_of r end.


Definition inclb (a b : list nat) : bool := forallb (fun i => existsb (Nat.eqb i) b) a.

Fixpoint coveredb (a : list nat) (f : fnF) : bool :=
  match f with
  | GMain _ => true
  | GSub true cl par => inclb (segF cl) a && coveredb a par
  | GSub false cl par => coveredb (a ++ segF cl) par
  end.

(* cov, as a boolean: the captured stacks of mainfunc / of the callExprEval functions / of the template of the
   innermost live function scope only repeat scopes that the lookup consults before them *)
Definition covb (st : istateF) : bool :=
  let a := map sf_id (until_funF (liveF st)) in
  (match curF st with
   | GMain cl => inclb (map sf_id (until_funF cl)) a
   | f => coveredb a f
   end) && inclb (tmpl_of (liveF st)) (a ++ corep (curF st)).

(* the premise of cov_call / cov_tail_call at a function entry: the template's captured stack lies inside
   the chain of the closure being entered *)
Definition call_premise_b (tmpl : list nat) (f : fnF) : bool := inclb tmpl (corep f).
