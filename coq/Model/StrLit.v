(* Spellings of string, backtick-string and character LITERALS and the runes they denote, for C12
   ("character and string literals denote exactly the runes written").
   A literal body is a list of items: a rune written as itself ([LRaw], anything but the closing quote and the
   backslash — also a raw newline, carriage return, tab, NUL, any Unicode scalar) or a backslash escape ([LEsc]).
   The meaning of the escapes is the SPECIFICATION table [std_escape] written here by hand (the escapes the
   language documents: n r a t and the four self-escapes); Proofs/StrLitProofs.v shows that the table GENERATED
   from lexer.go EscapeChar is this table.  Reading = Model/Lexer.v + Model/Reader.v.  Executable only. *)
From Coq Require Import ZArith List Bool.
From ZV Require Import Model.Regex Generated.LexTables Model.Lexer Model.Reader Model.Printer.
Import ListNotations.
Open Scope Z_scope.

Inductive litem : Type :=
| LRaw (c : Z)      (* the rune c written as itself *)
| LEsc (x : Z).     (* backslash followed by the rune x *)

(* the documented escapes: backslash followed by n r a t, and the self-escapes of backslash, double quote, single quote, hash *)
Definition std_escape (x : Z) : option Z :=
  if 110 =? x then Some 10 else if 114 =? x then Some 13 else if 97 =? x then Some 7 else if 116 =? x then Some 9
  else if 92 =? x then Some 92 else if 34 =? x then Some 34 else if 39 =? x then Some 39 else if 35 =? x then Some 35
  else None.

Definition litem_text (it : litem) : list Z := match it with LRaw c => [c] | LEsc x => [92; x] end.
Definition litem_rune (it : litem) : option Z := match it with LRaw c => Some c | LEsc x => std_escape x end.

(* the runes a body denotes; None = it contains an escape the language does not have *)
Fixpoint denote (its : list litem) : option (list Z) :=
  match its with
  | [] => Some []
  | it :: r => match litem_rune it, denote r with Some c, Some rs => Some (c :: rs) | _, _ => None end
  end.

Definition str_spelling (its : list litem) : list Z := 34 :: flat_map litem_text its ++ [34].   (* between double quotes *)
Definition chr_spelling (it : litem) : list Z := 39 :: litem_text it ++ [39].                   (* between single quotes *)
Definition bt_spelling (rs : list Z) : list Z := 96 :: rs ++ [96].                              (* between backticks *)

(* a raw item may be anything but the closing quote q and the backslash *)
Definition litem_wf (q : Z) (it : litem) : bool :=
  match it with LRaw c => negb (c =? q) && negb (c =? 92) | LEsc _ => true end.

(* the literal as the reader returns it (text followed by a newline, as EvalString / ParseTokens see the end) *)
Definition read_literal (text : list Z) : status * list sexp := read text.
