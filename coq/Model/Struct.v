(* C17 - model of declared struct types and every route that writes a field of an instance.
   Mirrors zygo/builders.go StructBuilder, RecordDefn.SetFields, SliceOfFunction, PointerToFunction,
   StructConstructorFunction; gotypereg.go GoStructRegistry register and Lookup, GetOrCreateSliceType and
   GetOrCreatePointerType - slice and pointer types are found BY NAME -, TypeCheckRecord;
   hashutils.go MakeHash, TypeCheckField, HashSet, HashDelete, SexpHash.Type - the current registry entry
   of the TypeName -, CloneFrom, nestedPathGetSet, SexpHashSelector.AssignToSelection;
   expressions.go Type of values - an array takes the slice of the name of its first element's type;
   functions.go HashAccessFunction hset and hdel, AssignmentFunction and dotGetSetHelper,
   DerefFunction derefSet; jsonmsgp.go decodeGoToSexpHelper.
   Executable definitions only.  The independent specification is the second half, spec_... *)
From Coq Require Import ZArith Bool List Arith.
Import ListNotations.

(* ---------- types ---------- *)
Inductive base := BInt64 | BFloat64 | BString | BBool | BSymbol | BInt | BHash.
(* registered NAME of a type: gotypereg.go register(name, ..) *)
Inductive tname := NBase (b : base) | NStruct (s : nat) | NSlice (t : tname) | NPtr (t : tname) | NEmpty.
(* identity of one RegisteredType object of a struct name: made by the declaration at step n (GReal),
   the place-holder the same declaration registers first (GPh), or registered by MakeHash for a
   name that was never declared (GBare) *)
Inductive gen := GReal (n : nat) | GPh (n : nat) | GBare (n : nat).
(* identity of a RegisteredType: struct types are objects (name + generation); base, slice and
   pointer types exist once per name *)
Inductive ty := TNamed (n : tname) | TStructG (s : nat) (g : gen).

Definition base_eqb (a b : base) : bool :=
  match a, b with
  | BInt64, BInt64 | BFloat64, BFloat64 | BString, BString | BBool, BBool
  | BSymbol, BSymbol | BInt, BInt | BHash, BHash => true
  | _, _ => false
  end.
Fixpoint tname_eqb (a b : tname) : bool :=
  match a, b with
  | NBase x, NBase y => base_eqb x y
  | NStruct x, NStruct y => Nat.eqb x y
  | NSlice x, NSlice y => tname_eqb x y
  | NPtr x, NPtr y => tname_eqb x y
  | NEmpty, NEmpty => true
  | _, _ => false
  end.
Definition gen_eqb (a b : gen) : bool :=
  match a, b with
  | GReal x, GReal y | GPh x, GPh y | GBare x, GBare y => Nat.eqb x y
  | _, _ => false
  end.
Definition ty_eqb (a b : ty) : bool :=
  match a, b with
  | TNamed x, TNamed y => tname_eqb x y
  | TStructG s g, TStructG s' g' => Nat.eqb s s' && gen_eqb g g'
  | _, _ => false
  end.

Definition regname (t : ty) : tname :=
  match t with TNamed n => n | TStructG s _ => NStruct s end.
(* hashutils.go TypeCheckField: strings.HasPrefix(declaredTyp.RegisteredName, "[]") *)
Definition is_slice_name (n : tname) : bool :=
  match n with NSlice _ | NEmpty => true | _ => false end.

(* type expressions as written in a field declaration *)
Inductive texpr := TEBase (b : base) | TEStruct (s : nat) | TESlice (t : texpr) | TEPtr (t : texpr).

(* ---------- values ---------- *)
Inductive value :=
| VNil | VInt (n : Z) | VFloat (n : Z) | VStr (n : Z) | VBool (b : bool) | VSym
| VList                      (* a quoted list: Type() is nil and it is not a sentinel *)
| VHash                      (* a plain (hash ..) *)
| VArr (l : list value)
| VInst (id : nat)           (* reference to the instance bound to variable v<id> *)
| VPtr (id : nat)            (* (& v<id>) *)
| VPtrInt (n : Z).           (* (& 5) *)

Inductive key := KSym (f : nat) | KInt (n : Z) | KStr (n : Z).
Definition key_eqb (a b : key) : bool :=
  match a, b with
  | KSym x, KSym y => Nat.eqb x y
  | KInt x, KInt y | KStr x, KStr y => Z.eqb x y
  | _, _ => false
  end.

(* ---------- registry, instances, state ---------- *)
Definition fields := list (nat * ty).
Record regentry := { re_gen : gen; re_defn : option fields }.   (* re_defn = UserStructDefn.FieldType *)
Record inst := { i_tname : nat;                (* SexpHash.TypeName *)
                 i_fac : regentry;             (* SexpHash.GoStructFactory, captured by MakeHash *)
                 i_fields : list (key * value) }.
(* st_ptrs: pointers kept in variables, p<pid> = (& v<id>): target, and the PointedToType captured when the
   pointer was made = the registry entry (name, generation) the target's type name had THEN *)
Record state := { st_clock : nat; st_reg : list (nat * regentry); st_store : list (nat * inst);
                  st_ptrs : list (nat * (nat * (nat * gen))) }.
Definition init_state : state := {| st_clock := 0; st_reg := []; st_store := []; st_ptrs := [] |}.

Fixpoint alookup {A} (k : nat) (l : list (nat * A)) : option A :=
  match l with [] => None | (k', a) :: r => if Nat.eqb k k' then Some a else alookup k r end.
Fixpoint aset {A} (k : nat) (a : A) (l : list (nat * A)) : list (nat * A) :=
  match l with
  | [] => [(k, a)]
  | (k', a') :: r => if Nat.eqb k k' then (k, a) :: r else (k', a') :: aset k a r
  end.
Fixpoint flookup (k : key) (l : list (key * value)) : option value :=
  match l with [] => None | (k', v) :: r => if key_eqb k k' then Some v else flookup k r end.
Fixpoint fset (k : key) (v : value) (l : list (key * value)) : list (key * value) :=
  match l with
  | [] => [(k, v)]
  | (k', v') :: r => if key_eqb k k' then (k, v) :: r else (k', v') :: fset k v r
  end.
Fixpoint fdel (k : key) (l : list (key * value)) : list (key * value) :=
  match l with
  | [] => []
  | (k', v') :: r => if key_eqb k k' then fdel k r else (k', v') :: fdel k r
  end.
(* RecordDefn.SetFields fills a map: the LAST declaration of a name wins *)
Fixpoint lookup_field (d : fields) (f : nat) : option ty :=
  match d with
  | [] => None
  | (f', t) :: r => match lookup_field r f with Some t' => Some t' | None => if Nat.eqb f f' then Some t else None end
  end.

Definition set_reg (st : state) (r : list (nat * regentry)) : state :=
  {| st_clock := st_clock st; st_reg := r; st_store := st_store st; st_ptrs := st_ptrs st |}.
Definition set_store (st : state) (s : list (nat * inst)) : state :=
  {| st_clock := st_clock st; st_reg := st_reg st; st_store := s; st_ptrs := st_ptrs st |}.
Definition set_ptrs (st : state) (p : list (nat * (nat * (nat * gen)))) : state :=
  {| st_clock := st_clock st; st_reg := st_reg st; st_store := st_store st; st_ptrs := p |}.
Definition tick (st : state) : state :=
  {| st_clock := S (st_clock st); st_reg := st_reg st; st_store := st_store st; st_ptrs := st_ptrs st |}.
Definition set_fac (i : inst) (e : regentry) : inst :=
  {| i_tname := i_tname i; i_fac := e; i_fields := i_fields i |}.
Definition set_fields (i : inst) (l : list (key * value)) : inst :=
  {| i_tname := i_tname i; i_fac := i_fac i; i_fields := l |}.

(* is the struct's symbol bound in the interpreter?  (a name registered only by MakeHash is not) *)
Definition bound_entry (e : regentry) : bool :=
  match re_gen e with GBare _ => false | _ => true end.

(* ---------- declarations: builders.go StructBuilder ---------- *)
Fixpoint eval_texpr (reg : list (nat * regentry)) (t : texpr) : option ty :=
  match t with
  | TEBase b => Some (TNamed (NBase b))
  | TEStruct s =>
    match alookup s reg with
    | Some e => if bound_entry e then Some (TStructG s (re_gen e)) else None
    | None => None
    end
  | TESlice t' => match eval_texpr reg t' with Some x => Some (TNamed (NSlice (regname x))) | None => None end
  | TEPtr t' => match eval_texpr reg t' with Some x => Some (TNamed (NPtr (regname x))) | None => None end
  end.
Fixpoint eval_fields (reg : list (nat * regentry)) (l : list (nat * texpr)) : option fields :=
  match l with
  | [] => Some []
  | (f, t) :: r =>
    match eval_texpr reg t with
    | None => None
    | Some x => match eval_fields reg r with Some d => Some ((f, x) :: d) | None => None end
    end
  end.

Inductive outcome := OK | ERR.

(* the place-holder (no fields) is registered and bound first, so that the fields can refer to
   the struct itself; when a field fails to evaluate the place-holder stays *)
(* StructBuilder checks the argument count and the shape of the field list only AFTER it registered and
   bound the place-holder: a malformed declaration leaves the struct with no fields.
   The bare form (struct S) and a quoted name (struct (quote S) [..]) are spellings of Declare. *)
Definition declare_bad (st : state) (s : nat) : outcome * state :=
  (ERR, set_reg st (aset s {| re_gen := GPh (st_clock st); re_defn := Some [] |} (st_reg st))).

Definition declare (st : state) (s : nat) (l : list (nat * texpr)) : outcome * state :=
  let n := st_clock st in
  let reg1 := aset s {| re_gen := GPh n; re_defn := Some [] |} (st_reg st) in
  match eval_fields reg1 l with
  | None => (ERR, set_reg st reg1)
  | Some d => (OK, set_reg st (aset s {| re_gen := GReal n; re_defn := Some d |} reg1))
  end.

(* ---------- the language's own Type() of a value ---------- *)
Inductive tres := TNone | TSome (t : ty).
(* an entry registered by MakeHash has no TypeCache: reflect.SliceOf / reflect.PtrTo on it panic *)
Definition has_typecache (e : regentry) : bool := bound_entry e.

(* type of a non-empty array from its first element x whose own type is r: GetOrCreateSliceType.
   An element type without TypeCache (a plain hash, a record of a never-declared name) gives the generic
   slice type "[]" (gotypereg.go, since b43fa74) *)
Definition arr_fallback (x : value) (r : tres) : bool :=
  match x with
  | VHash => true
  | _ => match r with TSome (TStructG _ (GBare _)) => true | _ => false end
  end.
Definition arr_type (x : value) (r : tres) : tres :=
  if arr_fallback x r then TSome (TNamed NEmpty)
  else
    match r with
    | TSome t => TSome (TNamed (NSlice (regname t)))
    | TNone => TNone
    end.

Fixpoint type_of (st : state) (v : value) : tres :=
  match v with
  | VNil | VList => TNone
  | VInt _ => TSome (TNamed (NBase BInt64))
  | VFloat _ => TSome (TNamed (NBase BFloat64))
  | VStr _ => TSome (TNamed (NBase BString))
  | VBool _ => TSome (TNamed (NBase BBool))
  | VSym => TSome (TNamed (NBase BSymbol))
  | VHash => TSome (TNamed (NBase BHash))
  | VPtrInt _ => TSome (TNamed (NPtr (NBase BInt64)))
  | VPtr id =>
    match alookup id (st_store st) with
    | Some i => TSome (TNamed (NPtr (NStruct (i_tname i))))
    | None => TNone
    end
  | VInst id =>                                    (* hashutils.go SexpHash.Type: Registry[TypeName] *)
    match alookup id (st_store st) with
    | Some i => match alookup (i_tname i) (st_reg st) with
                | Some e => TSome (TStructG (i_tname i) (re_gen e))
                | None => TNone
                end
    | None => TNone
    end
  | VArr [] => TSome (TNamed NEmpty)
  | VArr (x :: _) => arr_type x (type_of st x)     (* expressions.go SexpArray.Type *)
  end.

(* evaluating the value expression: variables must be bound; (& v) of an instance whose type has no
   TypeCache panics inside the builtin (recovered as an error) *)
Fixpoint value_ok (st : state) (v : value) : bool :=
  match v with
  | VInst id => match alookup id (st_store st) with Some _ => true | None => false end
  | VPtr id =>
    match alookup id (st_store st) with
    | Some i => match alookup (i_tname i) (st_reg st) with Some e => has_typecache e | None => false end
    | None => false
    end
  | VArr l => forallb (value_ok st) l
  | _ => true
  end.

(* ---------- hashutils.go TypeCheckField / HashSet ---------- *)
Inductive verdict := VOk | VErr | VNotSym.

(* the factory used for the check; an instance whose factory has no definition adopts the
   registry's CURRENT definition of its type name (h.GoStructFactory = rt) *)
Definition adopt (st : state) (i : inst) : inst :=
  match re_defn (i_fac i) with
  | Some _ => i
  | None =>
    match alookup (i_tname i) (st_reg st) with
    | Some e => match re_defn e with Some _ => set_fac i e | None => i end
    | None => i
    end
  end.

Definition is_empty_arr (v : value) : bool := match v with VArr [] => true | _ => false end.

(* hashutils.go TypeCheckField, the part after the declared type was found (as of d20da0f / 1d0c785) *)
Definition check_value (st : state) (dt : ty) (v : value) : verdict :=
  match type_of st v with
  | TNone =>
    match v with
    | VNil => VOk                                  (* *SexpSentinel *)
    | _ => VErr                                    (* untyped array / "has nil Type" *)
    end
  | TSome ot =>
    if ty_eqb ot dt then VOk
    else if is_empty_arr v && ty_eqb ot (TNamed NEmpty) && is_slice_name (regname dt) then VOk
    else VErr
  end.

Definition type_check_field (st : state) (i : inst) (k : key) (v : value) : verdict * inst :=
  match k with
  | KSym f =>
    let i' := adopt st i in
    match re_defn (i_fac i') with
    | None => (VOk, i')
    | Some d =>
      match lookup_field d f with
      | None => (VErr, i')
      | Some dt => (check_value st dt v, i')
      end
    end
  | _ => (VNotSym, i)
  end.

(* HashSet (as of 01960ee): KeyNotSymbol is an error for an instance whose factory holds a definition
   (field names are symbols); a record without definition stores any key *)
Definition hash_set (st : state) (i : inst) (k : key) (v : value) : verdict * inst :=
  let '(vd, i') := type_check_field st i k v in
  match vd with
  | VOk => (VOk, set_fields i' (fset k v (i_fields i')))
  | VNotSym =>
    match re_defn (i_fac i') with
    | Some _ => (VErr, i')
    | None => (VOk, set_fields i' (fset k v (i_fields i')))
    end
  | VErr => (VErr, i')
  end.

Fixpoint hash_set_all (st : state) (i : inst) (args : list (key * value)) : verdict * inst :=
  match args with
  | [] => (VOk, i)
  | (k, v) :: r =>
    let '(vd, i') := hash_set st i k v in
    match vd with VOk => hash_set_all st i' r | _ => (vd, i') end
  end.

(* gotypereg.go TypeCheckRecord: every key again; here KeyNotSymbol IS an error *)
Fixpoint check_record (st : state) (i : inst) (l : list (key * value)) : verdict :=
  match l with
  | [] => VOk
  | (k, v) :: r =>
    match fst (type_check_field st i k v) with
    | VOk => check_record st i r
    | _ => VErr
    end
  end.

(* hashutils.go MakeHash: (verdict, the hash it returns, registry) *)
Definition make_hash (st : state) (s : nat) (args : list (key * value)) : verdict * inst * list (nat * regentry) :=
  let found := alookup s (st_reg st) in
  let fac := match found with Some e => e | None => {| re_gen := GBare (st_clock st); re_defn := None |} end in
  let i0 := {| i_tname := s; i_fac := fac; i_fields := [] |} in
  let '(vd, i1) := hash_set_all st i0 args in
  match vd with
  | VOk =>
    match found with
    | Some e =>
      match re_defn e with
      | Some _ => (check_record st i1 (i_fields i1), i1, st_reg st)
      | None => (VOk, i1, st_reg st)
      end
    | None => (VOk, i1, aset s fac (st_reg st))
    end
  | _ => (vd, i1, st_reg st)
  end.

(* ---------- operations ---------- *)
Inductive route := RHset | RDot | RInfix | RSel | RIdx.
Inductive op :=
| Declare (s : nat) (l : list (nat * texpr))                  (* (struct S [(field f: T) ..]) *)
| Construct (id s : nat) (args : list (key * value))          (* (def v<id> (S k:v ..)) *)
| Write (r : route) (id : nat) (k : key) (v : value)          (* hset / set a.f / {a.f = v} / hashidx / {a[k] = v} *)
| Nested (id f g : nat) (v : value)                           (* {v<id>.f.g = v} *)
| Delete (id : nat) (k : key)                                 (* (hdel v<id> k) *)
| DerefSet (id : nat) (v : value)                             (* (derefSet (& v<id>) v) *)
| Decode (ko : bool) (id s : nat) (args : list (nat * value))  (* (def v<id> (unjson ..)) with/without zKeyOrder *)
| TakePtr (pid id : nat)                                      (* (def p<pid> (& v<id>)) *)
| DerefSetP (pid : nat) (v : value)                           (* (derefSet p<pid> v): pointer made earlier *)
| DeclareBad (s : nat).   (* malformed declaration: (struct S [..] extra) / (struct S 5) / (struct S [5]) *)

(* every Go panic site of these routes is gone (d20da0f), so all routes report alike *)
Definition of_verdict (vd : verdict) : outcome :=
  match vd with VOk | VNotSym => OK | VErr => ERR end.
Definition route_key_ok (r : route) (k : key) : bool :=
  match r, k with
  | RHset, _ => true
  | RIdx, _ => true        (* {a[k] = v}, (hset a (quote [k]) v): HashSet unwraps the one-element array key
                              BEFORE the check, so a symbol inside is checked like a plain symbol key *)
  | _, KSym _ => true
  | _, _ => false
  end.

Definition put (st : state) (id : nat) (i : inst) : state := set_store st (aset id i (st_store st)).

Fixpoint sort_insert (a : nat * value) (l : list (nat * value)) : list (nat * value) :=
  match l with
  | [] => [a]
  | b :: r => if Nat.leb (fst a) (fst b) then a :: l else b :: sort_insert a r
  end.
Definition sort_args (l : list (nat * value)) : list (nat * value) := fold_right sort_insert [] l.

(* functions.go AddressOfFunction / NewSexpPointer: PointedToType = Type() of the target now *)
Definition take_ptr (st : state) (pid id : nat) : outcome * state :=
  if negb (value_ok st (VPtr id)) then (ERR, st)
  else
    match alookup id (st_store st) with
    | Some i =>
      match alookup (i_tname i) (st_reg st) with
      | Some e => (OK, set_ptrs st (aset pid (id, (i_tname i, re_gen e)) (st_ptrs st)))
      | None => (ERR, st)
      end
    | None => (ERR, st)
    end.
Definition ptr_matches (st : state) (s : nat) (g : gen) (ij : inst) : bool :=
  match alookup (i_tname ij) (st_reg st) with
  | Some e => Nat.eqb s (i_tname ij) && gen_eqb g (re_gen e)
  | None => false
  end.

Definition step_op (st : state) (o : op) : outcome * state :=
  match o with
  | Declare s l => declare st s l
  | Construct id s args =>
    match alookup s (st_reg st) with
    | None => (ERR, st)
    | Some e =>
      if negb (bound_entry e) then (ERR, st)
      else if negb (forallb (fun kv => value_ok st (snd kv)) args) then (ERR, st)
      else
        let '(vd, i, reg) := make_hash st s args in
        match vd with
        | VOk => (OK, put (set_reg st reg) id i)
        | _ => (ERR, st)
        end
    end
  | Write r id k v =>
    if negb (route_key_ok r k) then (ERR, st)
    else if negb (value_ok st v) then (ERR, st)
    else
      match alookup id (st_store st) with
      | None => (ERR, st)
      | Some i =>
        let '(vd, i') := hash_set st i k v in
        (of_verdict vd, put st id i')
      end
  | Nested id f g v =>
    if negb (value_ok st v) then (ERR, st)
    else
      match alookup id (st_store st) with
      | None => (ERR, st)
      | Some i =>
        match flookup (KSym f) (i_fields i) with
        | Some (VInst j) =>
          match alookup j (st_store st) with
          | None => (ERR, st)
          | Some ij =>
            let '(vd, ij') := hash_set st ij (KSym g) v in
            (of_verdict vd, put st j ij')
          end
        | Some VHash => (OK, st)
        | _ => (ERR, st)
        end
      end
  | Delete id k =>
    match alookup id (st_store st) with
    | None => (ERR, st)
    | Some i => (OK, put st id (set_fields i (fdel k (i_fields i))))
    end
  | DerefSet id v =>
    match alookup id (st_store st) with
    | None => (ERR, st)
    | Some i =>
      if negb (value_ok st (VPtr id)) then (ERR, st)
      else if negb (value_ok st v) then (ERR, st)
      else
        match v with
        | VInst j =>
          match alookup j (st_store st) with
          | Some ij =>
            (* payload.Type() == ptr.PointedToType: both are the CURRENT registry entry of a name *)
            if Nat.eqb (i_tname i) (i_tname ij) then (OK, put st id ij)   (* CloneFrom *)
            else (ERR, st)
          | None => (ERR, st)
          end
        | _ => (ERR, st)
        end
    end
  | DeclareBad s => declare_bad st s
  | TakePtr pid id => take_ptr st pid id
  | DerefSetP pid v =>
    match alookup pid (st_ptrs st) with
    | None => (ERR, st)
    | Some (id, (s, g)) =>
      match alookup id (st_store st) with
      | None => (ERR, st)
      | Some i =>
        if negb (value_ok st v) then (ERR, st)
        else
          match v with
          | VInst j =>
            match alookup j (st_store st) with
            | Some ij =>
              (* tt == pt: the type captured in the pointer is the SAME object as the payload's current type *)
              if ptr_matches st s g ij then (OK, put st id ij) else (ERR, st)
            | None => (ERR, st)
            end
          | _ => (ERR, st)
          end
      end
    end
  | Decode ko id s args =>
    if negb (forallb (fun kv => value_ok st (snd kv)) args) then (ERR, st)
    else
      let '(vd, i, reg) := make_hash st s (map (fun kv => (KSym (fst kv), snd kv)) (sort_args args)) in
      match vd with
      | VOk => (OK, put (set_reg st reg) id i)
      | _ =>
        (* decodeGoToSexpHelper: panicOn(err) right after MakeHash, recovered by CallUserFunction:
           an error with or without zKeyOrder, nothing is bound *)
        (ERR, st)
      end
  end.

Definition step (st : state) (o : op) : outcome * state :=
  let '(oc, st') := step_op st o in (oc, tick st').

Definition run (st : state) (h : list op) : state := fold_left (fun s o => snd (step s o)) h st.

(* ====================================================================================== *)
(* Independent specification: what the property text demands.                              *)
(*  - the type of an instance is the definition it was created with (never the registry's  *)
(*    current one); slice and pointer types are by element NAME (the language has one       *)
(*    registered type "[]T" / "*T" per name);                                               *)
(*  - nil is accepted for every declared field; the empty slice exactly for slice fields;   *)
(*  - a write is accepted iff the key is a declared field and the value conforms; accepted  *)
(*    => exactly that field changes; rejected => error and nothing changes;                 *)
(*  - a decode is all-or-nothing; derefSet needs a payload of the SAME definition.          *)
(* ====================================================================================== *)
Fixpoint spec_type_of (st : state) (v : value) : option ty :=
  match v with
  | VNil | VList => None
  | VInt _ => Some (TNamed (NBase BInt64))
  | VFloat _ => Some (TNamed (NBase BFloat64))
  | VStr _ => Some (TNamed (NBase BString))
  | VBool _ => Some (TNamed (NBase BBool))
  | VSym => Some (TNamed (NBase BSymbol))
  | VHash => Some (TNamed (NBase BHash))
  | VPtrInt _ => Some (TNamed (NPtr (NBase BInt64)))
  | VPtr id => match alookup id (st_store st) with
               | Some i => Some (TNamed (NPtr (NStruct (i_tname i)))) | None => None end
  | VInst id => match alookup id (st_store st) with
                | Some i => Some (TStructG (i_tname i) (re_gen (i_fac i))) | None => None end
  | VArr [] => Some (TNamed NEmpty)
  | VArr (x :: _) => match spec_type_of st x with Some t => Some (TNamed (NSlice (regname t))) | None => None end
  end.

Definition spec_conforms (st : state) (v : value) (dt : ty) : bool :=
  match v with
  | VNil => true
  | VArr [] => is_slice_name (regname dt)
  | _ => match spec_type_of st v with Some t => ty_eqb t dt | None => false end
  end.

(* reasons of a demanded rejection (for the classification of failures only) *)
Inductive reason := RsNoVar | RsNoKey | RsUndeclared | RsType | RsStale | RsUntyped | RsNotRecord | RsDefn.
Inductive sverdict := SOk | SRej (r : reason).

(* would the value be of the declared type if instances were typed by the CURRENT registry entry? *)
Definition stale_match (st : state) (v : value) (dt : ty) : bool :=
  match v with
  | VInst _ => match type_of st v with TSome t => ty_eqb t dt | _ => false end
  | _ => false
  end.

Definition spec_check (st : state) (i : inst) (k : key) (v : value) : sverdict :=
  match k with
  | KSym f =>
    match re_defn (i_fac i) with
    | None => SOk                                   (* created before any declaration: untyped *)
    | Some d =>
      match lookup_field d f with
      | None => SRej RsUndeclared
      | Some dt =>
        if spec_conforms st v dt then SOk
        else if stale_match st v dt then SRej RsStale
        else match spec_type_of st v with None => SRej RsUntyped | Some _ => SRej RsType end
      end
    end
  | _ => match re_defn (i_fac i) with None => SOk | Some _ => SRej RsNoKey end
  end.

Definition spec_set (i : inst) (k : key) (v : value) : inst := set_fields i (fset k v (i_fields i)).

Fixpoint spec_set_all (st : state) (i : inst) (args : list (key * value)) : sverdict * inst :=
  match args with
  | [] => (SOk, i)
  | (k, v) :: r =>
    match spec_check st i k v with
    | SOk => spec_set_all st (spec_set i k v) r
    | SRej x => (SRej x, i)
    end
  end.

Definition spec_make (st : state) (s : nat) (args : list (key * value)) : sverdict * inst * list (nat * regentry) :=
  let found := alookup s (st_reg st) in
  let fac := match found with Some e => e | None => {| re_gen := GBare (st_clock st); re_defn := None |} end in
  let reg := match found with Some _ => st_reg st | None => aset s fac (st_reg st) end in
  let '(sv, i) := spec_set_all st {| i_tname := s; i_fac := fac; i_fields := [] |} args in
  (sv, i, reg).

Definition spec_step_op (st : state) (o : op) : sverdict * state :=
  match o with
  | Declare s l => match declare st s l with (OK, st') => (SOk, st') | (_, st') => (SRej RsDefn, st') end
  | Construct id s args =>
    match alookup s (st_reg st) with
    | None => (SRej RsNoVar, st)
    | Some e =>
      if negb (bound_entry e) then (SRej RsNoVar, st)
      else if negb (forallb (fun kv => value_ok st (snd kv)) args) then (SRej RsNoVar, st)
      else
        let '(sv, i, reg) := spec_make st s args in
        match sv with SOk => (SOk, put (set_reg st reg) id i) | _ => (sv, st) end
    end
  | Write r id k v =>
    if negb (value_ok st v) then (SRej RsNoVar, st)
    else
      match alookup id (st_store st) with
      | None => (SRej RsNoVar, st)
      | Some i =>
        match spec_check st i k v with
        | SOk => if route_key_ok r k then (SOk, put st id (spec_set i k v)) else (SRej RsNoKey, st)
        | sv => (sv, st)
        end
      end
  | Nested id f g v =>
    if negb (value_ok st v) then (SRej RsNoVar, st)
    else
      match alookup id (st_store st) with
      | None => (SRej RsNoVar, st)
      | Some i =>
        match flookup (KSym f) (i_fields i) with
        | Some (VInst j) =>
          match alookup j (st_store st) with
          | None => (SRej RsNoVar, st)
          | Some ij =>
            match spec_check st ij (KSym g) v with
            | SOk => (SOk, put st j (spec_set ij (KSym g) v))
            | sv => (sv, st)
            end
          end
        | Some VHash => (SOk, st)
        | _ => (SRej RsNotRecord, st)
        end
      end
  | Delete id k =>
    match alookup id (st_store st) with
    | None => (SRej RsNoVar, st)
    | Some i => (SOk, put st id (set_fields i (fdel k (i_fields i))))
    end
  | DerefSet id v =>
    match alookup id (st_store st) with
    | None => (SRej RsNoVar, st)
    | Some i =>
      if negb (value_ok st (VPtr id)) then (SRej RsNoVar, st)
      else if negb (value_ok st v) then (SRej RsNoVar, st)
      else
        match v with
        | VInst j =>
          match alookup j (st_store st) with
          | Some ij =>
            if Nat.eqb (i_tname i) (i_tname ij) then
              if gen_eqb (re_gen (i_fac i)) (re_gen (i_fac ij)) then (SOk, put st id ij)
              else (SRej RsStale, st)
            else (SRej RsType, st)
          | None => (SRej RsNoVar, st)
          end
        | _ => (SRej RsType, st)
        end
    end
  | DeclareBad s => (SRej RsDefn, snd (declare_bad st s))
  | TakePtr pid id => match take_ptr st pid id with (OK, st') => (SOk, st') | (_, st') => (SRej RsNoVar, st') end
  | DerefSetP pid v =>
    match alookup pid (st_ptrs st) with
    | None => (SRej RsNoVar, st)
    | Some (id, _) =>
      match alookup id (st_store st) with
      | None => (SRej RsNoVar, st)
      | Some i =>
        if negb (value_ok st v) then (SRej RsNoVar, st)
        else
          match v with
          | VInst j =>
            match alookup j (st_store st) with
            | Some ij =>
              if Nat.eqb (i_tname i) (i_tname ij) then
                if gen_eqb (re_gen (i_fac i)) (re_gen (i_fac ij)) then (SOk, put st id ij)
                else (SRej RsStale, st)
              else (SRej RsType, st)
            | None => (SRej RsNoVar, st)
            end
          | _ => (SRej RsType, st)
          end
      end
    end
  | Decode ko id s args =>
    if negb (forallb (fun kv => value_ok st (snd kv)) args) then (SRej RsNoVar, st)
    else
      let '(sv, i, reg) := spec_make st s (map (fun kv => (KSym (fst kv), snd kv)) (sort_args args)) in
      match sv with SOk => (SOk, put (set_reg st reg) id i) | _ => (sv, st) end
  end.

Definition spec_step (st : state) (o : op) : sverdict * state :=
  let '(sv, st') := spec_step_op st o in (sv, tick st').

(* ---------- the invariant of the property, as a checkable predicate ---------- *)
Definition field_okb (st : state) (d : fields) (kv : key * value) : bool :=
  match fst kv with
  | KSym f => match lookup_field d f with Some dt => spec_conforms st (snd kv) dt | None => false end
  | _ => false
  end.
(* declared types never mention the generic slice type "[]" (no type expression denotes it) *)
Fixpoint wf_name (n : tname) : bool :=
  match n with NEmpty => false | NSlice t | NPtr t => wf_name t | _ => true end.
Definition wf_ty (t : ty) : bool := wf_name (regname t).
Definition entry_okb (e : regentry) : bool :=
  match re_defn e with Some d => forallb (fun ft => wf_ty (snd ft)) d | None => true end.
Definition reg_okb (r : list (nat * regentry)) : bool := forallb (fun p => entry_okb (snd p)) r.
Definition inst_okb (st : state) (i : inst) : bool :=
  entry_okb (i_fac i) &&
  match re_defn (i_fac i) with
  | None => true
  | Some d => forallb (field_okb st d) (i_fields i)
  end.
Definition sinvb (st : state) : bool := forallb (fun p => inst_okb st (snd p)) (st_store st).
Definition invb (st : state) : bool := reg_okb (st_reg st) && sinvb st.

(* ---------- side conditions of the theorems (each excluded case is a listed finding) ---------- *)
(* the instance was created with the definition its type name has NOW *)
Definition value_clean (st : state) (v : value) : bool :=
  match v with
  | VInst j =>
    match alookup j (st_store st) with
    | Some ij => match alookup (i_tname ij) (st_reg st) with
                 | Some e => gen_eqb (re_gen (i_fac ij)) (re_gen e)
                 | None => true
                 end
    | None => true
    end
  | _ => true
  end.
Definition typed_inst (i : inst) : bool := match re_defn (i_fac i) with Some _ => true | None => false end.
Definition fresh_id (st : state) (id : nat) : bool :=
  match alookup id (st_store st) with None => true | Some _ => false end.
Definition target_typed (st : state) (id : nat) : bool :=
  match alookup id (st_store st) with Some i => typed_inst i | None => true end.

Definition clean (st : state) (o : op) : bool :=
  match o with
  | Declare _ _ => true
  | Construct id s args => fresh_id st id && forallb (fun kv => value_clean st (snd kv)) args
  | Write r id k v => value_clean st v && target_typed st id
  | Nested id f g v =>
    value_clean st v &&
    match alookup id (st_store st) with
    | Some i => match flookup (KSym f) (i_fields i) with Some (VInst j) => target_typed st j | _ => true end
    | None => true
    end
  | Delete _ _ => true
  | DerefSet id v =>
    match v with
    | VInst j =>
      match alookup id (st_store st), alookup j (st_store st) with
      | Some i, Some ij => gen_eqb (re_gen (i_fac i)) (re_gen (i_fac ij))
      | _, _ => true
      end
    | _ => true
    end
  | Decode ko id s args => fresh_id st id && forallb (fun kv => value_clean st (snd kv)) args
  | TakePtr _ _ => true
  | DeclareBad _ => true
  | DerefSetP pid v =>
    match alookup pid (st_ptrs st), v with
    | Some (id, _), VInst j =>
      match alookup id (st_store st), alookup j (st_store st) with
      | Some i, Some ij => Nat.eqb (i_tname i) (i_tname ij) && gen_eqb (re_gen (i_fac i)) (re_gen (i_fac ij))
      | _, _ => true
      end
    | _, _ => true
    end
  end.

Fixpoint clean_run (st : state) (h : list op) : bool :=
  match h with
  | [] => true
  | o :: r => clean st o && clean_run (snd (step st o)) r
  end.

(* ---------- value EXPRESSIONS that are not literals ---------- *)
(* EConcatEmpty j f l = (concat (slice (hget v<j> f) 0 0) [l..]): concat onto the empty prefix of an array that
   is stored in a field (and therefore carries a cached array type).  arrayutils.go ConcatArray builds a NEW
   array without cached type, so the value is simply the array of the given elements; evaluation fails when
   the instance or the field is missing or the field does not hold an array.
   (append / appendslice / slice results and (map f arr) results DO inherit or invent a cached type in the
   unchanged code - reported to the lead, not modelled.) *)
Inductive vexpr := EVal (v : value) | EConcatEmpty (j f : nat) (l : list value).

Definition eval_vexpr (st : state) (e : vexpr) : option value :=
  match e with
  | EVal v => Some v
  | EConcatEmpty j f l =>
    match alookup j (st_store st) with
    | Some i => match flookup (KSym f) (i_fields i) with Some (VArr _) => Some (VArr l) | _ => None end
    | None => None
    end
  end.

Definition max_id (st : state) : nat := fold_right (fun p m => Nat.max (fst p) m) 0 (st_store st).
(* a failing expression is represented by a reference to a variable that is certainly unbound: the step then
   reports an error through value_ok, exactly like any other unbound variable in the value *)
Definition resolve (st : state) (e : vexpr) : value :=
  match eval_vexpr st e with Some v => v | None => VInst (S (max_id st)) end.
