(* C17 - the domain on which the code (hashutils.go TypeCheckField and the routes of Model/Struct.v) accepts
   EXACTLY what the specification accepts, and the classification of the write routes of /repo
   (the sites themselves are generated: Generated/WriteRoutes.v).  Executable definitions only. *)
From Coq Require Import ZArith Bool List Arith.
Import ListNotations.
Require Import ZV.Model.Struct.
Local Open Scope Z_scope.

(* ---------- where the language's Type() names the creation-time type ---------- *)
(* expressions.go SexpArray.Type / gotypereg.go GetOrCreateSliceType: an array whose first element has a type
   without TypeCache (a plain hash, a record of a never-declared name) gets the generic type "[]", which
   TypeCheckField accepts for no declared field when the array is not empty; hashutils.go SexpHash.Type gives no
   type at all when the record's type name is not registered.  The specification types such arrays "[]T" by the
   name T of the first element.  typeful st v = none of this happens anywhere on the first-element spine of v. *)
Fixpoint typeful (st : state) (v : value) : bool :=
  match v with
  | VInst j =>
    match alookup j (st_store st) with
    | Some ij => match alookup (i_tname ij) (st_reg st) with Some _ => true | None => false end
    | None => true
    end
  | VArr (x :: _) => negb (arr_fallback x (type_of st x)) && typeful st x
  | _ => true
  end.

(* functions.go DerefFunction: tt == pt.  The pointer kept in p<pid> still names its target's type, and the
   RegisteredType object it captured is the one its name has NOW (no redeclaration since it was taken) *)
Definition ptr_fresh (st : state) (pid : nat) : bool :=
  match alookup pid (st_ptrs st) with
  | Some (id, (s, g)) =>
    match alookup id (st_store st) with
    | Some i =>
      Nat.eqb s (i_tname i) &&
      match alookup s (st_reg st) with Some e => gen_eqb g (re_gen e) | None => false end
    | None => true
    end
  | None => true
  end.

(* the operations on which code and specification agree in BOTH directions *)
Definition exact_dom (st : state) (o : op) : bool :=
  match o with
  | Construct _ _ args => forallb (fun kv => typeful st (snd kv)) args
  | Decode _ _ _ args => forallb (fun kv => typeful st (snd kv)) args
  | Write _ _ _ v => typeful st v
  | Nested _ _ _ v => typeful st v
  | DerefSetP pid _ => ptr_fresh st pid
  | _ => true
  end.

(* ---------- write routes: classes of the sites enumerated by translator/cmd/writeroutes ---------- *)
(* kind of a site that can change what a record (SexpHash) holds *)
Inductive site_kind :=
| SCallHashSet        (* a call of SexpHash.HashSet: checked by construction of HashSet *)
| SWriteMap           (* assignment to / through SexpHash.Map (bucket map or one of its bucket slices) *)
| SWritePair          (* assignment to Head/Tail of a *SexpPair taken from a bucket of SexpHash.Map *)
| SWriteFactory       (* assignment to SexpHash.GoStructFactory *)
| SWriteTypeName      (* assignment to SexpHash.TypeName *)
| SLiteral.           (* composite literal SexpHash{..} *)

(* what a function that contains a direct write is, in terms of the model *)
Inductive writer_class :=
| WChecker            (* hashutils.go HashSet: the store itself, after TypeCheckField    = hash_set *)
| WAdopt              (* hashutils.go TypeCheckField: h.GoStructFactory = rt             = adopt *)
| WDelete             (* hashutils.go HashDelete                                         = Delete *)
| WClone              (* hashutils.go CloneFrom / CopyMap (derefSet, copies)             = DerefSet / DerefSetP *)
| WMake               (* hashutils.go MakeHash and the literal constructors of EMPTY hashes = make_hash *)
| WOther.             (* anything else: NOT covered by the model *)

Definition site_kind_eqb (a b : site_kind) : bool :=
  match a, b with
  | SCallHashSet, SCallHashSet | SWriteMap, SWriteMap | SWritePair, SWritePair
  | SWriteFactory, SWriteFactory | SWriteTypeName, SWriteTypeName | SLiteral, SLiteral => true
  | _, _ => false
  end.

Fixpoint zlist_eqb (a b : list Z) : bool :=
  match a, b with
  | [], [] => true
  | x :: r, y :: s => Z.eqb x y && zlist_eqb r s
  | _, _ => false
  end.

(* a site = (file, function, kind); the table of the functions that may write directly *)
Definition site := (list Z * list Z * site_kind)%type.
Definition writer_table := list (list Z * writer_class).

Fixpoint class_of (tbl : writer_table) (fn : list Z) : writer_class :=
  match tbl with
  | [] => WOther
  | (n, c) :: r => if zlist_eqb n fn then c else class_of r fn
  end.

Definition kind_allowed (c : writer_class) (k : site_kind) : bool :=
  match c, k with
  | _, SCallHashSet => true                       (* goes through HashSet whoever calls *)
  | WChecker, (SWriteMap | SWritePair) => true
  | WAdopt, SWriteFactory => true
  | WDelete, SWriteMap => true
  | WClone, (SWriteMap | SWriteFactory | SWriteTypeName) => true
  | WMake, (SLiteral | SWriteFactory | SWriteTypeName) => true
  | _, _ => false
  end.

Definition site_covered (tbl : writer_table) (s : site) : bool :=
  let '(_, fn, k) := s in kind_allowed (class_of tbl fn) k.

(* the shape of HashSet itself, as booleans measured by the translator:
   (the call of TypeCheckField is a top-level statement of the body; every direct write comes after it;
    an error other than KeyNotSymbol returns before any write; KeyNotSymbol returns for a typed record) *)
Record hashset_shape := { hs_check_toplevel : bool; hs_writes_after_check : bool;
                          hs_error_returns : bool; hs_notsym_typed_returns : bool }.
Definition shape_ok (h : hashset_shape) : bool :=
  hs_check_toplevel h && hs_writes_after_check h && hs_error_returns h && hs_notsym_typed_returns h.

(* the functions of /repo that may write a record directly, and what each is in the model *)
From Coq Require Import String Ascii.
Definition zs (s : string) : list Z := map (fun a => Z.of_nat (nat_of_ascii a)) (list_ascii_of_string s).
Definition writer_tbl : writer_table :=
  [ (zs "SexpHash.HashSet", WChecker);
    (zs "SexpHash.TypeCheckField", WAdopt);
    (zs "SexpHash.HashDelete", WDelete);
    (zs "SexpHash.CloneFrom", WClone);
    (zs "SexpHash.CopyMap", WClone);
    (zs "MakeHash", WMake);
    (zs "SexpHash.SetGoStructFactory", WMake);   (* called by MakeHash for Go shadow structs *)
    (zs "Zlisp.StandardSetup", WMake) ].         (* gob.Register(SexpHash{}): an empty literal *)
